"""harness/saveseed.py <prop> <seed dir> <detection note>: copy a confirmed seeded change into /verif/seeded."""
import json, sys, shutil, os
prop, src, det = sys.argv[1], sys.argv[2], sys.argv[3]
name = os.path.basename(src.rstrip('/'))
dst = f'/verif/seeded/{prop}/{name}'
os.makedirs(os.path.dirname(dst), exist_ok=True)
if os.path.exists(dst):
    shutil.rmtree(dst)
shutil.copytree(src, dst)
for f in os.listdir(dst):
    p = os.path.join(dst, f)
    if f.endswith('.py'):
        s = open(p).read().replace('/tmp/seedkit', '/verif/harness')
        open(p, 'w').write(s)
m = json.load(open(dst + '/meta.json'))
m['property'] = prop
m.setdefault('name', name)
m['lead_confirmed'] = f'harness/tryseed.sh {prop} seeded/{prop}/{name} : demo PASS on clean tree, FAIL on changed tree'
m['detection'] = det
json.dump(m, open(dst + '/meta.json', 'w'), indent=1)
