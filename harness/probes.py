"""Harness-defined forecasters built on /repo's REAL base classes (so the base-class logic under
test is the repository's own).  Import only after skcompat.bootstrap()."""
import numpy as np
from sktime.forecasting.base._sktime import (_BaseWindowForecaster, _OptionalForecastingHorizonMixin,
                                             _RequiredForecastingHorizonMixin)


class _ProbeBase(_BaseWindowForecaster):
    def __init__(self, window_length=3):
        super(_ProbeBase, self).__init__(window_length=window_length)

    def fit(self, y, X=None, fh=None):
        self._set_y_X(y, X)
        self._set_fh(fh)
        if self.window_length < 1:
            raise ValueError("window_length")
        self.window_length_ = self.window_length
        if self.window_length_ > len(self._y):
            raise ValueError("window too long")
        self._is_fitted = True
        return self

    def _predict_last_window(self, fh, X=None, return_pred_int=False, alpha=None):
        lw, _ = self._get_last_window()
        rel = fh.to_relative(self.cutoff)
        s = float(np.nansum(lw)) if len(lw) else 0.0
        return np.array([2 * s + 100 * len(lw) + int(h) for h in rel], dtype=float)


class ProbeForecaster(_OptionalForecastingHorizonMixin, _ProbeBase):
    pass


class ProbeForecasterReq(_RequiredForecastingHorizonMixin, _ProbeBase):
    pass


class _IntervalMixin:
    """ThetaForecaster's shape of interval support on top of the REAL base classes: `_predict` = the
    parent's point forecast, then the base class's `compute_pred_int`; `_compute_pred_err` reads the
    stored horizon and the cutoff.  Half-width = (alpha in per-mille) * |step| / 8 (exact in binary)."""

    def _predict(self, fh, X=None, return_pred_int=False, alpha=0.05):
        y_pred = super(_IntervalMixin, self)._predict(fh, X, return_pred_int=False, alpha=alpha)
        if return_pred_int:
            return y_pred, self.compute_pred_int(y_pred=y_pred, alpha=alpha)
        return y_pred

    def _compute_pred_err(self, alphas):
        import pandas as pd
        self.check_is_fitted()
        rel = self.fh.to_relative(self.cutoff).to_pandas()
        ab = self.fh.to_absolute(self.cutoff).to_pandas()
        return [pd.Series([int(round(a * 1000)) * abs(int(h)) / 8.0 for h in rel], index=ab) for a in alphas]


class IntervalProbe(_IntervalMixin, _OptionalForecastingHorizonMixin, _ProbeBase):
    pass


class IntervalProbeReq(_IntervalMixin, _RequiredForecastingHorizonMixin, _ProbeBase):
    pass
