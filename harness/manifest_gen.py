#!/venv/bin/python
"""Regenerates /verif/MANIFEST.json from the corr modules' metadata (so the manifest can never
drift from what the checks implement).  Run: /venv/bin/python harness/manifest_gen.py"""
import json, os, sys, importlib, ast
VERIF = os.path.dirname(os.path.dirname(os.path.abspath(__file__)))
sys.path.insert(0, os.path.join(VERIF, "harness"))

def meta(path):
    """read top-level constant assignments without importing (corr modules import pandas)"""
    tree = ast.parse(open(path).read())
    out = {}
    for node in tree.body:
        if isinstance(node, ast.Assign) and len(node.targets) == 1 and isinstance(node.targets[0], ast.Name):
            try:
                out[node.targets[0].id] = ast.literal_eval(node.value)
            except Exception:
                pass
    return out

CLAIMED = json.load(open(os.path.join(VERIF, "claimed.json")))   # maintained by the lead: checks that are finished
props = [json.loads(l) for l in open(os.path.join(VERIF, "properties.jsonl"))]
checks, na = [], []
for p in props:
    pid = p["id"]
    f = os.path.join(VERIF, "harness", "corr", pid + ".py")
    m = meta(f) if os.path.exists(f) else {}
    if pid not in CLAIMED or not os.path.exists(f):
        na.append({"property_id": pid, "reason": m.get("NA_REASON", "check not built yet in this round (design in DESIGN.md section 5)")})
        continue
    checks.append({
        "property_id": pid,
        "quick_cmd": "./check %s --tier quick" % pid,
        "thorough_cmd": "./check %s --tier thorough" % pid,
        "evidence_file": "evidence/%s.json" % pid,
        "replay_cmd_template": "./check %s --replay {path}" % pid,
        "engine": "lean4-proof+correspondence",
        "level_claimed": {"category": "proof",
                          "text": m.get("LEVEL_TEXT", "Lean 4 theorems about a hand-written executable model; model tied to /repo by a differential correspondence check on every run."),
                          "design_ref": m.get("DESIGN_REF", "DESIGN.md section 5 " + pid)},
        "level_note": m.get("LEVEL_NOTE", "Trusted: Lean kernel; axioms propext/Classical.choice/Quot.sound; the model's faithfulness to the extent the correspondence exercises it; harness + compat layer."),
        "technique": m.get("TECHNIQUE", "Lean 4 machine-checked proof over an executable model + differential correspondence with the real code"),
    })
man = {
    "version": 1,
    "setup_cmd": "cd lean && lake build",
    "hooks": {"guard": "SKTIME_VERIF", "enable": "no source hooks: checks import /repo's working tree in-process under harness/skcompat.py with SKTIME_VERIF=1",
              "baseline_off_cmd": "cd /repo && /venv/bin/python -m pytest -ra -q -p no:cacheprovider --timeout=900 --continue-on-collection-errors",
              "source_commits": json.load(open(os.path.join(VERIF, "source_commits.json"))) if os.path.exists(os.path.join(VERIF, "source_commits.json")) else [],
              "add_only": True},
    "engines": [{"name": "lean4-proof+correspondence", "path": "lean/ + harness/", "serves_properties": [c["property_id"] for c in checks],
                 "kind_free_text": "Lean 4 model + theorems (lean/SkVerif), line-protocol driver (lean/Driver.lean), Python runner (harness/runner.py) running /repo's real code under a compat layer and diffing against the model; oracle = property stated over real observations"}],
    "checks": checks,
    "notes": "See DESIGN.md. Exit 0 = held; 1 = VIOLATION line; 2 = harness failure. known_findings.json lists recorded findings and fixed defects.",
    "not_applicable": na,
}
json.dump(man, open(os.path.join(VERIF, "MANIFEST.json"), "w"), indent=1)
print("claimed:", [c["property_id"] for c in checks]); print("not claimed:", [n["property_id"] for n in na])
