#!/bin/sh
# harness/run_all.sh [tier] [seed] : run every claimed check (4 in parallel) and print one line each
tier=${1:-quick}; seed=${2:-0}
cd /verif || exit 2
mkdir -p .runall
for p in $(python3 -c "import json;print(' '.join(json.load(open('claimed.json'))))"); do echo $p; done | \
  xargs -P 4 -I{} sh -c "VERIF_SEED=$seed ./check {} --tier $tier > .runall/{}.log 2>&1; echo {} exit=\$? \$(grep -E '^C[0-9]+ (quick|thorough)' .runall/{}.log | cut -c1-150) \$(grep -c '^VIOLATION' .runall/{}.log) violations"
