"""Prediction-interval layer of C10 (model: lean/SkVerif/Model/PredInt.lean): how return_pred_int /
alpha travel through predict, update_predict_single and update_predict of /repo's REAL base classes.

case = {"prop": "C10", "kind": "pi", "core": "probe:<w>" | "plain:last", "mode": "o"|"r", "ops": [...]}
ops  = the fcmachine ops (fit / pred / upd / up / ups) plus
       ["predi", fh, rpi, alpha] | ["upsi", series, fh, update_params, rpi, alpha] | ["upi", series, cv, update_params, rpi, alpha]
alpha = ["o", k] (a float k/1000) | ["m", [k, ...]] (a list of floats)
The interval probe is exact (half-width = k*|h|/8), so its tables go through the Lean model; the
same histories are also run on ThetaForecaster (floats, real code only) for the twin-run clauses.
"""
import numpy as np, pandas as pd
import fcmachine as M
from common import canon_err, show_ints, show_bool, show_rat

BASE = ("fit", "pred", "upd", "up", "ups")


def s_alpha(a):
    return "o:%d" % a[1] if a[0] == "o" else "m:%s" % show_ints(a[1])


def op_token(op):
    k = op[0]
    if k in BASE:
        return M.op_token(op)
    if k == "predi":
        return "predi|%s|%s|%s" % (M.s_fh(op[1]), show_bool(op[2]), s_alpha(op[3]))
    if k == "upsi":
        return "upsi|%s|%s|%s|%s|%s" % (M.s_series(op[1]), M.s_fh(op[2]), show_bool(op[3]), show_bool(op[4]), s_alpha(op[5]))
    if k == "upi":
        return "upi|%s|%s|%s|%s|%s" % (M.s_series(op[1]), M.s_cv(op[2]), show_bool(op[3]), show_bool(op[4]), s_alpha(op[5]))
    raise ValueError(op)


def to_line(c):
    return "%s pirun %s %s %s" % (c.get("prop", "C10"), c["core"], c["mode"], " ".join(op_token(o) for o in c["ops"]))


def mk_alpha(a):
    return a[1] / 1000.0 if a[0] == "o" else [k / 1000.0 for k in a[1]]


def make(core, mode):
    from sktime.forecasting.naive import NaiveForecaster
    from probes import IntervalProbe, IntervalProbeReq
    if core.startswith("probe:"):
        return (IntervalProbe if mode == "o" else IntervalProbeReq)(window_length=int(core.split(":")[1]))
    if core == "plain:last":
        return NaiveForecaster(strategy="last")
    if core == "real:theta":
        from sktime.forecasting.theta import ThetaForecaster
        return ThetaForecaster(deseasonalize=False)
    raise ValueError(core)


def _table(t, exact):
    if not isinstance(t, pd.DataFrame) or list(t.columns) != ["lower", "upper"]:
        return "MALFORMED"
    f = show_rat if exact else (lambda v: repr(float(v)))
    return ",".join("%d:%s~%s" % (int(l), f(float(lo)), f(float(hi))) for l, lo, hi in zip(t.index, t["lower"], t["upper"]))


def show_res(res, f, exact=True):
    if res is f:
        return "ok"
    if isinstance(res, tuple) and len(res) == 2 and isinstance(res[0], pd.Series):
        yp, pi = res
        s = M.show_out(yp, 0, False) if exact else "S[%s]" % ",".join("%d:%r" % (int(l), float(v)) for l, v in yp.items())
        if isinstance(pi, pd.DataFrame):
            return s + "+I1[" + _table(pi, exact) + "]"
        if isinstance(pi, list):
            return s + "+IL[" + ";".join(_table(t, exact) for t in pi) + "]"
        return s + "+MALFORMED"
    if exact:
        return M.show_out(res, 0, False)
    if isinstance(res, pd.Series):
        return "S[%s]" % ",".join("%d:%r" % (int(l), float(v)) for l, v in res.items())
    return "F"


def apply_op(f, op, exact=True):
    """one call on the real forecaster -> canonical result token (without the state)"""
    k = op[0]
    try:
        if k == "fit":
            res = f.fit(M.mk_series(op[1], 0, False), fh=M.mk_fh(op[2], 0))
        elif k == "pred":
            res = f.predict(M.mk_fh(op[1], 0))
        elif k == "upd":
            res = f.update(M.mk_series(op[1], 0, False), update_params=op[2])
        elif k == "up":
            res = f.update_predict(M.mk_series(op[1], 0, False), cv=M.mk_cv(op[2]), update_params=op[3])
        elif k == "ups":
            res = f.update_predict_single(M.mk_series(op[1], 0, False), fh=M.mk_fh(op[2], 0), update_params=op[3])
        elif k == "predi":
            res = f.predict(M.mk_fh(op[1], 0), return_pred_int=op[2], alpha=mk_alpha(op[3]))
        elif k == "upsi":
            res = f.update_predict_single(M.mk_series(op[1], 0, False), fh=M.mk_fh(op[2], 0), update_params=op[3],
                                          return_pred_int=op[4], alpha=mk_alpha(op[5]))
        elif k == "upi":
            res = f.update_predict(M.mk_series(op[1], 0, False), cv=M.mk_cv(op[2]), update_params=op[3],
                                   return_pred_int=op[4], alpha=mk_alpha(op[5]))
        else:
            raise RuntimeError(k)
        return show_res(res, f, exact)
    except Exception as e:
        return canon_err(e)


def run_real(c):
    import warnings
    warnings.filterwarnings("ignore")
    f = make(c["core"], c["mode"])
    toks = []
    for op in c["ops"]:
        toks.append(apply_op(f, op) + M.show_state(f, 0, False))
    y = getattr(f, "_y", None)
    toks.append("Y[-]" if y is None else "Y[%s]" % ("-" if len(y) == 0 else ",".join("%d:%s" % (int(l), show_rat(float(v))) for l, v in y.items())))
    return " ".join(toks)


# ------------------------------------------------------------------ oracle (real code only)
def _parse(tok):
    """result token -> (point series [(label, float)] | None, tables [[(label, lo, hi)]] | None, single?)"""
    if not tok.startswith("S["):
        return None, None, None
    if "+I" not in tok:
        body, rest = tok[2:tok.index("]")], None
    else:
        body, rest = tok[2:tok.index("]+I")], tok[tok.index("]+I") + 2:]
    pts = [] if body in ("-", "") else [(int(p.split(":")[0]), _num(p.split(":")[1])) for p in body.split(",")]
    if rest is None:
        return pts, None, None
    single = rest.startswith("I1[")
    inner = rest[3:-1]
    tabs = []
    if inner != "" or single:
        for t in inner.split(";"):
            tabs.append([] if t == "" else [(int(r.split(":")[0]),) + tuple(_num(x) for x in r.split(":")[1].split("~")) for r in t.split(",")])
    return pts, tabs, single


def _num(x):
    if x == "nan":
        return float("nan")
    if "/" in x:
        a, b = x.split("/")
        return int(a) / int(b)
    return float(x)


def _close(a, b):
    if a != a and b != b:
        return True
    return abs(a - b) <= 1e-9 * max(1.0, abs(a), abs(b))


def _same_result(a, b):
    pa, ta, sa = _parse(a)
    pb, tb, sb = _parse(b)
    if pa is None or pb is None:
        return a.split("{")[0] == b.split("{")[0]
    if [l for l, _ in pa] != [l for l, _ in pb] or not all(_close(x[1], y[1]) for x, y in zip(pa, pb)):
        return False
    if (ta is None) != (tb is None):
        return False
    if ta is None:
        return True
    if sa != sb or len(ta) != len(tb):
        return False
    for x, y in zip(ta, tb):
        if [r[0] for r in x] != [r[0] for r in y]:
            return False
        if not all(_close(r[1], q[1]) and _close(r[2], q[2]) for r, q in zip(x, y)):
            return False
    return True


def _levels(a):
    ks = [a[1]] if a[0] == "o" else list(a[1])
    return ks if all(0 < k < 1000 for k in ks) else None


def _history_on(core, mode, ops, exact):
    f = make(core, mode)
    outs = []
    for op in ops:
        outs.append(apply_op(f, op, exact))
    return f, outs


def twin_clauses(core, mode, ops, site, exact):
    """the property's clauses on the real code, by twin runs of the same history"""
    import warnings
    warnings.filterwarnings("ignore")
    fails = []
    f, outs = _history_on(core, mode, ops, exact)
    for i, (op, out) in enumerate(zip(ops, outs)):
        k = op[0]
        if k == "upsi":
            # update_predict_single(y, fh, ..., return_pred_int, alpha) == update(y) ; predict(fh, return_pred_int, alpha)
            g, _ = _history_on(core, mode, ops[:i], exact)
            u = apply_op(g, ["upd", op[1], op[3]], exact)
            if u == "ok" and not out.startswith("E:"):
                want = apply_op(g, ["predi", op[2], op[4], op[5]], exact)
                if not _same_result(out, want):
                    fails.append((site + ":single-step-intervals-differ-from-update-then-predict",
                                  "op %d %s: update_predict_single gave %s, update followed by predict gave %s" % (i, op_token(op), out, want)))
            elif u == "ok" and out.startswith("E:"):
                want = apply_op(g, ["predi", op[2], op[4], op[5]], exact)
                if not want.startswith("E:"):
                    fails.append((site + ":single-step-refuses-what-update-then-predict-answers",
                                  "op %d %s: update_predict_single gave %s, update followed by predict gave %s" % (i, op_token(op), out, want)))
        if k in ("predi", "upsi") and op[-2] and not out.startswith("E:"):
            pts, tabs, single = _parse(out)
            a = op[-1]
            ks = _levels(a)
            if tabs is None or "MALFORMED" in out:
                fails.append((site + ":intervals-requested-not-returned", "op %d %s -> %s" % (i, op_token(op), out)))
                continue
            if ks is None:
                fails.append((site + ":invalid-level-accepted", "op %d %s -> %s" % (i, op_token(op), out)))
                continue
            if single != (a[0] == "o") or len(tabs) != len(ks):
                fails.append((site + ":interval-tables-do-not-match-levels", "op %d %s -> %s" % (i, op_token(op), out)))
                continue
            for t in tabs:
                if [r[0] for r in t] != [l for l, _ in pts]:
                    fails.append((site + ":interval-labels-differ-from-forecast-labels", "op %d %s -> %s" % (i, op_token(op), out)))
                    break
                if any(not (r[1] != r[1] or (r[1] <= r[2] and _close((r[1] + r[2]) / 2, v))) for r, (_, v) in zip(t, pts)):
                    fails.append((site + ":interval-not-centred-on-forecast", "op %d %s -> %s" % (i, op_token(op), out)))
                    break
            # the point forecasts are those of the same call without intervals
            g, _ = _history_on(core, mode, ops[:i], exact)
            plain = apply_op(g, ["pred", op[1]] if k == "predi" else ["ups", op[1], op[2], op[3]], exact)
            pp, _, _ = _parse(plain)
            if pp is None or [l for l, _ in pp] != [l for l, _ in pts] or not all(_close(x[1], y[1]) for x, y in zip(pp, pts)):
                fails.append((site + ":point-forecast-changes-with-interval-request", "op %d %s: %s vs plain %s" % (i, op_token(op), out, plain)))
            # a narrower level gives a wider interval: tables of one call are nested by level
            if len(ks) > 1:
                for (k1, t1) in zip(ks, tabs):
                    for (k2, t2) in zip(ks, tabs):
                        if k1 < k2 and core != "probe" and not core.startswith("probe") and any(
                                (r1[2] - r1[1]) + 1e-12 < (r2[2] - r2[1]) for r1, r2 in zip(t1, t2) if r1[1] == r1[1]):
                            fails.append((site + ":smaller-alpha-narrower-interval", "op %d %s -> %s" % (i, op_token(op), out)))
        if k == "upi" and op[4]:
            # update_predict refuses intervals and leaves the forecaster as it was
            g, _ = _history_on(core, mode, ops[:i], exact)
            h, _ = _history_on(core, mode, ops[:i + 1], exact)
            if not out.startswith("E:"):
                fails.append((site + ":update-predict-answers-interval-request", "op %d -> %s" % (i, out)))
            elif M.show_state(g, 0, False) != M.show_state(h, 0, False) or not _same_y(g, h):
                fails.append((site + ":refused-update-predict-changed-state", "op %d: %s -> %s" % (i, M.show_state(g, 0, False), M.show_state(h, 0, False))))
    return fails


def _same_y(g, h):
    a, b = getattr(g, "_y", None), getattr(h, "_y", None)
    if a is None or b is None:
        return a is b
    return list(a.index) == list(b.index) and all(_close(float(x), float(y)) for x, y in zip(a.tolist(), b.tolist()))


def oracle(c, out):
    fails = []
    if c["core"].startswith("probe"):
        fails += twin_clauses(c["core"], c["mode"], c["ops"], "probeint", True)
        if c["mode"] == "o" and c.get("theta"):
            fails += twin_clauses("real:theta", "o", c["ops"], "theta", False)
    return fails


def nontrivial(c, out):
    return "+I" in out or "E:notimpl" in out


def features(c, out):
    f = ["core=" + c["core"].split(":")[0] + "-intervals", "mode=" + c["mode"]]
    for op in c["ops"]:
        f.append("op=" + op[0] + (":rpi" if op[0] in ("predi", "upsi", "upi") and op[-2] else ""))
        if op[0] in ("predi", "upsi", "upi"):
            a = op[-1]
            f.append("alpha=" + ("float" if a[0] == "o" else "list%d" % len(a[1])) + ("" if _levels(a) is not None else ":invalid"))
    for t in out.split(" "):
        if t.startswith("E:"):
            f.append("err=" + t[:t.index("{")])
    return f


ALPHAS = [["o", 50], ["o", 200], ["o", 500], ["o", 10], ["m", [200, 500]], ["m", [50]], ["m", [900, 100, 500]], ["m", []],
          ["o", 0], ["o", 1000], ["m", [200, 1500]], ["o", -100]]


def _alpha(rng):
    return [x if not isinstance(x, list) else list(x) for x in (rng.choice(ALPHAS[:8]) if rng.random() < 0.85 else rng.choice(ALPHAS[8:]))]


def gen_cases(tier, rng):
    cases = []
    n = 60 if tier == "quick" else 500
    for i in range(n):
        core = rng.choice(["probe:1", "probe:2", "probe:3", "probe:3", "plain:last"])
        mode = "r" if core.startswith("probe") and rng.random() < 0.2 else "o"
        total = rng.randrange(10, 20)
        series = M.stretch(rng, rng.choice([0, 0, 4, -2]), total, 0.0, True, 0.0)
        n0 = rng.randrange(6, 10)
        y0, rest = series[:n0], series[n0:]
        fit_fh = M.rand_fh(rng, "oos", None, 3) if (mode == "r" or rng.random() < 0.8) else None
        ops = [["fit", y0, fit_fh]]
        stored = fit_fh is not None
        j = 0
        while j < len(rest) and len(ops) < rng.randrange(3, 6):
            m = rng.randrange(1, 4)
            b, r = rest[j:j + m], rng.random()
            rpi = rng.random() < 0.75
            fh = None if (mode == "r" or (stored and rng.random() < 0.5)) else M.rand_fh(rng, "oos", None, 3)   # intervals are asked for out-of-sample steps (Theta's own error formula is undefined in-sample)
            if r < 0.45:
                ops.append(["upsi", b, fh, rng.random() < 0.5, rpi, _alpha(rng)])
                stored = stored or fh is not None
                j += m
            elif r < 0.7:
                ops.append(["predi", fh, rpi, _alpha(rng)])
                stored = stored or fh is not None
            elif r < 0.85:
                ops.append(["upd", b, rng.random() < 0.5])
                j += m
            else:
                b = rest[j:j + m + 3]
                ops.append(["upi", b, [rng.choice(["s", "e"]), [1, 2][:rng.randrange(1, 3)], rng.randrange(1, 3), 1, None, True],
                            rng.random() < 0.4, rng.random() < 0.6, _alpha(rng)])
                j += len(b)
        cases.append({"prop": "C10", "kind": "pi", "core": core, "mode": mode, "ops": ops,
                      "theta": core.startswith("probe") and mode == "o" and i % 3 == 0})
    return cases


def shrink(c):
    ops = c["ops"]
    for i in range(len(ops) - 1, 0, -1):
        yield dict(c, ops=ops[:i] + ops[i + 1:])


# ------------------------------------------------------------------ C03: labels of forecasts AND interval tables
def label_oracle(c, out):
    """C03 on the interval entry points: whatever was asked for besides the forecast (return_pred_int, alpha) and whatever
    was asked before, a forecast is labelled cutoff + step for a relative horizon and by the time points themselves for an
    absolute one -- from the cutoff the forecaster stands at NOW -- and every interval table carries exactly those labels."""
    fails = []
    toks = out.split(" ")[:-1]
    stored, sure = None, True
    site = "probeint" if c["core"].startswith("probe") else "plainint"
    for i, (op, tok) in enumerate(zip(c["ops"], toks)):
        k = op[0]
        body, st = tok[:tok.rindex("{")], tok[tok.rindex("{") + 1:-1].split(",", 3)
        cut = None if st[1] == "none" else int(st[1])
        given = op[2] if k in ("fit", "upsi", "ups") else op[1] if k in ("predi", "pred") else None
        if k in ("fit", "predi", "pred", "upsi", "ups"):
            if given is not None:
                if body.startswith("E:") and body not in ("E:notimpl",):
                    sure = False if k != "fit" else sure      # the call may have failed before or after storing the horizon
                    if k == "fit":
                        stored, sure = None, False
                else:
                    stored, sure = given, True if k == "fit" else sure
            elif k == "fit":
                stored, sure = None, True
        if k in ("up", "upi") and not body.startswith("E:"):
            pass        # a window forecaster keeps its own horizon through update_predict
        if k in ("predi", "pred", "upsi", "ups") and body.startswith("S[") and sure and cut is not None:
            fh = given if given is not None else stored
            if fh is None:
                continue
            want = sorted(cut + h for h in fh[1]) if fh[0] == "r" else sorted(fh[1])
            pts, tabs, _ = _parse(body)
            got = [l for l, _ in pts]
            if got != want:
                fails.append((site + ":forecast-labels", "op %d %s at cutoff %d: forecast labelled %r, requested horizon means %r" % (i, op_token(op), cut, got, want)))
                break
            if tabs is not None and any([r[0] for r in t] != want for t in tabs):
                fails.append((site + ":interval-labels", "op %d %s at cutoff %d: interval tables labelled %r, requested horizon means %r" % (
                    i, op_token(op), cut, [[r[0] for r in t] for t in tabs], want)))
                break
    return fails
