"""Shared harness code for the forecaster state machine (C03, C10): history cases, the driver
line, running a history on /repo's real forecasters, parsing canonical outputs.

case = {"prop": "C03"|"C10", "core": "last"|"mean:none"|"mean:3"|"probe:3"|"opaque:<name>", "mode": "o"|"r",
        "ops": [op...], "shift": k, "range": bool}
op   = ["fit", series, fh] | ["pred", fh] | ["upd", series, bool] | ["up", series, cv, bool] | ["ups", series, fh, bool]
series = [[label, value|None], ...]     fh = None | ["r", [..]] | ["a", [..]]
cv   = None | [kind, fh, wl, step, iw, sww]
Labels in the case are UNSHIFTED; run_real adds case["shift"] to every label (and to absolute
horizons) before calling the real code and subtracts it from every label it reports, so a case
and its shifted twin have the same driver line (shift-equivariance is then part of the
correspondence, and checked directly by the C03 oracle).
"""
import math
import numpy as np, pandas as pd
from fractions import Fraction
from common import canon_err, show_ints, show_bool, show_rat, fuzzy_equal


def s_series(s):
    return "-" if not s else ",".join("%d:%s" % (l, show_rat(v)) for l, v in s)


def s_fh(fh):
    return "none" if fh is None else "%s:%s" % (fh[0], show_ints(fh[1]))


def s_cv(cv):
    if cv is None:
        return "none"
    k, fh, wl, step, iw, sww = cv
    return "%s:%s:%d:%d:%s:%s" % (k, show_ints(fh), wl, step, "none" if iw is None else iw, show_bool(sww))


def op_token(op):
    k = op[0]
    if k == "fit":
        return "fit|%s|%s" % (s_series(op[1]), s_fh(op[2]))
    if k == "pred":
        return "pred|%s" % s_fh(op[1])
    if k == "upd":
        return "upd|%s|%s" % (s_series(op[1]), show_bool(op[2]))
    if k == "up":
        return "up|%s|%s|%s" % (s_series(op[1]), s_cv(op[2]), show_bool(op[3]))
    if k == "ups":
        return "ups|%s|%s|%s" % (s_series(op[1]), s_fh(op[2]), show_bool(op[3]))
    raise ValueError(op)


def to_line(c):
    core = c["core"]
    if core.startswith("opaque"):
        core = "opaque"
    return "%s run %s %s %s" % (c["prop"], core, c["mode"], " ".join(op_token(o) for o in c["ops"]))


# ------------------------------------------------------------------ real side
OPAQUE = {}


def _opaque_table():
    if OPAQUE:
        return OPAQUE
    from sklearn.linear_model import LinearRegression
    from sklearn.tree import DecisionTreeRegressor
    from sktime.forecasting.naive import NaiveForecaster
    from sktime.forecasting.trend import PolynomialTrendForecaster
    from sktime.forecasting.compose import (EnsembleForecaster, TransformedTargetForecaster, MultiplexForecaster,
                                            StackingForecaster, ReducedForecaster)
    from sktime.forecasting.model_selection import ForecastingGridSearchCV, SlidingWindowSplitter
    from sktime.transformations.series.detrend import Detrender
    from sktime.transformations.series.boxcox import LogTransformer

    def red(strategy, scitype="tabular-regressor"):
        from sktime.forecasting.compose import make_reduction
        return lambda: make_reduction(LinearRegression(), scitype=scitype, strategy=strategy, window_length=3)
    OPAQUE.update({
        "trend": ("o", lambda: PolynomialTrendForecaster(degree=1)),
        "trend2": ("o", lambda: PolynomialTrendForecaster(degree=2)),
        "naive_drift": ("o", lambda: NaiveForecaster(strategy="drift")),
        "naive_seasonal": ("o", lambda: NaiveForecaster(strategy="last", sp=2)),
        # seasonal means over windows that are not a whole number of seasons
        "naive_seasonal_mean": ("o", lambda: NaiveForecaster(strategy="mean", sp=3)),
        "naive_seasonal_mean_w": ("o", lambda: NaiveForecaster(strategy="mean", sp=4, window_length=7)),
        "red_recursive": ("o", red("recursive")),
        "red_direct": ("r", red("direct")),
        "red_multioutput": ("r", red("multioutput")),
        "red_dirrec": ("r", red("dirrec")),
        "ensemble": ("o", lambda: EnsembleForecaster([("a", NaiveForecaster()), ("b", PolynomialTrendForecaster())])),
        "pipeline": ("o", lambda: TransformedTargetForecaster([("log", LogTransformer()), ("f", PolynomialTrendForecaster())])),
        "pipeline_detrend": ("o", lambda: TransformedTargetForecaster([("d", Detrender(PolynomialTrendForecaster())), ("f", NaiveForecaster(strategy="mean"))])),
        "multiplex": ("o", lambda: MultiplexForecaster([("a", NaiveForecaster()), ("b", PolynomialTrendForecaster())], selected_forecaster="b")),
        "stack": ("r", lambda: StackingForecaster([("a", NaiveForecaster()), ("b", PolynomialTrendForecaster())], final_regressor=LinearRegression())),
        "tuned": ("o", lambda: ForecastingGridSearchCV(NaiveForecaster(strategy="mean"), cv=SlidingWindowSplitter(fh=[1], window_length=4),
                                                       param_grid={"window_length": [2, 3]})),
        "nested": ("o", lambda: EnsembleForecaster([("p", TransformedTargetForecaster([("log", LogTransformer()), ("f", NaiveForecaster())])),
                                                    ("m", MultiplexForecaster([("a", NaiveForecaster(strategy="mean")), ("b", PolynomialTrendForecaster())], selected_forecaster="a"))])),
    })
    from sktime.transformations.series.impute import Imputer
    OPAQUE.update({
        # a cleaning step in front (update batches with missing values must reach the forecaster cleaned)
        "pipeline_impute": ("o", lambda: TransformedTargetForecaster([("imp", Imputer(method="mean")), ("f", NaiveForecaster(strategy="mean"))])),
        # composites three levels deep
        "deep": ("o", lambda: EnsembleForecaster([
            ("e", EnsembleForecaster([("p", TransformedTargetForecaster([("log", LogTransformer()), ("f", NaiveForecaster(strategy="mean"))])),
                                      ("t", PolynomialTrendForecaster())])),
            ("n", NaiveForecaster(strategy="drift"))])),
    })
    try:
        from sktime.forecasting.exp_smoothing import ExponentialSmoothing
        from sktime.forecasting.theta import ThetaForecaster
        OPAQUE["expsmooth"] = ("o", lambda: ExponentialSmoothing())
        # non-flat models: their forecasts depend on how far ahead of the fitted data a time point lies
        OPAQUE["expsmooth_trend"] = ("o", lambda: ExponentialSmoothing(trend="add"))
        OPAQUE["expsmooth_damped"] = ("o", lambda: ExponentialSmoothing(trend="add", damped_trend=True))
        OPAQUE["theta"] = ("o", lambda: ThetaForecaster(deseasonalize=False))
    except Exception:
        pass
    return OPAQUE


def make_forecaster(c):
    from sktime.forecasting.naive import NaiveForecaster
    from probes import ProbeForecaster, ProbeForecasterReq
    core = c["core"]
    if core == "last":
        return NaiveForecaster(strategy="last")
    if core.startswith("mean:"):
        w = core.split(":")[1]
        return NaiveForecaster(strategy="mean", window_length=None if w == "none" else int(w))
    if core.startswith("probe:"):
        w = int(core.split(":")[1])
        return (ProbeForecaster if c["mode"] == "o" else ProbeForecasterReq)(window_length=w)
    if core.startswith("opaque:"):
        return _opaque_table()[core.split(":", 1)[1]][1]()
    raise ValueError(core)


def mk_series(s, shift, use_range):
    labels = [l + shift for l, _ in s]
    vals = [float("nan") if v is None else float(v) for _, v in s]
    if use_range and labels and labels == list(range(labels[0], labels[0] + len(labels))):
        idx = pd.RangeIndex(labels[0], labels[0] + len(labels))
    else:
        idx = pd.Index(np.array(labels, dtype="int64"))
    arr = np.array(vals, dtype="float64")
    # integer-valued data without gaps are sometimes handed over with an integer dtype
    if len(vals) and not np.isnan(arr).any() and np.all(arr == np.round(arr)) and (len(vals) + int(abs(arr).sum())) % 3 == 0:
        arr = arr.astype("int64")
    # ... and sometimes as a strided view of a wider buffer (not contiguous in memory)
    if len(vals) > 1 and (len(vals) + 2 * shift + int(labels[0])) % 4 == 1:
        buf = np.zeros(2 * len(arr), dtype=arr.dtype)
        buf[::2] = arr
        buf[1::2] = -777
        arr = buf[::2]
    return pd.Series(arr, index=idx)


def _snap(a):
    """value snapshot of a caller's argument (series / horizon container)"""
    if a is None or isinstance(a, (int, np.integer)):
        return a
    if isinstance(a, pd.Series):
        return ("S", a.index.tolist(), [None if v != v else v for v in a.tolist()], str(a.dtype))
    if hasattr(a, "to_pandas"):
        return ("FH", a.to_pandas().tolist(), a.is_relative)
    if isinstance(a, (pd.Index, np.ndarray)):
        return ("A", a.tolist())
    if isinstance(a, list):
        return ("L", list(a))
    return repr(a)


def mk_fh(fh, shift):
    from sktime.forecasting.base import ForecastingHorizon
    if fh is None:
        return None
    # the same horizon in different containers and orders (the model sorts; so must the code)
    form = (sum(fh[1]) + 3 * len(fh[1]) + shift) % 5
    vals = list(fh[1])
    if form in (1, 3) and len(vals) > 1:
        vals = vals[1:] + vals[:1]            # rotated: not in increasing order
    if fh[0] == "r":
        # equally spaced steps are sometimes handed over as a (stepped) pandas RangeIndex, bare or wrapped
        sv = sorted(vals)
        if len(sv) >= 2 and len({b - a for a, b in zip(sv, sv[1:])}) == 1 and (sum(sv) + shift) % 3 == 0:
            ri = pd.RangeIndex(sv[0], sv[-1] + 1, sv[1] - sv[0])
            return ForecastingHorizon(ri, is_relative=True) if form % 2 else ri
        if len(vals) == 1:
            return list(vals) if shift % 2 else int(vals[0])
        if form == 2:
            return np.array(vals, dtype="int64")
        if form == 3:
            return pd.Index(np.array(vals, dtype="int64"))
        if form == 4:
            return ForecastingHorizon(pd.Index(np.array(vals[::-1], dtype="int64")), is_relative=True)
        return list(vals)
    arr = np.array([v + shift for v in vals], dtype="int64")
    return ForecastingHorizon(pd.Index(arr) if form in (3, 4) else arr, is_relative=False)


def mk_cv(cv):
    from sktime.forecasting.model_selection import SlidingWindowSplitter, ExpandingWindowSplitter
    if cv is None:
        return None
    k, fh, wl, step, iw, sww = cv
    if k == "s":
        return SlidingWindowSplitter(fh=list(fh), window_length=wl, step_length=step, initial_window=iw, start_with_window=sww)
    return ExpandingWindowSplitter(fh=list(fh), initial_window=wl, step_length=step, start_with_window=sww)


def _v(x, opaque):
    return "?" if opaque else show_rat(float(x))


def show_out(res, shift, opaque):
    if isinstance(res, pd.Series):
        return "S[%s]" % ("-" if len(res) == 0 else ",".join("%d:%s" % (int(l) - shift, _v(v, opaque)) for l, v in res.items()))
    if isinstance(res, pd.DataFrame):
        res = res.sort_index()
        rows = ["%d:%s" % (int(l) - shift, "~".join(_v(v, opaque) for v in row)) for l, row in zip(res.index, res.to_numpy())]
        return "F[%s|%s]" % (show_ints([int(cc) - shift for cc in res.columns]), ",".join(rows))
    return "ok"


def show_state(f, shift, opaque=False):
    cut = getattr(f, "cutoff", None)
    cut = "none" if cut is None else str(int(cut) - shift)
    if opaque:
        return "{%s,%s,?,?}" % (show_bool(bool(f.is_fitted)), cut)
    y = getattr(f, "_y", None)
    n = 0 if y is None else len(y)
    fh = getattr(f, "_fh", None)
    if fh is None:
        fhs = "none"
    else:
        vals = [int(v) for v in fh.to_pandas()]
        fhs = ("r:" + show_ints(vals)) if fh.is_relative else ("a:" + show_ints([v - shift for v in vals]))
    return "{%s,%s,%d,%s}" % (show_bool(bool(f.is_fitted)), cut, n, fhs)


def run_real(c):
    import warnings
    warnings.filterwarnings("ignore")
    shift, rng_idx = c.get("shift", 0), c.get("range", False)
    opaque = c["core"].startswith("opaque")
    f = make_forecaster(c)
    toks = []
    held = []
    other = [None]
    for op in c["ops"]:
        k = op[0]
        ya = mk_series(op[1], shift, rng_idx) if k in ("fit", "upd", "up", "ups") else None
        fa = mk_fh(op[2] if k in ("fit", "ups") else op[1], shift) if k in ("fit", "pred", "ups") else None
        before = (_snap(ya), _snap(fa))
        held.append((ya, before[0]))
        kw = (len(toks) + len(c["ops"])) % 2 == 1          # the same call, arguments by keyword or by position
        try:
            if k == "fit":
                res = f.fit(y=ya, X=None, fh=fa) if kw else f.fit(ya, None, fa)
            elif k == "pred":
                res = f.predict(fh=fa) if kw else f.predict(fa)
            elif k == "upd":
                res = f.update(y=ya, X=None, update_params=op[2]) if kw else f.update(ya, None, op[2])
            elif k == "up":
                res = f.update_predict(y=ya, cv=mk_cv(op[2]), update_params=op[3]) if kw else f.update_predict(ya, mk_cv(op[2]), None, op[3])
            elif k == "ups":
                # (the tuner names this parameter `y`, the forecaster base classes `y_new`: the data go by position)
                res = f.update_predict_single(ya, fh=fa, update_params=op[3]) if kw else f.update_predict_single(ya, fa, None, op[3])
            else:
                raise RuntimeError(k)
            out = "ok" if res is f else show_out(res, shift, opaque)
        except Exception as e:
            out = canon_err(e)
        # a second object of the same kind lives its own life in between: objects do not share state
        if c.get("other"):
            try:
                if other[0] is None or len(toks) % 3 == 0:
                    other[0] = make_forecaster(c)
                    other[0].fit(mk_series([[7 + j, 1000.0 + 3 * j * j] for j in range(14)], shift, False), fh=mk_fh(["r", [1, 2, 5]], 0))
                else:
                    other[0].update(mk_series([[21 + len(toks), 5000.0], [22 + len(toks), -5000.0]], shift, False), update_params=bool(len(toks) % 2))
                    other[0].predict([1, 2, 5])
            except Exception:
                pass
        # the caller's own objects -- this call's and every earlier call's -- are not the forecaster's to change
        if (_snap(ya), _snap(fa)) != before or any(_snap(a) != b for a, b in held):
            out = "E:argmod"
        toks.append(out + show_state(f, shift, opaque))
    y = getattr(f, "_y", None)
    if opaque:
        toks.append("Y[?]")
    elif y is None:
        toks.append("Y[-]")
    else:
        toks.append("Y[%s]" % ("-" if len(y) == 0 else ",".join("%d:%s" % (int(l) - shift, show_rat(float(v))) for l, v in y.items())))
    return " ".join(toks)


def compare(real, model):
    return fuzzy_equal(real, model)


# ------------------------------------------------------------------ parsing canonical outputs
def parse_tokens(out):
    """-> list of (result, state) per op + remembered series.
    result = ("ok",) | ("S", [(label, val)]) | ("F", cols, [(label, [vals])]) | ("E", kind)
    state = (fitted, cutoff|None, n, fh) ; vals are Fractions / None(nan) / "?" """
    toks = out.split(" ")
    res = []
    for t in toks[:-1]:
        body, st = t[:t.rindex("{")], t[t.rindex("{") + 1:-1]
        fitted, cut, n, fh = st.split(",", 3)
        state = (fitted == "T", None if cut == "none" else int(cut), None if n == "?" else int(n), fh)
        if body == "ok":
            r = ("ok",)
        elif body.startswith("E:"):
            r = ("E", body)
        elif body.startswith("S["):
            inner = body[2:-1]
            r = ("S", [] if inner == "-" else [(int(p.split(":")[0]), _pv(p.split(":")[1])) for p in inner.split(",")])
        elif body.startswith("F["):
            cols, rows = body[2:-1].split("|")
            r = ("F", [] if cols == "-" else [int(x) for x in cols.split(",")],
                 [(int(p.split(":")[0]), [_pv(x) for x in p.split(":")[1].split("~")]) for p in rows.split(",")] if rows else [])
        else:
            raise ValueError(t)
        res.append((r, state))
    yb = toks[-1][2:-1]
    ys = None if yb == "?" else [] if yb == "-" else [(int(p.split(":")[0]), _pv(p.split(":")[1])) for p in yb.split(",")]
    return res, ys


def _pv(x):
    if x == "?":
        return "?"
    if x == "nan":
        return None
    if x in ("inf", "-inf"):
        return float(x)
    return Fraction(x)


# ------------------------------------------------------------------ generators
def rand_vals(rng, n, nan_p=0.0, positive=False):
    out = []
    if rng.random() < 0.2:          # an integer-valued stretch
        return [None if rng.random() < nan_p else float(rng.randrange(1 if positive else -40, 41)) for _ in range(n)]
    for _ in range(n):
        if rng.random() < nan_p:
            out.append(None)
        else:
            d = 1 << rng.randrange(0, 3)
            lo = d if positive else -40 * d
            out.append(rng.randrange(lo, 40 * d + 1) / d)
    return out


def stretch(rng, start, n, nan_p=0.0, positive=False, gap_p=0.0):
    labels, l = [], start
    for _ in range(n):
        labels.append(l)
        l += 1 + (rng.randrange(1, 3) if rng.random() < gap_p else 0)
    return [[a, b] for a, b in zip(labels, rand_vals(rng, n, nan_p, positive))]


def rand_fh(rng, kind="oos", cutoff=None, maxh=6):
    k = rng.choice([1, 1, 2, 3])
    if kind == "oos":
        steps = sorted(rng.sample(range(1, maxh + 1), min(k, maxh)))
    elif kind == "mixed":
        steps = sorted(rng.sample(range(-4, maxh + 1), min(k + 1, maxh + 4)))
    else:
        steps = sorted(rng.sample(range(-5, 1), min(k, 6)))
    if cutoff is not None and rng.random() < 0.4:
        return ["a", [cutoff + s for s in steps]]
    return ["r", steps]
