#!/venv/bin/python
"""Shared check runner (DESIGN.md section 3).

    ./check Cxx [--tier quick|thorough] [--replay FILE]

Steps: (1) build the Lean library (model, property theorems, driver) under a lock,
(2) audit: every obligation theorem exists, its axioms are a subset of
{propext, Classical.choice, Quot.sound}, no forbidden token in the Lean sources,
(3) correspondence: run the REAL code from /repo's working tree and the Lean model's
executable definitions on the same cases and diff canonical outputs, (4) oracle: the
property stated directly over the real code's observations, on every case,
(5) verdict, evidence, replay files.

Exit codes: 0 property held on everything explored; 1 violation (a line
`VIOLATION property=<id> replay=<path>` is printed); 2 harness failure.
"""
import sys, os, json, time, random, subprocess, hashlib, importlib, traceback, re, fcntl, shutil, argparse

VERIF = os.path.dirname(os.path.dirname(os.path.abspath(__file__)))
LEAN = os.path.join(VERIF, "lean")
sys.path.insert(0, os.path.join(VERIF, "harness"))
ALLOWED_AXIOMS = {"propext", "Classical.choice", "Quot.sound"}
FORBIDDEN = re.compile(r"\bsorry\b|\badmit\b|^\s*axiom\s|native_decide|bv_decide|implemented_by|\bunsafe\s|maxHeartbeats\s+0\b", re.M)


def log(*a):
    print(*a, flush=True)


# ----------------------------------------------------------------------------- Lean side
def _strip_comments(src):
    # remove /- ... -/ (nested) and -- line comments
    out, i, depth = [], 0, 0
    n = len(src)
    while i < n:
        if src.startswith("/-", i):
            depth += 1; i += 2; continue
        if depth and src.startswith("-/", i):
            depth -= 1; i += 2; continue
        if depth:
            i += 1; continue
        if src.startswith("--", i):
            j = src.find("\n", i)
            i = n if j < 0 else j
            continue
        out.append(src[i]); i += 1
    return "".join(out)


def lean_sources_for(mod):
    """Transitive closure of SkVerif.* imports of module `mod` (paths)."""
    seen, todo = {}, [mod]
    while todo:
        m = todo.pop()
        if m in seen:
            continue
        p = os.path.join(LEAN, *m.split(".")) + ".lean"
        if not os.path.exists(p):
            continue
        src = open(p).read()
        seen[m] = p
        for im in re.findall(r"^\s*import\s+(SkVerif[\w.]*)", src, re.M):
            todo.append(im)
    return seen


def lake(args, timeout=3000):
    lock = open(os.path.join(LEAN, ".build.lock"), "w")
    fcntl.flock(lock, fcntl.LOCK_EX)
    try:
        p = subprocess.run(["lake"] + args, cwd=LEAN, capture_output=True, text=True, timeout=timeout)
    finally:
        fcntl.flock(lock, fcntl.LOCK_UN)
        lock.close()
    return p


def build_and_audit(corr, thorough=False):
    """Returns dict: built(bool), driver_built(bool), obligations, discharged, problems[list]."""
    res = {"built": False, "driver_built": False, "obligations": len(corr.OBLIGATIONS),
           "discharged": 0, "problems": [], "axioms": {}}
    mods = [corr.LEAN_MODULE] + list(getattr(corr, "EXTRA_LEAN_MODULES", []))
    p = lake(["build"] + mods)
    res["built"] = p.returncode == 0
    if not res["built"]:
        res["problems"].append({"kind": "lean-build-failed", "module": corr.LEAN_MODULE,
                                "log": (p.stdout + p.stderr)[-4000:]})
    pd_ = lake(["build", "SkVerif.Drv.%s" % corr.PROP, "SkVerif.Drv.Loop"])
    res["driver_built"] = pd_.returncode == 0
    if not res["driver_built"]:
        res["problems"].append({"kind": "driver-build-failed", "log": (pd_.stdout + pd_.stderr)[-4000:]})
    # forbidden tokens
    for m, path in sorted(lean_sources_for(corr.LEAN_MODULE).items()):
        body = _strip_comments(open(path).read())
        hit = FORBIDDEN.search(body)
        if hit:
            res["problems"].append({"kind": "forbidden-token", "module": m, "token": hit.group(0).strip()})
    if res["built"]:
        gen = os.path.join(VERIF, ".gen", str(os.getpid()))
        os.makedirs(gen, exist_ok=True)
        try:
            f = os.path.join(gen, "Audit.lean")
            with open(f, "w") as fh:
                fh.write("import %s\n" % "\nimport ".join(mods))
                for t in corr.OBLIGATIONS:
                    fh.write("#print axioms %s\n" % t)
            pa = subprocess.run(["lake", "env", "lean", f], cwd=LEAN, capture_output=True, text=True, timeout=1200)
            out = pa.stdout + pa.stderr
            found = {}
            for m in re.finditer(r"'([^']+)' depends on axioms: \[([^\]]*)\]", out, re.S):
                found[m.group(1)] = {a.strip() for a in m.group(2).replace("\n", " ").split(",") if a.strip()}
            for m in re.finditer(r"'([^']+)' does not depend on any axioms", out):
                found[m.group(1)] = set()
            for t in corr.OBLIGATIONS:
                if t not in found:
                    res["problems"].append({"kind": "obligation-missing", "theorem": t})
                    continue
                res["axioms"][t] = sorted(found[t])
                extra = found[t] - ALLOWED_AXIOMS
                if extra:
                    res["problems"].append({"kind": "bad-axioms", "theorem": t, "axioms": sorted(extra)})
                else:
                    res["discharged"] += 1
            if thorough:
                pc = subprocess.run(["lake", "env", "leanchecker"] + mods, cwd=LEAN, capture_output=True, text=True, timeout=3000)
                res["leanchecker"] = pc.returncode
                if pc.returncode != 0:
                    res["problems"].append({"kind": "leanchecker-failed", "log": (pc.stdout + pc.stderr)[-2000:]})
        finally:
            shutil.rmtree(gen, ignore_errors=True)
            try:
                os.rmdir(os.path.join(VERIF, ".gen"))
            except OSError:
                pass
    return res


def run_driver(prop, lines):
    """Feed lines to the property's Lean driver; returns list of output lines or None."""
    if not lines:
        return []
    p = subprocess.run(["lake", "env", "lean", "--run", "drivers/%s.lean" % prop], cwd=LEAN,
                       input="\n".join(lines) + "\n", capture_output=True, text=True, timeout=3000)
    if p.returncode != 0:
        log("driver failed:", p.stderr[-2000:])
        return None
    outs = p.stdout.split("\n")
    if outs and outs[-1] == "":
        outs.pop()
    if len(outs) != len(lines):
        log("driver returned %d lines for %d inputs" % (len(outs), len(lines)))
        return None
    return outs


# ----------------------------------------------------------------------------- findings
def load_known(prop):
    """known_findings/<prop>.json: {"findings": [{"key", "what", ...}], "fixed": [...]}.
    Only `findings` suppress anything; `fixed` entries suppress nothing.  Never written here."""
    p = os.path.join(VERIF, "known_findings", prop + ".json")
    if not os.path.exists(p):
        return {}
    d = json.load(open(p))
    return {f["key"]: f for f in d.get("findings", [])}


def case_hash(obj):
    return hashlib.sha1(json.dumps(obj, sort_keys=True, default=str).encode()).hexdigest()[:12]


def write_replay(prop, payload):
    d = os.path.join(VERIF, "replays", prop)
    os.makedirs(d, exist_ok=True)
    path = os.path.join(d, case_hash(payload) + ".json")
    with open(path, "w") as fh:
        json.dump(payload, fh, indent=1, default=str)
    return os.path.relpath(path, VERIF)


# ----------------------------------------------------------------------------- main
def main():
    ap = argparse.ArgumentParser()
    ap.add_argument("prop")
    ap.add_argument("--tier", default=os.environ.get("VERIF_TIER", "quick"))
    ap.add_argument("--replay")
    ap.add_argument("--no-lean", action="store_true", help="debug: skip lean build/audit")
    a = ap.parse_args()
    prop, tier = a.prop, a.tier
    if tier not in ("quick", "thorough"):
        tier = "quick"
    seed = int(os.environ.get("VERIF_SEED", "0") or 0)
    t0 = time.time()
    os.environ.setdefault("SKTIME_VERIF", "1")
    import skcompat
    try:
        skcompat.bootstrap()
    except Exception:
        traceback.print_exc()
        log("HARNESS-ERROR: cannot import /repo's sktime under the compat layer")
        return 2
    corr = importlib.import_module("corr." + prop)
    rng = random.Random(seed * 1000003 + 17)

    if a.no_lean:
        lean = {"built": True, "driver_built": True, "obligations": len(corr.OBLIGATIONS),
                "discharged": len(corr.OBLIGATIONS), "problems": [], "axioms": {}}
    else:
        lean = build_and_audit(corr, thorough=(tier == "thorough"))
    for pr in lean["problems"]:
        log("LEAN-PROBLEM:", json.dumps({k: v for k, v in pr.items() if k != "log"}))
        if "log" in pr:
            log(pr["log"][-1500:])

    # ---- cases
    if a.replay:
        rp = json.load(open(a.replay if os.path.isabs(a.replay) else os.path.join(VERIF, a.replay)))
        cases = rp.get("cases") or ([rp["case"]] if "case" in rp else [])
    else:
        cases = []
        cdir = os.path.join(VERIF, "corpus", prop)
        if os.path.isdir(cdir):
            for fn in sorted(os.listdir(cdir)):
                if fn.endswith(".json"):
                    cj = json.load(open(os.path.join(cdir, fn)))
                    cases.extend(cj if isinstance(cj, list) else [cj])
        ncorpus = len(cases)
        cases.extend(corr.gen_cases(tier, rng))

    # when the Lean side is broken, widen the search on the real code
    lean_ok = lean["built"] and lean["driver_built"] and not lean["problems"]
    if not lean_ok and not a.replay and hasattr(corr, "gen_cases"):
        rng2 = random.Random(seed * 7919 + 5)
        cases.extend(corr.gen_cases("thorough" if getattr(corr, "WIDEN_ON_BREAK", True) else tier, rng2))

    # ---- real code
    reals = []
    for c in cases:
        try:
            reals.append(corr.run_real(c))
        except Exception as e:  # harness bug: run_real must canonicalise errors itself
            traceback.print_exc()
            log("HARNESS-ERROR: run_real raised on case", json.dumps(c, default=str)[:500])
            return 2

    # ---- model
    lines = [corr.to_line(c) for c in cases]
    models = None
    if lean["driver_built"]:
        idx = [i for i, l in enumerate(lines) if l is not None]
        outs = run_driver(prop, [lines[i] for i in idx])
        if outs is not None:
            models = [None] * len(cases)
            for i, o in zip(idx, outs):
                models[i] = o
            bad = [i for i in idx if models[i] == "bad-op"]
            if bad:
                log("HARNESS-ERROR: driver answered bad-op for", lines[bad[0]])
                return 2
    cmp = getattr(corr, "compare", lambda r, m: r == m)
    disagreements = []
    if models is not None:
        for i, c in enumerate(cases):
            if models[i] is not None and not cmp(reals[i], models[i]):
                disagreements.append(i)

    if os.environ.get("VERIF_DEBUG"):
        for i in disagreements[:int(os.environ["VERIF_DEBUG"])]:
            log("DBG-DISAGREE %s\n   real : %s\n   model: %s" % (lines[i], reals[i], models[i]))

    # ---- oracle on every case
    failures = []  # (index, key, msg)
    for i, c in enumerate(cases):
        try:
            for key, msg in corr.oracle(c, reals[i]) or []:
                failures.append((i, key, msg))
        except Exception:
            traceback.print_exc()
            log("HARNESS-ERROR: oracle raised on case", json.dumps(c, default=str)[:500])
            return 2

    known = load_known(prop)
    exit_code = 0
    violations = 0
    seen_known = {}
    new_by_key = {}
    for i, key, msg in failures:
        if key in known:
            seen_known.setdefault(key, (i, msg))
        else:
            new_by_key.setdefault(key, (i, msg))
    for key, (i, msg) in sorted(seen_known.items()):
        log("KNOWN-FINDING: property=%s %s [%s] e.g. %s" % (prop, known[key]["what"], key, lines[i] or json.dumps(cases[i], default=str)[:200]))

    for key, (i, msg) in sorted(new_by_key.items())[:3]:
        case = cases[i]
        # shrink
        if hasattr(corr, "shrink"):
            case = shrink(corr, case, key)
        real = corr.run_real(case)
        try:
            msg = next((m for k2, m in (corr.oracle(case, real) or []) if k2 == key), msg)   # message of the shrunk case
        except Exception:
            pass
        payload = {"property": prop, "kind": "failing-input", "key": key, "message": msg, "case": case,
                   "line": corr.to_line(case), "real": real,
                   "model": (run_driver(prop, [corr.to_line(case)]) or [None])[0] if lean["driver_built"] and corr.to_line(case) else None,
                   "rerun": "./check %s --replay <this file>" % prop}
        path = write_replay(prop, payload)
        log("VIOLATION property=%s replay=%s" % (prop, path))
        log("  failing input [%s]: %s" % (key, msg))
        violations += 1
        exit_code = 1

    if not new_by_key and (disagreements or not lean_ok):
        first = disagreements[0] if disagreements else None
        payload = {"property": prop, "kind": "unproved", "lean_problems": [{k: v for k, v in p.items()} for p in lean["problems"]],
                   "n_disagreements": len(disagreements),
                   "correspondence_stream": prop,
                   "cases": [cases[first]] if first is not None else [],
                   "first_disagreement": None if first is None else {"line": lines[first], "real": reals[first], "model": models[first]},
                   "note": "model/proof no longer matches the code and no concrete input violating the property was found on the real code",
                   "rerun": "./check %s --replay <this file>" % prop}
        path = write_replay(prop, payload)
        if first is not None:
            log("DISAGREEMENT (first of %d): %s\n   real : %s\n   model: %s" % (len(disagreements), lines[first], reals[first], models[first]))
        log("VIOLATION property=%s replay=%s no-failing-input-found" % (prop, path))
        violations += 1
        exit_code = 1
    elif disagreements:
        first = disagreements[0]
        log("DISAGREEMENT (first of %d): %s\n   real : %s\n   model: %s" % (len(disagreements), lines[first], reals[first], models[first]))

    if a.replay:
        for i, c in enumerate(cases):
            log("replay case:", lines[i])
            log("   real :", reals[i])
            log("   model:", None if models is None else models[i])
            log("   oracle:", [(k, m) for (j, k, m) in failures if j == i])
        return exit_code

    # ---- evidence
    distinct = set()
    hist = {}
    for i, c in enumerate(cases):
        try:
            nt = corr.nontrivial(c, reals[i])
        except Exception:
            nt = False
        if nt:
            distinct.add(lines[i] if lines[i] is not None else case_hash(c))
        for f in (corr.features(c, reals[i]) if hasattr(corr, "features") else []):
            hist[f] = hist.get(f, 0) + 1
    k = max(1, len(cases) // 6)
    def _clip(x, n=2000):
        return x if not isinstance(x, str) or len(x) <= n else x[:n] + "...[%d chars]" % len(x)
    samples = [{"line": _clip(lines[i]), "real": reals[i][:400] if isinstance(reals[i], str) else reals[i],
                "model": None if models is None else (models[i][:400] if isinstance(models[i], str) else models[i])}
               for i in range(0, len(cases), k)][:8]
    ev = {
        "property_id": prop, "tier": tier, "seed": seed, "level": "proof",
        "coverage": {
            "obligations": lean["obligations"], "discharged": lean["discharged"],
            "checker_cmd": "lake build %s && lake env lean <generated #print axioms file>%s" % (corr.LEAN_MODULE, " && lake env leanchecker" if tier == "thorough" else ""),
            "trusted_base": list(getattr(corr, "TRUSTED", [])) + [
                "Lean 4.33 kernel", "axioms: propext, Classical.choice, Quot.sound (audited per theorem this run)",
                "harness/skcompat.py (legacy pandas/numpy/sklearn API emulation)", "harness/runner.py + corr/%s.py (correspondence + oracle)" % prop],
            "theorems": lean["axioms"],
            "evaluations": len(cases), "distinct_nontrivial": len(distinct),
            "rule": getattr(corr, "RULE", "cases are distinct by canonical driver line; non-trivial = real code returned a non-error, non-empty result"),
            "samples": samples,
            "exhaustive": bool(getattr(corr, "is_exhaustive", lambda t: False)(tier)),
            "histogram": dict(sorted(hist.items())),
            "disagreements": len(disagreements),
            "oracle_failures": len(failures), "known_findings_seen": sorted(seen_known),
            "corpus_cases": ncorpus,
            "traces_validated_against_impl": 0 if models is None else len([m for m in models if m is not None]),
        },
        "assumptions": list(getattr(corr, "ASSUMPTIONS", [])),
        "wall_s": round(time.time() - t0, 2), "violations": violations,
    }
    os.makedirs(os.path.join(VERIF, "evidence"), exist_ok=True)
    with open(os.path.join(VERIF, "evidence", prop + ".json"), "w") as fh:
        json.dump(ev, fh, indent=1, default=str)
    log("%s %s: %d cases, %d distinct non-trivial, %d disagreements, %d oracle failures (%d known keys), obligations %d/%d, %.1fs" % (
        prop, tier, len(cases), len(distinct), len(disagreements), len(failures), len(seen_known), lean["discharged"], lean["obligations"], time.time() - t0))
    return exit_code


def shrink(corr, case, key, budget=300):
    cur = case
    improved = True
    n = 0
    while improved and n < budget:
        improved = False
        for cand in corr.shrink(cur):
            n += 1
            if n >= budget:
                break
            try:
                out = corr.run_real(cand)
                fs = corr.oracle(cand, out) or []
            except Exception:
                continue
            if any(k == key for k, _ in fs):
                cur = cand
                improved = True
                break
    return cur


if __name__ == "__main__":
    try:
        sys.exit(main())
    except subprocess.TimeoutExpired:
        log("HARNESS-ERROR: timeout")
        sys.exit(2)
