"""Canonicalisation helpers shared by corr modules (same conventions as Drv/Parse.lean)."""
from fractions import Fraction
import math

ERR_NAMES = {"TypeError": "E:type", "ValueError": "E:value", "IndexError": "E:index", "KeyError": "E:key",
             "NotImplementedError": "E:notimpl", "NotFittedError": "E:notfitted", "AttributeError": "E:attr",
             "AssertionError": "E:assert", "ZeroDivisionError": "E:zerodiv"}


def canon_err(e):
    """canonical error token; subclasses map to their first known base (e.g. sklearn's
    InvalidParameterError(ValueError, TypeError) -> E:value, NotFittedError stays itself)"""
    for k in type(e).__mro__:
        if k.__name__ in ERR_NAMES:
            return ERR_NAMES[k.__name__]
    return "E:other:" + type(e).__name__


def show_ints(l):
    l = list(l)
    return "-" if not l else ",".join(str(int(v)) for v in l)


def show_bool(b):
    return "T" if b else "F"


def show_rat(q):
    """exact rational of a Python number (float -> exact dyadic)"""
    if q is None:
        return "nan"
    if isinstance(q, float):
        if math.isnan(q):
            return "nan"
        if math.isinf(q):
            return "inf" if q > 0 else "-inf"
    f = Fraction(q)
    return str(f.numerator) if f.denominator == 1 else "%d/%d" % (f.numerator, f.denominator)


def show_rats(l):
    l = list(l)
    return "-" if not l else ",".join(show_rat(v) for v in l)


def parse_rat(s):
    if s == "nan":
        return None
    return Fraction(s)


def parse_rats(s):
    return [] if s == "-" else [parse_rat(x) for x in s.split(",")]


def parse_ints(s):
    return [] if s == "-" else [int(x) for x in s.split(",")]


def close(py, exact, tol=1e-9):
    """float from Python vs exact rational from Lean"""
    if exact is None or py is None:
        return exact is None and (py is None or (isinstance(py, float) and math.isnan(py)))
    if isinstance(py, float) and math.isnan(py):
        return False
    e = float(exact)
    return abs(float(py) - e) <= tol * max(1.0, abs(e))


def dyadic(rng, lo=-64, hi=64, den_pow=3):
    """random dyadic rational exactly representable as float"""
    d = 1 << rng.randrange(0, den_pow + 1)
    return rng.randrange(lo * d, hi * d + 1) / d


import re as _re
_NUM = _re.compile(r"^-?\d+(/\d+)?$")
_SPLIT = _re.compile(r"([,:/|\[\]{}; =])")


def fuzzy_equal(real, model, tol=1e-9):
    """token-wise comparison of two canonical lines: integers / rationals are compared numerically
    with relative tolerance (real side may carry float rounding), everything else exactly.
    '/' is NOT split when it is part of a rational n/d."""
    if real == model:
        return True
    ra = _tok(real); mo = _tok(model)
    if len(ra) != len(mo):
        return False
    for a, b in zip(ra, mo):
        if a == b:
            continue
        if _NUM.match(a) and _NUM.match(b):
            fa, fb = Fraction(a), Fraction(b)
            if abs(float(fa) - float(fb)) <= tol * max(1.0, abs(float(fb))):
                continue
        return False
    return True


def _tok(s):
    # split on delimiters except '/' between digits (rationals)
    out, cur = [], ""
    for i, ch in enumerate(s):
        if ch in ",:|[]{}; =~" or (ch == "/" and not (i > 0 and s[i - 1].isdigit() and i + 1 < len(s) and s[i + 1].isdigit())):
            if cur:
                out.append(cur); cur = ""
            out.append(ch)
        else:
            cur += ch
    if cur:
        out.append(cur)
    return out
