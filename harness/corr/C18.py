"""C18 correspondence + oracle: time-series files (sktime/utils/data_io.py, sktime/datasets/base.py).

Case kinds (field "k"):
  rt    write_dataframe_to_tsfile(X, tmp, ...) then load_from_tsfile_to_dataframe(written file)
        {"X": [[float]], "ints": bool, "name", "ts", "uni", "eq", "sl", "comment", "cl", "vals", "vals_nd", "na",
         "idx": row labels of the frame handed to the writer (None = default RangeIndex; permuted / offset / duplicated / strings),
         "vals_as": container of the class values (list | nd | tuple | series | series_idx with its own index "vidx")}
  ts / arff / tsv   one parser on a text ("text": str) or on a bundled file ("path": relative to datasets/data)
  fmt   one dataset in .ts / .arff / .tsv through the three real parsers: bundled ("ds") or rendered by the
        harness from a generated panel ("gen": {"X": [[[tok]]] dims x instances x tokens, "y": [str], "style"})
  load  _load_dataset(name, split, return_X_y) for split in (train, test, None) and both forms: bundled ("ds") or a
        generated data set written to a temporary extract_path ("gen": {"train": {...}, "test": {...}})

  hist  a HISTORY of loader calls on one data set in one process: {"ds"| "gen", "calls": [[split, return_X_y, mutation|None], ...]}
        (oracle only; the model's loader is a pure function, so it has no history to compare)

  count the number of cases (and the series lengths) a bundled loader returns against an INDEPENDENT count of the data lines of the
        file (non-blank lines after @data; values = commas + 1 in the first dimension): {"ds"} (oracle only)
  "nomodel": true on an rt / fmt case = too large for the interpreted driver in this tier: oracle only (instances, order, values
        against the panel that was written / rendered); the theorems have no size parameter

Strings travel percent-encoded (same convention as lean/SkVerif/Drv/C18.lean).
Result of a loader:  ok!<ndims>!<N | L labels>!<dims '|' instances ';' values ','>  or  E:<kind>.
"""
import os, re, math, shutil, tempfile, itertools, json
from fractions import Fraction
import numpy as np, pandas as pd
from common import canon_err

PROP = "C18"
LEAN_MODULE = "SkVerif.Props.C18"
OBLIGATIONS = [
    "SkVerif.C18.parse_write_roundtrip",
    "SkVerif.C18.parse_write_roundtrip_labelled",
    "SkVerif.C18.parse_write_roundtrip_nolabels",
    "SkVerif.C18.roundtrip_preserves_instances_and_lengths",
    "SkVerif.C18.label_with_question_mark_is_rewritten",
    "SkVerif.C18.float_tokens_denote_decimal_values",
    "SkVerif.C18.roundtrip_concrete_values",
    "SkVerif.C18.all_formats_parse_to_same_panel",
    "SkVerif.C18.parser_rejects_empty_file",
    "SkVerif.C18.parser_rejects_missing_classlabel_tag",
    "SkVerif.C18.parser_rejects_missing_problemname_tag",
    "SkVerif.C18.parser_rejects_missing_timestamps_tag",
    "SkVerif.C18.parser_rejects_missing_univariate_tag",
    "SkVerif.C18.parser_rejects_missing_data_tag",
    "SkVerif.C18.parser_rejects_non_numeric_token",
    "SkVerif.C18.parser_rejects_dimension_mismatch",
    "SkVerif.C18.load_none_eq_train_append_test",
]
TRUSTED = [
    "hand-written model SkVerif/Model/TsFile.lean + TsStr.lean of data_io.py (writer, .ts/.arff/.tsv parsers) and of _load_dataset",
    "pandas number formatting (Series.to_string) and textwrap.wrap are DATA for the writer model: the harness calls them and "
    "feeds the tokens / wrapped comment lines; the printed precision is only observed (oracle), not modelled",
    "pd.read_csv (UCR .tsv) is a black box modelled as 'tab separated fields of non blank lines' on rectangular files",
    "Python's float(str) is modelled by an exact decimal-to-rational parser (floatOf); agreement is checked to the last bit "
    "(float(exact rational) == loaded float) for .ts/.arff and to 1e-12 for .tsv",
]
ASSUMPTIONS = [
    "files are ASCII apart from comment lines (str.strip / str.lower are modelled on ASCII: space, \\t, \\n, \\r, \\x0b, \\x0c; A-Z)",
    "no timestamps (@timestamps true files are outside the modelled grammar; the writer cannot produce them)",
    "class values contain no ':' , no white space other than inner blanks ('gun draw' is allowed and must come back exactly, "
    "lower-cased), no blank at their ends (the parser strips the text after the last ':'); problem names are non-blank, "
    "without newline and '/'",
    "decimal exponents within double range (no overflow to inf)",
]
RULE = ("rt: row index of the written panel (default, permuted, reversed, offset, duplicated, all-zero, strings, train+test concatenated, "
        "negative, gaps) x container of the class values (list, ndarray, tuple, Series, Series with its own index) with pairwise distinct labels, "
        "fixed order, all combinations in both tiers; labels are paired with instances by position. fixed-order grid of writer options (labels present/absent, comment none/short/wrapping, equalLength/seriesLength, names) x "
        "small panels (quick: seed-rotated slice, thorough: all) + random panels over magnitudes 1e-8..1e12, mixed magnitudes, ints, "
        "1..12 instances, length 1..60 + off-domain options (univariate=False, timestamp=True, mismatching label counts). "
        "files: every bundled dataset in every format (quick: small ones + seed-rotated large), harness-rendered three-format data sets, "
        "SIZE: large panels through the real writer/loader (files > 1 MiB and > 4 MiB, two in quick, more in thorough) and a large multi-dimensional "
        "file through the .ts/.arff parsers, checked against what was written (oracle only where the driver would be slow); the number of cases "
        "and series lengths of EVERY bundled problem against an independent count of the file's data lines in every run; "
        "every bundled problem through its loader in thorough and the 12-dimensional one (JapaneseVowels) in quick too, split=None compared with "
        "train+test by position AND by column name/order; generated TRAIN/TEST pairs with 1..13 dimensions through _load_dataset, loader call HISTORIES (all ordered pairs of the six split x form calls on the "
        "small set, random sequences of 2-8 calls with user mutations of returned objects on bundled and generated sets; oracle only), "
        "malformed .ts/.arff/.tsv stream, corpus. distinct by driver line; "
        "non-trivial = the real loader returned a non-empty panel")
LEVEL_TEXT = ("proof for the model: parse(write(panel, labels, options)) returns the panel's instances, lengths, order, the values the "
              "printed tokens denote and the case/space-normalised labels, for every univariate panel, label list and writer option; "
              "the model is tied to data_io.py / datasets/base.py by a differential correspondence check")
LEVEL_NOTE = ("printed precision (pandas formatting), read_csv, the arff multivariate branch and the bundled loaders are observed "
              "by correspondence/oracle only; class values containing '?' are rewritten on load (known finding, excluded by hypothesis)")
TECHNIQUE = "Lean 4 model + theorems by induction on text; differential correspondence on generated and bundled files"

DATA = None


def _data_dir():
    global DATA
    if DATA is None:
        import sktime.datasets.base as b
        DATA = os.path.join(os.path.dirname(b.__file__), "data")
    return DATA


# ----------------------------------------------------------------------------- encoding
_PLAIN = set(chr(i) for i in range(33, 127)) - set("%,;|~!")


def enc(s):
    if s == "":
        return "~"
    return "".join(c if c in _PLAIN else ("%%%02x" % ord(c) if ord(c) < 256 else "%%u%06x" % ord(c)) for c in s)


def dec(s):
    if s == "~":
        return ""
    return re.sub(r"%u([0-9a-fA-F]{6})|%([0-9a-fA-F]{2})", lambda m: chr(int(m.group(1) or m.group(2), 16)), s)


def enc_list(l):
    return "~~" if not l else ",".join(enc(x) for x in l)


def enc_panel(p):
    return "~~" if not p else ";".join(enc_list(s) for s in p)


def show_bool(b):
    return "T" if b else "F"


# ----------------------------------------------------------------------------- canonical results
def _num(v):
    if isinstance(v, (int, np.integer)) and not isinstance(v, (bool, np.bool_)):
        return str(int(v))
    v = float(v)
    if math.isnan(v):
        return "nan"
    if math.isinf(v):
        return "inf" if v > 0 else "-inf"
    return repr(v)


def _series(s):
    vals = list(s.values) if hasattr(s, "values") else list(s)
    return "~" if not vals else ",".join(_num(v) for v in vals)


def canon_panel(X, y, label_cols=("class_vals", "class_val")):
    cols = [c for c in X.columns if c not in label_cols]
    dims = []
    for c in cols:
        col = list(X[c])
        dims.append("~~" if not col else ";".join(_series(s) for s in col))
    lab = "N" if y is None else "L" + enc_list([str(v) for v in list(y)])
    return "ok!%d!%s!%s" % (len(cols), lab, "|".join(dims))


def parse_result(r):
    """-> None for an error, else (ndims, labels|None, dims[instances[values(str)]])"""
    if not r.startswith("ok!"):
        return None
    _, nd, lab, X = r.split("!", 3)
    labels = None if lab == "N" else ([] if lab[1:] == "~~" else [dec(x) for x in lab[1:].split(",")])
    dims = []
    if int(nd) > 0:
        for d in X.split("|"):
            dims.append([] if d == "~~" else [[] if s == "~" else s.split(",") for s in d.split(";")])
    return int(nd), labels, dims


def _val(tok):
    """value token (python repr / exact rational / nan / inf) -> float"""
    if "/" in tok:
        n, d = tok.split("/")
        return int(n) / int(d)
    return float(tok)


def _same_value(a, b, tol):
    if a == b:
        return True
    x, y = _val(a), _val(b)
    if math.isnan(x) or math.isnan(y):
        return math.isnan(x) and math.isnan(y)
    if x == y:
        return True
    return tol > 0 and abs(x - y) <= tol * max(1.0, abs(y))


def same_result(real, model, tol=0.0):
    if real == model:
        return True
    a, b = parse_result(real), parse_result(model)
    if a is None or b is None:
        return False
    if a[0] != b[0] or a[1] != b[1] or len(a[2]) != len(b[2]):
        return False
    for da, db in zip(a[2], b[2]):
        if len(da) != len(db):
            return False
        for sa, sb in zip(da, db):
            if len(sa) != len(sb):
                return False
            for va, vb in zip(sa, sb):
                if not _same_value(va, vb, tol):
                    return False
    return True


def _kv(out):
    d = {}
    for tok in out.split(" "):
        if "=" in tok:
            k, v = tok.split("=", 1)
            d[k] = v
    return d


def compare(real, model):
    if real == model:
        return True
    a, b = _kv(real), _kv(model)
    for k in b:
        if k not in a:
            return False
    for k, v in a.items():
        if k in ("forms", "idx", "cols", "sz"):        # observed on the real side only (oracle)
            continue
        if k not in b:
            return False
        if k == "w":
            # the exact text is not an observable of the property; only a write error must agree
            if v.startswith("E:") != b[k].startswith("E:") or (v.startswith("E:") and v != b[k]):
                return False
        elif not same_result(v, b[k], 1e-12 if k == "tsv" else 0.0):
            return False
    return True


# ----------------------------------------------------------------------------- real code
class _Tmp:
    def __enter__(self):
        self.d = tempfile.mkdtemp(prefix="c18-")
        return self.d

    def __exit__(self, *a):
        shutil.rmtree(self.d, ignore_errors=True)


def _try(f):
    try:
        return f()
    except Exception as e:
        return canon_err(e)


def _load_ts(path):
    from sktime.utils.data_io import load_from_tsfile_to_dataframe
    r = load_from_tsfile_to_dataframe(path)
    if isinstance(r, tuple):
        return canon_panel(r[0], r[1])
    return canon_panel(r, None)


def _load_arff(path, has_labels=True):
    from sktime.utils.data_io import load_from_arff_to_dataframe
    r = load_from_arff_to_dataframe(path, has_class_labels=has_labels)
    if isinstance(r, tuple):
        return canon_panel(r[0], r[1])
    return canon_panel(r, None)


def _load_tsv(path):
    from sktime.utils.data_io import load_from_ucr_tsv_to_dataframe
    X, y = load_from_ucr_tsv_to_dataframe(path)
    return canon_panel(X, y)


def _frame(c):
    X = c["X"]
    if c.get("ints"):
        col = [pd.Series([int(v) for v in s], dtype="int64") for s in X]
    else:
        col = [pd.Series([float(v) for v in s], dtype="float64") for s in X]
    df = pd.DataFrame({"dim_0": col})
    if c.get("extra_dim"):
        df["dim_1"] = [pd.Series([0.5, 0.25]) for _ in X]
    if c.get("idx") is not None:
        df.index = pd.Index(c["idx"])
    return df


def _class_values(c):
    """the class values in the container the case asks for (pairing with instances is by POSITION in all of them)"""
    vals = c.get("vals")
    if vals is None:
        return None
    how = c.get("vals_as") or ("nd" if c.get("vals_nd") else "list")
    if how == "nd":
        return np.array(vals)
    if how == "tuple":
        return tuple(vals)
    if how == "series":
        return pd.Series(vals)
    if how == "series_idx":
        return pd.Series(vals, index=pd.Index(c["vidx"]))
    return list(vals)


def tokens_of(c):
    """what pandas prints for each series (the writer's number formatting is data for the model)"""
    df = _frame(c)
    na = c.get("na", "NaN")
    return [df.iloc[i, 0].to_string(index=False, header=False, na_rep=na).split("\n") for i in range(len(df))]


def comment_lines(c):
    import textwrap
    return textwrap.wrap("# " + c["comment"]) if c.get("comment") else []


def _text_of(c):
    if "path" in c:
        with open(os.path.join(_data_dir(), c["path"]), "r", encoding="utf-8") as f:
            return f.read()
    return c["text"]


def _write_tmp(d, name, text):
    p = os.path.join(d, name)
    with open(p, "w", encoding="utf-8", newline="") as f:
        f.write(text)
    return p


_RT_MEMO = {}


def _rt_obs(c):
    """run the real writer and loader once per case: (write error | None, text, p)"""
    key = json.dumps(c, sort_keys=True, default=str)
    if key in _RT_MEMO:
        return _RT_MEMO[key]
    from sktime.utils.data_io import write_dataframe_to_tsfile
    df = _frame(c)
    vals = _class_values(c)
    kw = dict(problem_name=c["name"], timestamp=c["ts"], univariate=c["uni"], class_label=c.get("cl"),
              class_value_list=vals, equal_length=c["eq"], series_length=c["sl"], comment=c.get("comment"))
    if "na" in c:
        kw["missing_values"] = c["na"]
    with _Tmp() as d:
        try:
            write_dataframe_to_tsfile(df, d, **kw)
        except Exception as e:
            r = (canon_err(e), None, "-")
            _RT_MEMO[key] = r
            return r
        path = os.path.join(d, c["name"], c["name"] + "_transform.ts")
        with open(path, "r", encoding="utf-8") as f:
            text = f.read()
        r = (None, text, _try(lambda: _load_ts(path)))
    if len(_RT_MEMO) > 20000:
        _RT_MEMO.clear()
    _RT_MEMO[key] = r
    return r


def _rt(c):
    err, text, p = _rt_obs(c)
    if err is not None:
        return "w=%s p=- pr=- sz=0" % err
    # w (the exact text) is reported but not compared: the property speaks about what is loaded back
    return "w=%s p=%s pr=%s sz=%d" % ("large" if c.get("nomodel") else enc(text), p, p, len(text))


def _render_ts(g, name="gen"):
    lines = ["#generated", "@problemName " + name, "@timeStamps false", "@missing false",
             "@univariate " + ("true" if len(g["X"]) == 1 else "false"), "@equalLength true",
             "@classLabel true " + " ".join(sorted(set(g["y"]))), "@data"]
    n = len(g["y"])
    for i in range(n):
        lines.append(":".join(",".join(g["X"][d][i]) for d in range(len(g["X"]))) + ":" + g["y"][i])
    return "\n".join(lines) + "\n"


def _render_arff(g, name="gen"):
    nd, n = len(g["X"]), len(g["y"])
    lines = ["%generated", "@relation " + name]
    if nd == 1:
        lines += ["@attribute att%d numeric" % j for j in range(len(g["X"][0][0]) if n else 0)]
        lines += ["@attribute target {" + ",".join(sorted(set(g["y"]))) + "}", "", "@data"]
        for i in range(n):
            lines.append(",".join(g["X"][0][i]) + "," + g["y"][i])
    else:
        lines += ["@attribute relationalAtt relational"]
        lines += ["@attribute att%d numeric" % j for j in range(len(g["X"][0][0]) if n else 0)]
        lines += ["@end relationalAtt", "@attribute activity {" + ",".join(sorted(set(g["y"]))) + "}", "@data"]
        for i in range(n):
            lines.append("'" + "\\n".join(",".join(g["X"][d][i]) for d in range(nd)) + "'," + g["y"][i])
    return "\n".join(lines) + "\n"


def _render_tsv(g):
    if len(g["X"]) != 1:
        return None
    return "".join(g["y"][i] + "\t" + "\t".join(g["X"][0][i]) + "\n" for i in range(len(g["y"])))


def _fmt_texts(c):
    if "ds" in c:
        ds = c["ds"]
        t = _text_of({"path": "%s/%s_TRAIN.ts" % (ds, ds)})
        a = _text_of({"path": "%s/%s_TRAIN.arff" % (ds, ds)})
        p = os.path.join(_data_dir(), ds, ds + "_TRAIN.tsv")
        v = _text_of({"path": "%s/%s_TRAIN.tsv" % (ds, ds)}) if os.path.exists(p) else None
        return t, a, v
    g = c["gen"]
    return _render_ts(g), _render_arff(g), _render_tsv(g)


def _fmt(c):
    t, a, v = _fmt_texts(c)
    with _Tmp() as d:
        pt, pa = _write_tmp(d, "x_TRAIN.ts", t), _write_tmp(d, "x_TRAIN.arff", a)
        out = "ts=%s arff=%s" % (_try(lambda: _load_ts(pt)), _try(lambda: _load_arff(pa)))
        if v is None:
            return out + " tsv=-"
        pv = _write_tmp(d, "x_TRAIN.tsv", v)
        return out + " tsv=" + _try(lambda: _load_tsv(pv))


LOADERS = {"GunPoint": "load_gunpoint", "OSULeaf": "load_osuleaf", "ItalyPowerDemand": "load_italy_power_demand",
           "JapaneseVowels": "load_japanese_vowels", "ArrowHead": "load_arrow_head", "ACSF1": "load_acsf1",
           "BasicMotions": "load_basic_motions"}


def _load_texts(c):
    if "ds" in c:
        ds = c["ds"]
        return _text_of({"path": "%s/%s_TRAIN.ts" % (ds, ds)}), _text_of({"path": "%s/%s_TEST.ts" % (ds, ds)})
    return _render_ts(c["gen"]["train"]), _render_ts(c["gen"]["test"])


def _load(c):
    base = _fresh_modules()
    with _Tmp() as d:
        if "ds" in c:
            ds = c["ds"]
            if ds in LOADERS:
                f = getattr(base, LOADERS[ds])
                call = lambda split, rxy: f(split=split, return_X_y=rxy)
            else:
                call = lambda split, rxy: base.load_UCR_UEA_dataset(ds, split=split, return_X_y=rxy)
        else:
            name = "GenSet"
            os.makedirs(os.path.join(d, name))
            tr, te = _load_texts(c)
            _write_tmp(os.path.join(d, name), name + "_TRAIN.ts", tr)
            _write_tmp(os.path.join(d, name), name + "_TEST.ts", te)
            call = lambda split, rxy: base.load_UCR_UEA_dataset(name, split=split, return_X_y=rxy, extract_path=d)
        parts, forms, idx, colnames = [], [], [], []
        for key, split in (("train", "train"), ("test", "test"), ("none", None)):
            try:
                X, y = call(split, True)
                r = canon_panel(X, y)
                idx.append("c" if list(X.index) == list(range(len(X))) else "r")
                colnames.append("+".join(enc(str(c_)) for c_ in X.columns))
            except Exception as e:
                r = canon_err(e)
                idx.append("e")
                colnames.append("E")
            parts.append("%s=%s" % (key, r))
            try:
                fr = call(split, False)
                lab = [c_ for c_ in fr.columns if c_ in ("class_val", "class_vals")]
                fr_r = canon_panel(fr, list(fr[lab[0]]) if lab else None)
                # the frame is X plus exactly one label column; X itself carries no label column
                if [str(c_) for c_ in fr.columns] != [str(c_) for c_ in X.columns] + ["class_val"] or \
                        any(c_ in ("class_val", "class_vals") for c_ in X.columns):
                    fr_r += "!cols"
            except Exception as e:
                fr_r = canon_err(e)
            forms.append("T" if fr_r == r else "F")
        return " ".join(parts) + " forms=" + "".join(forms) + " idx=" + "".join(idx) + " cols=" + "/".join(colnames)



# ----------------------------------------------------------------------------- loader call histories
LABEL_COLS = ("class_val", "class_vals")


def _cell(v):
    if isinstance(v, pd.Series):
        return _series(v)
    return "obj:" + enc(str(v))


def _digest(parts):
    import hashlib
    return hashlib.sha1("\x00".join(parts).encode("utf-8", "replace")).hexdigest()[:16]


def _dx(X, cols):
    return _digest(["|".join(_cell(v) for v in list(X[c])) for c in cols])


def _dy(y):
    return _digest([str(v) for v in list(y)])


def _obs_call(res, rxy):
    """(cols, nrows, digest of the data columns, digest of the labels, digest of the whole object)"""
    if rxy:
        X, y = res
        cols = [str(c) for c in X.columns]
        return cols, len(X), _dx(X, list(X.columns)), _dy(y), _digest([_dx(X, list(X.columns)), _dy(y), ",".join(cols), repr(list(X.index))])
    fr = res
    cols = [str(c) for c in fr.columns]
    lab = [c for c in fr.columns if c in LABEL_COLS]
    data = [c for c in fr.columns if c not in LABEL_COLS]
    dy = _dy(fr[lab[-1]]) if lab else "-"
    return cols, len(fr), _dx(fr, data), dy, _digest([_dx(fr, list(fr.columns)), ",".join(cols), repr(list(fr.index))])


def _mutate(res, rxy, kind):
    """what a user may do to the object a loader returned"""
    X = res[0] if rxy else res
    if kind == "addcol":
        X["junk"] = 0
    elif kind == "cell":
        X.iloc[0, 0].iloc[0] = 12345.678            # the nested series object itself
    elif kind == "setcell":
        X.iat[0, 0] = pd.Series([9.0, 9.0])
    elif kind == "droprow":
        X.drop(X.index[0], inplace=True)
    elif kind == "labels":
        if rxy:
            y = res[1]
            if isinstance(y, np.ndarray):
                y[0] = "zz"
            else:
                y.iloc[0] = "zz"
        elif any(c in LABEL_COLS for c in X.columns):
            X.iloc[0, list(X.columns).index([c for c in X.columns if c in LABEL_COLS][0])] = "zz"
    elif kind == "rename":
        X.rename(columns={X.columns[0]: "renamed"}, inplace=True)


def _fresh_modules():
    """every history starts from fresh module state (module-level caches are re-created), so that a failing
    history replays alone and shrinks to the calls that matter"""
    import importlib
    import sktime.utils.data_io as dio
    import sktime.datasets.base as base
    importlib.reload(dio)
    return importlib.reload(base)


def _hist(c):
    base = _fresh_modules()
    from sktime.utils.data_io import load_from_tsfile_to_dataframe
    with _Tmp() as d:
        if "ds" in c:
            ds = c["ds"]
            if ds in LOADERS:
                f = getattr(base, LOADERS[ds])
                call = lambda split, rxy: f(split=split, return_X_y=rxy)
            else:
                call = lambda split, rxy: base.load_UCR_UEA_dataset(ds, split=split, return_X_y=rxy)
            ptr = os.path.join(_data_dir(), ds, ds + "_TRAIN.ts")
            pte = os.path.join(_data_dir(), ds, ds + "_TEST.ts")
        else:
            name = "GenSet"
            os.makedirs(os.path.join(d, name))
            tr, te = _load_texts(c)
            ptr = _write_tmp(os.path.join(d, name), name + "_TRAIN.ts", tr)
            pte = _write_tmp(os.path.join(d, name), name + "_TEST.ts", te)
            call = lambda split, rxy: base.load_UCR_UEA_dataset(name, split=split, return_X_y=rxy, extract_path=d)
        # reference = what each call returns in a fresh state: the two files parsed directly, train followed by test
        try:
            Xtr, ytr = load_from_tsfile_to_dataframe(ptr)
            Xte, yte = load_from_tsfile_to_dataframe(pte)
            cols = list(Xtr.columns)
            Xno = pd.DataFrame({c_: list(Xtr[c_]) + list(Xte[c_]) for c_ in cols})
            ref = {"train": (_dx(Xtr, cols), _dy(ytr), len(Xtr)), "test": (_dx(Xte, cols), _dy(yte), len(Xte)),
                   "none": (_dx(Xno, cols), _dy(list(ytr) + list(yte)), len(Xno))}
            refcols = "+".join(enc(str(c_)) for c_ in cols)
        except Exception as e:
            return "ref=" + canon_err(e)
        held, recs = [], []
        for i, (split, rxy, mut) in enumerate(c["calls"]):
            try:
                res = call(split, rxy)
                if mut:
                    _mutate(res, rxy, mut)
                cols_i, n, dx, dy, whole = _obs_call(res, rxy)
                if mut:      # the observation of a mutated object is only used as its snapshot
                    recs.append([i, split or "none", show_bool(rxy), mut, "-", "-", "-", "-"])
                else:
                    recs.append([i, split or "none", show_bool(rxy), "-", "+".join(enc(x) for x in cols_i), str(n), dx, dy])
                held.append((res, rxy, whole))
            except Exception as e:
                recs.append([i, split or "none", show_bool(rxy), mut or "-", canon_err(e), "-", "-", "-"])
                held.append(None)
        kept = []
        for h in held:
            if h is None:
                kept.append("e")
            else:
                try:
                    kept.append("T" if _obs_call(h[0], h[1])[4] == h[2] else "F")
                except Exception:
                    kept.append("F")
        return "refcols=%s ref=%s calls=%s kept=%s" % (
            refcols, ";".join("%s:%s:%s:%d" % (k_, v[0], v[1], v[2]) for k_, v in ref.items()),
            ";".join("!".join(str(x) for x in r) for r in recs), "".join(kept))


def _hist_oracle(c, out):
    d = _kv(out)
    who = c.get("ds", "generated set")
    if d.get("ref", "E:").startswith("E:") or "calls" not in d:
        return [("loader-history:reference-load-failed", "the TRAIN/TEST files of %s do not load directly: %s" % (who, d.get("ref")))]
    ref = {}
    for part in d["ref"].split(";"):
        k_, dx, dy, n = part.split(":")
        ref[k_] = (dx, dy, n)
    refcols = d["refcols"].split("+")
    fails = []
    recs = [r.split("!") for r in d["calls"].split(";")]
    calls = c["calls"]
    mutated_before = False
    seen = {}
    for r in recs:
        i, split, rxy, mut, cols, n, dx, dy = r
        i = int(i)
        desc = "call %d (split=%s, return_X_y=%s) of history %s on %s" % (i, split, rxy == "T", [[s_, x_, m_] for s_, x_, m_ in calls[:i + 1]], who)
        if cols.startswith("E:"):
            fails.append(("loader-history:call-raised", desc + " raised " + cols))
            break
        if mut != "-":
            mutated_before = True
            continue
        cl = cols.split("+")
        want_cols = refcols if rxy == "T" else refcols + ["class_val"]
        bad = (cl != want_cols) or (dx, dy, n) != ref[split]
        if bad:
            key = "loader-history:differs-from-fresh-call:after-user-mutation" if mutated_before else "loader-history:differs-from-fresh-call"
            fails.append((key, desc + ": columns %s rows %s; a fresh call gives columns %s rows %s%s" % (
                [dec(x) for x in cl], n, [dec(x) for x in want_cols], ref[split][2],
                "" if (dx, dy) == ref[split][:2] or cl != want_cols else " (values or labels differ)")))
            break
        # (iv) every pair of calls of the same split agrees (either form)
        if split in seen and seen[split][1:] != (dx, dy):
            fails.append(("loader-history:forms-differ", desc + " disagrees with call %d of the same split" % seen[split][0]))
            break
        seen.setdefault(split, (i, dx, dy))
    kept = d.get("kept", "")
    for i, k_ in enumerate(kept):
        if k_ == "F":
            fails.append(("loader-history:earlier-result-changed",
                          "the object returned by call %d (split=%s, return_X_y=%s) was changed by later loader calls; history %s on %s"
                          % (i, calls[i][0], calls[i][1], [list(x) for x in calls], who)))
            break
    return fails



# ----------------------------------------------------------------------------- cases in the file vs cases loaded
def _file_cases(path):
    """independent of any parser: (number of data lines, number of values in the first dimension of each)"""
    lens, started = [], False
    with open(path, "r", encoding="utf-8") as f:
        for line in f:
            t = line.strip()
            if not started:
                started = t.lower() == "@data"
                continue
            if t:
                first = t.split(":")[0].strip()
                lens.append(first.count(",") + 1 if first else 0)
    return lens


def _count(c):
    base = _fresh_modules()
    ds = c["ds"]
    if ds in LOADERS:
        f = getattr(base, LOADERS[ds])
        call = lambda split: f(split=split, return_X_y=True)
    else:
        call = lambda split: base.load_UCR_UEA_dataset(ds, split=split, return_X_y=True)
    parts = []
    for split in ("train", "test"):
        want = _file_cases(os.path.join(_data_dir(), ds, "%s_%s.ts" % (ds, split.upper())))
        try:
            X, y = call(split)
            got = [len(X.iloc[i, 0]) for i in range(len(X))]
            ny = len(y)
        except Exception as e:
            parts.append("%s=%s" % (split, canon_err(e)))
            continue
        parts.append("%s=%d/%d/%s/%d/%s" % (split, len(got), ny, _digest([str(v) for v in got]), len(want), _digest([str(v) for v in want])))
    try:
        X, y = call(None)
        parts.append("none=%d/%d" % (len(X), len(y)))
    except Exception as e:
        parts.append("none=" + canon_err(e))
    return " ".join(parts)


def _count_oracle(c, out):
    d = _kv(out)
    fails, tot = [], 0
    for split in ("train", "test"):
        v = d.get(split, "E:missing")
        if v.startswith("E:"):
            return [("loader-count:%s-rejected" % split, "split=%s of %s does not load: %s" % (split, c["ds"], v))]
        n, ny, dg, nf, df = v.split("/")
        tot += int(nf)
        if int(n) != int(nf) or int(ny) != int(nf):
            fails.append(("loader-count:cases", "%s %s: the file has %s data lines, the loader returns %s instances and %s labels" % (c["ds"], split, nf, n, ny)))
        elif dg != df:
            fails.append(("loader-count:series-lengths", "%s %s: series lengths loaded differ from the number of values on the data lines" % (c["ds"], split)))
    v = d.get("none", "E:missing")
    if v.startswith("E:"):
        fails.append(("loader-count:none-rejected", "split=None of %s does not load: %s" % (c["ds"], v)))
    elif not fails and [int(x) for x in v.split("/")] != [tot, tot]:
        fails.append(("loader-count:cases", "%s split=None: the two files have %d data lines, the loader returns %s instances/labels" % (c["ds"], tot, v)))
    return fails


def run_real(c):
    k = c["k"]
    if k == "rt":
        return _rt(c)
    if k in ("ts", "arff", "tsv"):
        with _Tmp() as d:
            if "path" in c:
                p = os.path.join(_data_dir(), c["path"])
            else:
                p = _write_tmp(d, "case." + k, c["text"])
            if k == "ts":
                return "ts=" + _try(lambda: _load_ts(p))
            if k == "arff":
                return "arff=" + _try(lambda: _load_arff(p, c.get("hl", True)))
            return "tsv=" + _try(lambda: _load_tsv(p))
    if k == "fmt":
        return _fmt(c)
    if k == "load":
        return _load(c)
    if k == "hist":
        return _hist(c)
    if k == "count":
        return _count(c)
    raise ValueError(k)


# ----------------------------------------------------------------------------- driver lines
_TS_TRUE = re.compile(r"(?im)^\s*@timestamps\s+true\s*$")


def to_line(c):
    k = c["k"]
    if c.get("nomodel") or k == "count":
        return None
    if k == "rt":
        if c["ts"]:
            return None     # @timeStamps true: the loader takes the timestamp branch (not modelled)
        err, text, _ = _rt_obs(c)
        return "C18 rt %s %s %s %s %d %s %s %s %s %s %s" % (
            enc(c["name"]), show_bool(c["ts"]), show_bool(c["uni"]), show_bool(c["eq"]), c["sl"], enc(str(c["sl"])),
            enc_list(comment_lines(c)), enc_list([str(x) for x in (c.get("cl") or [])]),
            enc_list([str(x) for x in (c.get("vals") or [])]), enc_panel(tokens_of(c)),
            "~~" if err is not None else enc(text))
    if k == "ts":
        t = _text_of(c)
        if _TS_TRUE.search(t):
            return None
        return "C18 ts " + enc(t)
    if k == "arff":
        return "C18 arff %s %s" % (show_bool(c.get("hl", True)), enc(_text_of(c)))
    if k == "tsv":
        return "C18 tsv " + enc(_text_of(c))
    if k == "fmt":
        t, a, v = _fmt_texts(c)
        return "C18 fmt %s %s %s" % (enc(t), enc(a), "~~" if v is None else enc(v))
    if k == "load":
        tr, te = _load_texts(c)
        return "C18 load %s %s" % (enc(tr), enc(te))
    if k == "hist":
        return None     # oracle only: the model's loader is a pure function of the two files
    raise ValueError(k)


# ----------------------------------------------------------------------------- oracle (from the property text)
def _decimals(tok):
    """unit of the last printed place of a decimal token, as a power of ten exponent (e.g. '1.50' -> -2)"""
    t = tok.strip().lower()
    if "e" not in t:                      # fast path: plain fixed notation
        u = t.lstrip("+-")
        a, dot, b = u.partition(".")
        if (a + b).isdigit():
            return -len(b)
    m = re.fullmatch(r"[+-]?(\d*)(?:\.(\d*))?(?:e([+-]?\d+))?", t)
    if not m or (not m.group(1) and not m.group(2)):
        return None
    frac = len(m.group(2) or "")
    ex = int(m.group(3) or 0)
    return ex - frac


def in_domain(c):
    """the quantifier of the property: univariate, equal-length panels of finite values, proper label usage"""
    if c["k"] != "rt" or c["ts"] or not c["uni"] or c.get("extra_dim"):
        return False
    X = c["X"]
    if not X or any(len(s) == 0 for s in X) or len(set(len(s) for s in X)) != 1:
        return False
    if any(not math.isfinite(v) for s in X for v in s):
        return False
    if c["eq"] and c["sl"] == -1:
        return False
    name = c["name"]
    if not name.strip() or "\n" in name:
        return False
    cl, vals = c.get("cl") or [], c.get("vals") or []
    if bool(cl) != bool(vals):
        return False
    if vals and len(vals) != len(X):
        return False
    for l in list(cl) + list(vals):
        s = str(l)
        # class values may contain inner blanks ("gun draw"): the writer prints them and the loader returns the text
        # after the last ':' stripped at its ends; other white space, ':' and outer blanks are outside the format
        if not s or s != s.strip() or ":" in s or any(ch.isspace() and ch != " " for ch in s):
            return False
    return True


def oracle(c, out):
    k = c["k"]
    fails = []
    if k == "hist":
        return _hist_oracle(c, out)
    if k == "count":
        return _count_oracle(c, out)
    if k == "rt":
        if not in_domain(c):
            return fails
        d = _kv(out)
        has_labels = bool(c.get("vals"))
        site = "ts-roundtrip:" + ("labels" if has_labels else "no-labels")
        if d["w"].startswith("E:"):
            return [(site + ":write-rejected", "writer raised %s on a valid panel" % d["w"])]
        r = parse_result(d["p"])
        if r is None:
            fails.append((site + ":load-rejected", "the written file does not load: %s" % d["p"]))
            return fails
        nd, labels, dims = r
        X = c["X"]
        if nd != 1 or len(dims[0]) != len(X):
            fails.append((site + ":instances", "wrote %d instances, loaded %d dims x %s instances" % (len(X), nd, [len(x) for x in dims])))
            return fails
        toks = tokens_of(c)
        bad = False
        for i, (orig, got) in enumerate(zip(X, dims[0])):
            if len(orig) != len(got):
                fails.append((site + ":series-length", "instance %d: wrote %d values, loaded %d" % (i, len(orig), len(got))))
                break
            for j, (o, g) in enumerate(zip(orig, got)):
                e = _decimals(toks[i][j])
                unit = 10.0 ** e if e is not None else 0.0
                gv = _val(g)
                if not (abs(gv - float(o)) <= 0.5 * unit * (1 + 1e-9) + 1e-300 + 4e-16 * abs(float(o))):
                    fails.append((site + ":value", "instance %d value %d: wrote %r (printed %r), loaded %r" % (i, j, o, toks[i][j], gv)))
                    bad = True
                    break
            if bad:
                break
        if has_labels:
            exp = [str(v).strip().lower() for v in c["vals"]]
            if labels != exp:
                buggy = [e.replace("?", "NaN") for e in exp]
                if labels == buggy:
                    fails.append(("ts-roundtrip:labels:question-mark-rewritten",
                                  "labels containing '?' come back with 'NaN' in its place: wrote %r loaded %r" % (c["vals"], labels)))
                else:
                    fails.append((site + ":labels", "wrote %r loaded %r" % (c["vals"], labels)))
        elif labels is not None:
            fails.append((site + ":labels", "no labels written, loaded %r" % (labels,)))
        return fails
    if k == "fmt":
        d = _kv(out)
        rs = {f: parse_result(d[f]) for f in ("ts", "arff", "tsv") if d.get(f, "-") != "-"}
        site = "formats"
        for f, r in rs.items():
            if r is None:
                fails.append(("%s:%s-rejected" % (site, f), "%s file of %s does not load: %s" % (f, c.get("ds", "generated set"), d[f])))
        if fails:
            return fails
        base = rs["ts"]
        for f in ("arff", "tsv"):
            if f not in rs:
                continue
            msg = _panels_agree(base, rs[f], exact=("gen" in c and f != "tsv"))
            if msg:
                fails.append(("%s:ts-vs-%s" % (site, f), msg))
        if "gen" in c and not fails:
            g = c["gen"]
            want = (len(g["X"]), [y.lower() for y in g["y"]], [[[t for t in s] for s in dim] for dim in g["X"]])
            msg = _panels_agree(want, base, exact=True)
            if msg:
                fails.append((site + ":ts-vs-rendered", msg))
        return fails
    if k == "load":
        d = _kv(out)
        site = "loader"
        rs = {s: parse_result(d.get(s, "E:missing")) for s in ("train", "test", "none")}
        for s, r in rs.items():
            if r is None:
                fails.append(("%s:%s-rejected" % (site, s), "split=%s of %s does not load: %s" % (s, c.get("ds", "generated set"), d.get(s))))
        if fails:
            return fails
        tr, te, no = rs["train"], rs["test"], rs["none"]
        if no[0] != tr[0] or no[0] != te[0]:
            fails.append((site + ":none-dims", "dims train/test/None = %d/%d/%d" % (tr[0], te[0], no[0])))
        elif no[1] != (tr[1] or []) + (te[1] or []):
            fails.append((site + ":none-labels", "labels for split=None are not train labels followed by test labels"))
        elif any(dn != da + db for dn, da, db in zip(no[2], tr[2], te[2])):
            fails.append((site + ":none-instances", "instances for split=None are not the training instances followed by the test instances"))
        # by NAME as well as by position: the columns are dim_0 .. dim_{d-1} in the order of the file
        for s, cn in zip(("train", "test", "none"), d.get("cols", "").split("/")):
            want = ["dim_%d" % i for i in range(rs[s][0])]
            got = [dec(x) for x in cn.split("+")] if cn else []
            if got != want:
                fails.append(("%s:column-order:%s" % (site, s), "split=%s of %s: columns %s, expected %s" % (s, c.get("ds", "generated set"), got[:14], want[:14])))
        forms = d.get("forms", "")
        for s, f in zip(("train", "test", "none"), forms):
            if f != "T":
                fails.append(("%s:forms-differ:%s" % (site, s), "return_X_y=True and the single frame disagree for split=%s" % s))
        return fails
    if k in ("ts", "arff", "tsv") and "expect" in c:
        # hand-written files: what the file says, instance by instance (labels exactly, inner blanks included)
        r = parse_result(_kv(out).get(k, "-"))
        e = c["expect"]
        if r is None:
            return [("%s-file:rejected" % k, "a well-formed %s file does not load: %s" % (k, out[:80]))]
        if r[1] != e["y"]:
            fails.append(("%s-file:labels" % k, "file says %r, loaded %r" % (e["y"], r[1])))
        got = [[[_val(v) for v in srs] for srs in dim] for dim in r[2]]
        if got != e["X"]:
            fails.append(("%s-file:values" % k, "file says %r, loaded %r" % (e["X"], got)))
    return fails


def _ndec(tok):
    v = tok
    if "/" in v:
        return None
    e = _decimals(v)
    return e


def _panels_agree(a, b, exact):
    """a, b = (nd, labels, dims) ; values compared up to the coarser printed precision (or exactly)"""
    if a[0] != b[0]:
        return "number of dimensions %d vs %d" % (a[0], b[0])
    la = [_canon_label(x) for x in (a[1] or [])]
    lb = [_canon_label(x) for x in (b[1] or [])]
    if len(la) != len(lb):
        return "%d vs %d labelled instances" % (len(la), len(lb))
    if la != lb:
        k_ = next(i for i, (x, y) in enumerate(zip(la, lb)) if x != y)
        return "labels differ from instance %d on: %r vs %r" % (k_, la[k_:k_ + 8], lb[k_:k_ + 8])
    for di, (da, db) in enumerate(zip(a[2], b[2])):
        if len(da) != len(db):
            return "dim %d: %d vs %d instances" % (di, len(da), len(db))
        for i, (sa, sb) in enumerate(zip(da, db)):
            if len(sa) != len(sb):
                return "dim %d instance %d: length %d vs %d" % (di, i, len(sa), len(sb))
            for j, (x, y) in enumerate(zip(sa, sb)):
                fx, fy = _val(x), _val(y)
                if fx == fy or (math.isnan(fx) and math.isnan(fy)):
                    continue
                if exact:
                    if abs(fx - fy) <= 1e-12 * max(1.0, abs(fx)):
                        continue
                    return "dim %d instance %d value %d: %r vs %r" % (di, i, j, x, y)
                ex, ey = _ndec(repr(fx)), _ndec(repr(fy))
                e = max(ex if ex is not None else -17, ey if ey is not None else -17)
                # one unit of the coarser last printed place: the bundled files were rounded independently
                # (and some twice) from a common source, so half a unit is too strict for them
                if abs(fx - fy) > 10.0 ** e * (1 + 1e-6):
                    return "dim %d instance %d value %d: %r vs %r differ by more than the coarser printed precision" % (di, i, j, x, y)
    return None


def _canon_label(x):
    s = str(x).strip().lower()
    try:
        f = float(s)
        if f == int(f):
            return str(int(f))
    except (ValueError, OverflowError):
        pass
    return s


def nontrivial(c, out):
    k = c["k"]
    if k == "count":
        return "E:" not in out
    if k == "hist":
        return "calls=" in out and "!E:" not in out
    if k == "rt":
        r = parse_result(_kv(out).get("p", "-"))
    elif k == "fmt":
        r = parse_result(_kv(out).get("ts", "-"))
    elif k == "load":
        r = parse_result(_kv(out).get("none", "-"))
    else:
        r = parse_result(_kv(out).get(k, "-"))
    return r is not None and r[0] > 0 and len(r[2][0]) > 0


def features(c, out):
    k = c["k"]
    f = ["kind=" + k]
    if c.get("nomodel"):
        f.append("oracle-only=" + k)
    if k == "count":
        f.append("count-src=" + c["ds"])
        return f
    if k == "rt" and len(c["X"]) >= 100:
        d_ = _kv(out)
        sz_ = int(d_.get("sz", "0"))
        f.append("large-panel-file=%s" % ("E" if d_["w"].startswith("E:") else ">4MiB" if sz_ > (4 << 20) else ">1MiB" if sz_ > (1 << 20) else "<1MiB"))
    if k == "hist":
        f.append("hist-src=" + (c["ds"] if "ds" in c else "generated"))
        f.append("hist-len=%d" % len(c["calls"]))
        for s_, x_, m_ in c["calls"]:
            f.append("hist-call=%s/%s" % (s_ or "none", "Xy" if x_ else "frame"))
            if m_:
                f.append("hist-mutation=" + m_)
        return f
    if k == "rt":
        d = _kv(out)
        f.append("labels=" + ("yes" if c.get("vals") else "no"))
        f.append("comment=" + ("none" if not c.get("comment") else "wrap" if len(comment_lines(c)) > 1 else "one-line"))
        f.append("header=" + ("eq" if c["eq"] else "") + ("sl" if c["sl"] > 0 else "") + ("" if c["eq"] or c["sl"] > 0 else "plain"))
        f.append("domain=" + ("in" if in_domain(c) else "off"))
        idx = c.get("idx")
        f.append("row-index=" + ("default" if idx is None else "strings" if any(isinstance(v, str) for v in idx) else
                                 "duplicated" if len(set(idx)) < len(idx) else "permuted-or-offset"))
        if c.get("vals"):
            f.append("class-values-as=" + (c.get("vals_as") or ("nd" if c.get("vals_nd") else "list")))
        n = len(c["X"])
        f.append("n=" + ("1" if n == 1 else "2-4" if n <= 4 else "5+"))
        L = max([len(s) for s in c["X"]] or [0])
        f.append("len=" + ("1" if L == 1 else "2-9" if L < 10 else "10+"))
        mags = [abs(v) for s in c["X"] for v in s if v and math.isfinite(v)]
        if mags:
            f.append("maxmag=1e%d" % (3 * (int(math.floor(math.log10(max(mags)))) // 3)))
            f.append("minmag=1e%d" % (3 * (int(math.floor(math.log10(min(mags)))) // 3)))
        f.append("write=" + ("ok" if not d["w"].startswith("E:") else d["w"]))
        f.append("load=" + ("ok" if d["p"].startswith("ok!") else d["p"]))
    elif k in ("ts", "arff", "tsv"):
        r = _kv(out).get(k, "-")
        f.append(k + "=" + ("ok" if r.startswith("ok!") else r))
        f.append("src=" + ("bundled" if "path" in c else c.get("tag", "text")))
    else:
        f.append(k + "-src=" + (c["ds"] if "ds" in c else "generated"))
        d = _kv(out)
        for key, v in d.items():
            if key not in ("forms", "idx", "cols"):
                f.append("%s-%s=%s" % (k, key, "ok" if v.startswith("ok!") else v))
    return f


# ----------------------------------------------------------------------------- generators
NAMES = ["sample_data", "P", "My Problem", "x.y-z_1", "'Quoted'", "UPPER lower", "tab\tname", " lead", "trail ", "@data", "#hash", "a:b"]
COMMENTS = [None, "short comment", "A longer comment that has to be wrapped by textwrap because it is well over seventy characters long, "
            "and then some more text so that there are three lines. @data @problemName trap", "@data", "x" * 150, "  padded  ", "multi\nline\ncomment",
            # wrapped so that a continuation line begins with a tag (it must still be written as a comment line)
            "y" * 66 + " @data and more words to follow", "z" * 60 + " filler @problemName again " + "w" * 40 + " @classLabel true q"]
LABEL_POOL = ["a", "B", "1", "2", "Yes", "NO", "class_1", "x-y", "3.5", "label", "A,b", "'q'", "-1", "true", "FALSE", "@data", "#c",
              "gun draw", "No Gun", "New York City", "a  b", "x - y", "1 2"]


def _rand_value(rng, kind):
    if kind == "small":
        return rng.randrange(-2000, 2001) / 100.0
    if kind == "unit":
        return rng.uniform(-1, 1)
    if kind == "int":
        return float(rng.randrange(-10 ** rng.randrange(1, 10), 10 ** rng.randrange(1, 10)))
    if kind == "tiny":
        return rng.uniform(-1, 1) * 10.0 ** rng.randrange(-8, -2)
    if kind == "huge":
        return rng.uniform(-1, 1) * 10.0 ** rng.randrange(5, 13)
    if kind == "mag":
        return rng.uniform(-1, 1) * 10.0 ** rng.randrange(-8, 13)
    if kind == "sig":
        return float("%.*g" % (rng.randrange(1, 9), rng.uniform(-1, 1) * 10.0 ** rng.randrange(-6, 10)))
    return 0.0


def _rand_panel(rng, n=None, L=None, equal=True):
    n = n or rng.choice([1, 1, 2, 2, 3, 4, 5, 8, 12])
    L = L or rng.choice([1, 1, 2, 3, 5, 8, 13, 24, 60])
    mode = rng.choice(["small", "unit", "int", "tiny", "huge", "mag", "mixed", "sig", "permag", "zeros"])
    X = []
    for i in range(n):
        Li = L if equal else max(1, L + rng.randrange(-2, 3))
        if mode == "mixed":
            s = [_rand_value(rng, rng.choice(["small", "tiny", "huge", "int", "mag"])) for _ in range(Li)]
        elif mode == "permag":
            kind = rng.choice(["small", "tiny", "huge", "unit"])
            s = [_rand_value(rng, kind) for _ in range(Li)]
        elif mode == "zeros":
            s = [rng.choice([0.0, -0.0, 1.0, -1.0, 0.5]) for _ in range(Li)]
        else:
            s = [_rand_value(rng, mode) for _ in range(Li)]
        X.append(s)
    return X


def _rand_labels(rng, n):
    pool = rng.sample(LABEL_POOL, rng.randrange(1, 5))
    if rng.random() < 0.08:
        pool.append(rng.choice(["what?", "?", "a?b"]))
    vals = [rng.choice(pool) for _ in range(n)]
    if rng.random() < 0.25:
        pool = [rng.randrange(0, 5) for _ in range(3)]
        vals = [rng.choice(pool) for _ in range(n)]
    cl = list(dict.fromkeys(vals))
    return cl, vals


IDX_KINDS = ["perm", "reversed", "offset", "dups", "zeros", "strings", "concat", "negative", "gaps"]


def _row_index(rng, n, kind):
    if kind == "perm":
        v = list(range(n)); rng.shuffle(v); return v
    if kind == "reversed":
        return list(range(n - 1, -1, -1))
    if kind == "offset":
        off = rng.choice([1, 7, 100, 10 ** 6]); return [off + i for i in range(n)]
    if kind == "dups":
        return [rng.randrange(0, max(1, n // 2)) for _ in range(n)]
    if kind == "zeros":
        return [0] * n
    if kind == "strings":
        v = ["r%d" % i for i in range(n)]; rng.shuffle(v); return v
    if kind == "concat":        # the index of the loaders' split=None frame: 0..a-1 followed by 0..b-1
        a = rng.randrange(0, n + 1); return list(range(a)) + list(range(n - a))
    if kind == "negative":
        return [-(i + 1) for i in range(n)]
    return [2 * i + 3 for i in range(n)]


def _with_index(rng, c, p=0.5):
    """the row index of the panel and the container of the class values are dimensions of the round trip"""
    n = len(c["X"])
    if rng.random() < p:
        c["idx"] = _row_index(rng, n, rng.choice(IDX_KINDS))
    if c.get("vals") and len(c["vals"]) == n:
        c.pop("vals_nd", None)
        c["vals_as"] = rng.choice(["list", "list", "nd", "tuple", "series", "series_idx"]) if all(isinstance(v, str) for v in c["vals"]) \
            else rng.choice(["list", "tuple", "series", "series_idx"])
        if c["vals_as"] == "series_idx":
            c["vidx"] = _row_index(rng, n, rng.choice(IDX_KINDS))
    return c


def _rt_case(rng, X, labels=True, **kw):
    c = {"k": "rt", "X": X, "name": "sample_data", "ts": False, "uni": True, "eq": False, "sl": -1, "comment": None,
         "cl": None, "vals": None}
    if labels:
        c["cl"], c["vals"] = _rand_labels(rng, len(X))
        c["vals_nd"] = rng.random() < 0.3 and all(isinstance(v, str) for v in c["vals"])
    c.update(kw)
    return c


def _gen_tokens(rng, L, dec):
    toks = []
    for _ in range(L):
        v = rng.uniform(-1, 1) * 10.0 ** rng.randrange(-2, 5)
        style = rng.random()
        if style < 0.8:
            toks.append("%.*f" % (dec, v))
        elif style < 0.9:
            toks.append("%.*e" % (dec, v))
        else:
            toks.append(str(int(v)))
    return toks


def _gen_set(rng, nd=None, n=None):
    nd = nd or rng.choice([1, 1, 1, 2, 3])
    n = n if n is not None else rng.randrange(1, 8)
    L = rng.randrange(1, 12)
    dec = rng.randrange(1, 9)
    r_ = rng.random()
    if r_ < 0.2:
        labs = rng.choice([["gun draw", "no gun", "point"], ["Class A", "class  b"]])      # inner blanks (all three formats carry them)
    else:
        labs = rng.choice([["1", "2"], ["0", "1", "2"], ["7"], ["10", "-1"]] if r_ < 0.6 or nd == 1 else [["Standing", "Running"], ["a", "B", "c"]])
    return {"X": [[_gen_tokens(rng, L, dec) for _ in range(n)] for _ in range(nd)], "y": [rng.choice(labs) for _ in range(n)]}


TS_OK = ("#comment\n@problemName demo\n@timeStamps false\n@missing false\n@univariate true\n@equalLength true\n"
         "@seriesLength 3\n@classLabel true a b\n@data\n1.0,2.0,3.5:a\n-1,0.25,1e3:b\n")


def _malformed_ts(rng, tier):
    t = TS_OK
    L = t.split("\n")[:-1]
    out = []

    def add(tag, lines):
        out.append({"k": "ts", "tag": tag, "text": "\n".join(lines) + "\n"})
    add("valid", L)
    for i in range(len(L)):
        add("drop-line-%d" % i, L[:i] + L[i + 1:])
    for i in range(len(L)):
        add("dup-line-%d" % i, L[:i + 1] + L[i:])
    add("tag-after-data", L + ["@problemName late"])
    add("ts-after-data", L + ["@timeStamps false"])
    add("uni-after-data", L + ["@univariate true"])
    add("cl-after-data", L + ["@classLabel true a b"])
    add("data-twice-at-end", L + ["@data"])
    for bad in ["@timeStamps", "@timeStamps maybe", "@timeStamps false extra", "@univariate", "@univariate 1", "@univariate true x",
                "@classLabel", "@classLabel yes a", "@classLabel true", "@classLabel false", "@classLabel false a b", "@problemName",
                "@problemName    ", "@data x", "@DATA", "  @Data  ", "@dataX"]:
        key = bad.strip().split(" ")[0].lower()
        idx = [i for i, l in enumerate(L) if l.lower().startswith(key[:8])]
        i = idx[0] if idx else len(L) - 3
        add("bad-tag:" + bad, L[:i] + [bad] + L[i + 1:])
    for row in ["1,2,3", "1,2,3:a:b", ":a", "1,,3:a", "1,2,x:a", "1,2,3:", " 1 , 2 ,3 : A ", "?,2,?:a", "1,2,3:what?", "1.,.5,+2:a",
                "1e5,1E-3,-1.5e+2:a", "nan,inf,-inf:a", "NaN,Infinity,-INFINITY:b", "1_0,2,3:a", "1__0,2,3:a", "_1,2,3:a", "1_,2,3:a",
                "0x10,2,3:a", "1e,2,3:a", "e5,2,3:a", ".,2,3:a", "1.2.3,2,3:a", "--1,2,3:a", "+-1,2,3:a", "1 2,3,4:a", "\t1,2,3:a\t",
                "1,2,3 :a", ",:a", "1,2,3::a", "(1,2),(2,3):a", "#1,2,3:a", "@1,2,3:a", "1,2,3:A B", "1,2,3:a,b", "", "   ",
                "1e400,2,3:a", "1.5e-400,2,3:a", "00012.500,2,3:a", "1,2", "1:2:3"]:
        add("row:" + row, L[:-2] + [row] + L[-1:])
        add("row-last:" + row, L + [row])
    add("empty-file", [])
    out.append({"k": "ts", "tag": "really-empty", "text": ""})
    out.append({"k": "ts", "tag": "only-newline", "text": "\n"})
    out.append({"k": "ts", "tag": "only-comment", "text": "#nothing here\n"})
    out.append({"k": "ts", "tag": "only-data-tag", "text": "@data\n"})
    out.append({"k": "ts", "tag": "data-tag-then-rows", "text": "@data\n1,2,3\n"})
    exp_ok = {"y": ["a", "b"], "X": [[[1.0, 2.0, 3.5], [-1.0, 0.25, 1000.0]]]}
    out[0]["expect"] = exp_ok                                   # the valid file itself
    out.append({"k": "ts", "tag": "label-inner-blanks", "text": TS_OK.replace("true a b", "true gun draw no gun").replace(":a", ":Gun Draw").replace(":b", ":no  gun"),
                "expect": dict(exp_ok, y=["gun draw", "no  gun"])})
    out.append({"k": "ts", "tag": "label-outer-blanks", "text": TS_OK.replace(":a", ":  A B \t").replace(":b", " : b"), "expect": dict(exp_ok, y=["a b", "b"])})
    out.append({"k": "ts", "tag": "no-final-newline", "text": TS_OK[:-1], "expect": exp_ok})
    out.append({"k": "ts", "tag": "blank-lines", "text": TS_OK.replace("\n", "\n\n")})
    out.append({"k": "ts", "tag": "upper", "text": TS_OK.upper()})
    out.append({"k": "ts", "tag": "indented", "text": "".join("  \t" + l + "  \n" for l in L)})
    out.append({"k": "ts", "tag": "nolabel-fixed-header", "text": TS_OK.replace("@classLabel true a b", "@classLabel false").replace(":a", "").replace(":b", "")})
    out.append({"k": "ts", "tag": "nolabel-writer-header", "text": TS_OK.replace("@classLabel true a b", "@class_label false").replace(":a", "").replace(":b", "")})
    out.append({"k": "ts", "tag": "multidim", "text": TS_OK.replace("3.5:a", "3.5:4,5:a").replace("1e3:b", "1e3::b")})
    out.append({"k": "ts", "tag": "multidim-nolabel", "text": TS_OK.replace("@classLabel true a b", "@classLabel false").replace("3.5:a", "3.5:4,5").replace("1e3:b", "1e3:")})
    out.append({"k": "ts", "tag": "timestamps-true-header-only", "text": TS_OK.replace("@timeStamps false", "@timeStamps true")})
    if tier == "thorough":
        # random single-character edits of the valid file
        chars = "@:,\n #?ae1.-"
        for _ in range(400):
            s = list(TS_OK)
            for _ in range(rng.randrange(1, 3)):
                i = rng.randrange(len(s))
                op = rng.random()
                if op < 0.4:
                    s[i] = rng.choice(chars)
                elif op < 0.7:
                    del s[i]
                else:
                    s.insert(i, rng.choice(chars))
            out.append({"k": "ts", "tag": "char-edit", "text": "".join(s)})
    else:
        for _ in range(60):
            s = list(TS_OK)
            i = rng.randrange(len(s))
            s[i] = rng.choice("@:,\n #?ae1.-")
            out.append({"k": "ts", "tag": "char-edit", "text": "".join(s)})
    return out


ARFF_UNI = "%c\n@relation r\n@attribute a0 numeric\n@attribute a1 numeric\n@attribute target {x,y}\n\n@data\n1.5,2,x\n-3,4e1,Y\n"
ARFF_MULTI = ("@relation 'm'\n@attribute relationalAtt relational\n@attribute a0 numeric\n@end relationalAtt\n@attribute c {u,v}\n@data\n"
              "'1,2\\n3,4',u\n'5,6\\n7,8',V\n")
TSV_OK = "1\t0.5\t1.5\t-2\n2\t3\t4\t5e-1\n"


def _malformed_other(rng):
    out = []
    for tag, t in [("valid", ARFF_UNI), ("no-data-tag", ARFF_UNI.replace("@data\n", "")), ("data-upper", ARFF_UNI.replace("@data", "@DATA")),
                   ("bad-float", ARFF_UNI.replace("1.5", "abc")), ("missing", ARFF_UNI.replace("1.5", "?")), ("empty-field", ARFF_UNI.replace("1.5,2", "1.5,,2")),
                   ("only-label", ARFF_UNI.replace("1.5,2,x", "x")), ("blank-rows", ARFF_UNI.replace("x\n", "x\n\n  \n")),
                   ("comment-with-data-word", ARFF_UNI.replace("%c", "% the @data section follows")),
                   ("relational-word-in-comment", ARFF_UNI.replace("%c", "%@attribute relational")), ("no-newline-end", ARFF_UNI[:-1])]:
        out.append({"k": "arff", "tag": tag, "text": t})
        out.append({"k": "arff", "tag": tag + "/nolabels", "text": t, "hl": False})
    for tag, t in [("valid", ARFF_MULTI), ("extra-dim", ARFF_MULTI.replace("7,8'", "7,8\\n9,9'")), ("fewer-dims", ARFF_MULTI.replace("\\n7,8", "")),
                   ("no-quote-comma", ARFF_MULTI.replace("',u", ";u")), ("two-quote-commas", ARFF_MULTI.replace("3,4',u", "3,4',u',w")),
                   ("bad-float", ARFF_MULTI.replace("3,4", "3,z")), ("extra-dim-bad-float", ARFF_MULTI.replace("7,8'", "7,8\\n9,q'")),
                   ("missing", ARFF_MULTI.replace("3,4", "?,4")), ("inner-quote", ARFF_MULTI.replace("3,4", "3,'4"))]:
        out.append({"k": "arff", "tag": "multi-" + tag, "text": t})
        out.append({"k": "arff", "tag": "multi-" + tag + "/nolabels", "text": t, "hl": False})
    out.append({"k": "arff", "tag": "label-inner-blanks", "text": ARFF_UNI.replace(",x\n", ",Gun Draw\n").replace(",Y\n", ", no gun \n"),
                "expect": {"y": ["Gun Draw", "no gun"], "X": [[[1.5, 2.0], [-3.0, 40.0]]]}})
    out.append({"k": "tsv", "tag": "label-inner-blanks", "text": "gun draw\t0.5\t1.5\nno gun\t3\t4\n",
                "expect": {"y": ["gun draw", "no gun"], "X": [[[0.5, 1.5], [3.0, 4.0]]]}})
    for tag, t in [("valid", TSV_OK), ("blank-lines", TSV_OK.replace("\n", "\n\n")), ("negative-labels", TSV_OK.replace("1\t0.5", "-1\t0.5")),
                   ("one-row", "3\t1.25\t2.5\n"), ("ints", "1\t1\t2\n2\t3\t4\n")]:
        out.append({"k": "tsv", "tag": tag, "text": t})
    return out


BUNDLED_TS = ["UnitTest", "ItalyPowerDemand", "GunPoint", "ArrowHead", "BasicMotions", "JapaneseVowels", "OSULeaf", "ACSF1", "PLAID"]
FMT_SETS = ["GunPoint", "ArrowHead", "BasicMotions"]


def is_exhaustive(tier):
    return False


def gen_cases(tier, rng):
    cases = []
    thorough = tier == "thorough"
    # ---- 1. fixed-order grid of writer options x small panels
    small_panels = [[[1.5, -2.25, 10.0]], [[1.0, 2.0], [3.0, 4.0]], [[1e-6, 123456.789, 3.0], [0.1, 0.2, 0.3]],
                    [[0.0]], [[1e9, -1e-6, 5.0], [1.0, 1.0, 1.0], [2.5, 2.5, 2.5]]]
    headers = [(False, -1), (True, 3), (False, 3), (True, 100), (False, 0)]
    grid = []
    for X in small_panels:
        for lab in (True, False):
            for com in COMMENTS:
                for (eq, sl) in headers:
                    for name in NAMES:
                        grid.append((X, lab, com, eq, sl, name))
    off = rng.randrange(24)
    for i, (X, lab, com, eq, sl, name) in enumerate(grid):
        if not thorough and (i + off) % 24 != 0:
            continue
        cases.append(_rt_case(rng, X, labels=lab, comment=com, eq=eq, sl=sl, name=name))
    # ---- 2. random panels over many magnitudes (in the property's domain)
    for _ in range(3000 if thorough else 260):
        X = _rand_panel(rng)
        lab = rng.random() < 0.8
        eq, sl = rng.choice(headers[:3] + [(True, len(X[0])), (False, -1), (False, -1)])
        cases.append(_with_index(rng, _rt_case(rng, X, labels=lab, comment=rng.choice(COMMENTS + [None, None]), eq=eq, sl=sl,
                              name=rng.choice(NAMES[:8]), ints=(rng.random() < 0.1 and all(float(v).is_integer() and abs(v) < 2 ** 53 for s in X for v in s)))))
    # ---- 2b. the ROW INDEX of the panel handed to the writer x the container of the class values (fixed order, all
    #          combinations in both tiers): instance k's series must come back with instance k's label BY POSITION,
    #          whatever the row labels are.  Labels are pairwise distinct so that any re-pairing is visible.
    for n in (2, 3, 5):
        X = [[float(10 * i + j) + 0.5 for j in range(3)] for i in range(n)]
        labs = ["c%d" % i for i in range(n)]
        for ik in [None] + IDX_KINDS:
            idx = None if ik is None else _row_index(rng, n, ik)
            for how in ["list", "nd", "tuple", "series"] + ["series_idx:" + k_ for k_ in IDX_KINDS]:
                c = _rt_case(rng, X, labels=False, cl=list(labs), vals=list(labs), idx=idx)
                if how.startswith("series_idx:"):
                    c["vals_as"], c["vidx"] = "series_idx", _row_index(rng, n, how.split(":")[1])
                else:
                    c["vals_as"] = how
                cases.append(c)
            cases.append(_rt_case(rng, X, labels=False, idx=idx))      # label-free, same index
    # the frame the bundled loaders return for split=None carries the index 0..n_train-1 followed by 0..n_test-1
    try:
        import sktime.datasets.base as _b
        for ds in (["UnitTest", "GunPoint"] if thorough else ["UnitTest"]):
            Xl, yl = _b.load_UCR_UEA_dataset(ds, split=None, return_X_y=True)
            for how in ("list", "nd", "series_idx"):
                c = _rt_case(rng, [[float(v) for v in Xl.iloc[i, 0]] for i in range(len(Xl))], labels=False,
                             cl=sorted(set(str(v) for v in yl)), vals=[str(v) for v in yl], idx=[int(v) for v in Xl.index], name=ds)
                c["vals_as"] = how
                if how == "series_idx":
                    c["vidx"] = [int(v) for v in yl.index]
                cases.append(c)
    except Exception:
        pass
    # ---- 3. off-domain options (correspondence only)
    for _ in range(400 if thorough else 40):
        X = _rand_panel(rng, equal=rng.random() < 0.5)
        c = _rt_case(rng, X, labels=rng.random() < 0.7, name=rng.choice(NAMES[:6]))
        r = rng.randrange(9)
        if r == 0:
            c["uni"] = False
        elif r == 1:
            c["ts"] = True
        elif r == 2 and c["vals"]:
            c["vals"] = c["vals"] + ["extra"]
        elif r == 3 and c["vals"]:
            c["vals"] = c["vals"][:-1]
        elif r == 4:
            c["eq"], c["sl"] = True, -1
        elif r == 5:
            c["cl"] = None
        elif r == 6:
            c["vals"] = None
        elif r == 7:
            c["extra_dim"] = True
        else:
            c["name"] = rng.choice(["   ", "a b c", "TAB\t"])
        cases.append(c)
    # NaN / inf values and the missing-value representation
    for na in ("NaN", "?", "nan"):
        cases.append(_rt_case(rng, [[1.0, float("nan"), 3.0], [float("nan"), 2.0, 2.0]], labels=True, na=na))
        cases.append(_rt_case(rng, [[float("inf"), -1.0], [float("-inf"), 2.0]], labels=True, na=na))
    # ---- 4. bundled files
    if thorough:
        load_sets, fmt_sets = BUNDLED_TS, FMT_SETS
    else:
        # JapaneseVowels (12 dimensions, the only bundled problem whose column names cross dim_9/dim_10) in every run
        load_sets = ["UnitTest", "ItalyPowerDemand", "JapaneseVowels", rng.choice(["GunPoint", "ArrowHead", "BasicMotions"])]
        fmt_sets = [rng.choice(FMT_SETS[:2]), "BasicMotions"] if rng.random() < 0.5 else FMT_SETS[:2]
    for ds in load_sets:
        c = {"k": "load", "ds": ds}
        if not thorough and ds == "JapaneseVowels":
            c["nomodel"] = True      # 1.3 MB of text: through the model in thorough only; the oracle runs here
        cases.append(c)
    for ds in fmt_sets:
        cases.append({"k": "fmt", "ds": ds})
    for ds in FMT_SETS[:2]:
        cases.append({"k": "tsv", "path": "%s/%s_TRAIN.tsv" % (ds, ds)})
        cases.append({"k": "arff", "path": "%s/%s_TRAIN.arff" % (ds, ds)})
    cases.append({"k": "ts", "path": "UnitTest/UnitTest_TEST.ts"})
    # ---- 5. harness-rendered three-format data sets and TRAIN/TEST pairs
    for _ in range(300 if thorough else 40):
        cases.append({"k": "fmt", "gen": _gen_set(rng)})
    for i in range(156 if thorough else 26):
        nd = 1 + i % 13          # dimension counts 1..13: the column names cross dim_9 / dim_10
        cases.append({"k": "load", "gen": {"train": _gen_set(rng, nd=nd, n=rng.randrange(1, 6)), "test": _gen_set(rng, nd=nd, n=rng.randrange(1, 6))}})
    # ---- 5a. SIZE: a few large panels through the real writer and loader (written file > 1 MiB and > 4 MiB) and one large
    #          multi-dimensional file through the .ts / .arff parsers; the cases and their order are checked against the
    #          panel that was written.  Oracle only where the interpreted driver would take minutes ("nomodel").
    def _big_panel(n, L):
        # wide tokens (pandas pads to a common width of ~15 characters): fewer values per MiB
        return [[round(rng.uniform(-1e6, 1e6), 6) for _ in range(L)] for _ in range(n)]
    sizes = [(270, 270, True), (530, 530, True)] if not thorough else [(270, 270, False), (300, 600, True), (530, 530, True), (1300, 250, True)]
    for n, L, nomodel in sizes:
        labs = ["k%d" % (i % 11) for i in range(n)]
        c = _rt_case(rng, _big_panel(n, L), labels=False, cl=sorted(set(labs)), vals=labs, eq=True, sl=L, name="big")
        c["nomodel"] = nomodel
        cases.append(c)
    if thorough:
        c = _rt_case(rng, _big_panel(400, 280), labels=False, name="bigfree")
        c["nomodel"] = True
        cases.append(c)
    for nd, n, L in ([(3, 420, 110)] if not thorough else [(3, 420, 110), (12, 300, 130), (2, 2500, 30)]):
        g = {"X": [[["%.5f" % rng.uniform(-100, 100) for _ in range(L)] for _ in range(n)] for _ in range(nd)],
             "y": [rng.choice(["1", "2", "3"]) for _ in range(n)]}
        cases.append({"k": "fmt", "gen": g, "nomodel": True})
    # the number of cases each bundled loader returns against the data lines of its files (every bundled problem, every run)
    for ds in BUNDLED_TS:
        cases.append({"k": "count", "ds": ds})
    # ---- 5b. loader call HISTORIES: sequences of (split, form) calls in one process, some followed by a user
    #          mutation of the returned object; every ordered pair of the six forms on the small set first
    forms6 = [[sp, rxy] for sp in ("train", "test", None) for rxy in (True, False)]
    for a in forms6:
        for b in forms6:
            cases.append({"k": "hist", "ds": "UnitTest", "calls": [a + [None], b + [None], a + [None]]})
    muts = ["addcol", "cell", "setcell", "droprow", "labels", "rename"]

    def _history(n):
        calls = []
        for _ in range(n):
            sp, rxy = rng.choice(forms6)
            calls.append([sp, rxy, rng.choice(muts) if rng.random() < 0.25 else None])
        return calls
    hist_sets = BUNDLED_TS if thorough else ["UnitTest", "GunPoint", "ItalyPowerDemand", "JapaneseVowels", rng.choice(["ArrowHead", "BasicMotions"])]
    for ds in hist_sets:
        big = ds in ("ACSF1", "PLAID", "OSULeaf", "JapaneseVowels")
        for _ in range((4 if big else 25) if thorough else (2 if big else 6 if ds != "UnitTest" else 20)):
            cases.append({"k": "hist", "ds": ds, "calls": _history(rng.randrange(2, 5 if big else 9))})
    for i in range(130 if thorough else 26):
        nd = 1 + i % 13
        cases.append({"k": "hist", "gen": {"train": _gen_set(rng, nd=nd, n=rng.randrange(1, 6)), "test": _gen_set(rng, nd=nd, n=rng.randrange(1, 6))},
                      "calls": _history(rng.randrange(2, 9))})
    # ---- 6. malformed stream
    cases.extend(_malformed_ts(rng, tier))
    cases.extend(_malformed_other(rng))
    return cases


def shrink(c):
    if c["k"] == "hist":
        calls = c["calls"]
        for i in range(len(calls)):
            if len(calls) > 1:
                yield dict(c, calls=calls[:i] + calls[i + 1:])
        for i, (s_, x_, m_) in enumerate(calls):
            if m_:
                yield dict(c, calls=calls[:i] + [[s_, x_, None]] + calls[i + 1:])
        if "ds" in c and c["ds"] != "UnitTest":
            yield dict(c, ds="UnitTest")
        return
    if c["k"] != "rt":
        return
    X = c["X"]
    n = len(X)
    if n > 16:
        for lo, hi in ((0, n // 2), (n // 2, n), (0, n - 1)):
            d = dict(c, X=X[lo:hi])
            if c.get("vals") and len(c["vals"]) == n:
                d["vals"] = c["vals"][lo:hi]
            if c.get("idx") is not None:
                d["idx"] = c["idx"][lo:hi]
            if c.get("vidx") is not None:
                d["vidx"] = c["vidx"][lo:hi]
            yield d
        return
    for i in range(n):
        if n > 1:
            d = dict(c, X=X[:i] + X[i + 1:])
            if c.get("vals") and len(c["vals"]) == n:
                d["vals"] = c["vals"][:i] + c["vals"][i + 1:]
                if c.get("vidx") is not None and len(c["vidx"]) == n:
                    d["vidx"] = c["vidx"][:i] + c["vidx"][i + 1:]
            if c.get("idx") is not None:
                d["idx"] = c["idx"][:i] + c["idx"][i + 1:]
            yield d
    if c.get("idx") is not None:
        yield dict(c, idx=None)
    if c.get("vals_as") not in (None, "list"):
        yield dict(c, vals_as="list")
    L = len(X[0]) if X else 0
    if L > 1 and all(len(s) == L for s in X):
        yield dict(c, X=[s[:L // 2] for s in X])
        yield dict(c, X=[s[:-1] for s in X])
    if c.get("comment"):
        yield dict(c, comment=None)
    if c["eq"] or c["sl"] != -1:
        yield dict(c, eq=False, sl=-1)
    if c["name"] != "p":
        yield dict(c, name="p")
    for i, s in enumerate(X):
        for j, v in enumerate(s):
            if v not in (0.0, 1.0) and math.isfinite(v):
                yield dict(c, X=[list(t) if k != i else s[:j] + [1.0] + s[j + 1:] for k, t in enumerate(X)])
                break
