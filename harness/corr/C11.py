"""C11 correspondence + oracle: elementary forecasters compute the textbook forecast they document.

Real code: sktime/forecasting/naive.py, trend.py, base/_sktime.py (_BaseWindowForecaster), base/adapters/_statsmodels.py,
exp_smoothing.py, ets.py, theta.py.      Model: lean/SkVerif/Model/Naive.lean, Trend.lean.

case kinds
  naive   {"strategy", "sp", "wl", "y": [float|None], "origin", "idx": "range"|"int", "fh": [int], "rel": bool}
  trend   {"degree", "icpt", "y", "origin", "idx", "fh", "rel"}         (values; model line only for degree <= 1)
  design  {"degree", "icpt", "n", "origin", "fh", "rel"}               (design matrices received by a recording regressor)
  adapter {"cls": "ses"|"holt"|"holtd"|"hw"|"ets"|"etsa"|"theta", "y", "origin", "idx", "fh", "rel"}
naive / trend / design cases may carry an OBJECT HISTORY "hist": the same estimator object is first constructed with
hist["params"], fitted on hist["y"] (origin hist["origin"]) and asked for a forecast, then re-parameterised with set_params
(the case's parameters) and fitted on the case's data.  Every naive / trend case also asks for the forecast twice and
compares the caller's series before and after.
naive / trend / adapter cases may carry ANOTHER OBJECT "other" = {"params"| "opts", "y", "origin"}: a second estimator of the same
class (same, default or other parameters) is constructed, fitted on other data and asked for a forecast BETWEEN fit and predict of
the case's object, and again between its two predicts.
Every naive / trend / adapter case may say "ctor": "pos": the forecaster is then constructed POSITIONALLY, in the parameter order
pinned in corpus/C11/signatures.json (the documented signatures of the unchanged tree), instead of with keywords; the pinned
signatures are themselves checked (kind "signature").
naive / trend / adapter cases may carry EXOGENOUS DATA "X": rows of values (None = missing) handed to fit next to y (every
elementary forecaster documents that X is ignored; the trend forecaster may reject it as not implemented); "Xp": true also hands
the future rows to predict (out-of-sample horizons only).  The textbook clauses are evaluated on y alone.
naive / trend / adapter cases may carry "pi": alpha (a level or a list of levels): the forecast is asked for with
return_pred_int=True; a forecaster without interval support may reject with NotImplementedError, one that answers must return the
same textbook POINT forecasts (the intervals themselves are C10's subject).  Theta walks the (sp, deseasonalize) product.
`fh` holds RELATIVE steps; with rel = False the horizon is passed to sktime in absolute form (cutoff + step).
"""
import itertools, math, os, warnings
from fractions import Fraction
import numpy as np, pandas as pd
from common import canon_err, show_ints, show_bool, show_rat, show_rats, parse_rats, parse_ints, close, dyadic

PROP = "C11"
LEAN_MODULE = "SkVerif.Props.C11"
OBLIGATIONS = [
    "SkVerif.C11.last_eq_spec",
    "SkVerif.C11.seasonal_last_eq_spec",
    "SkVerif.C11.mean_eq_spec",
    "SkVerif.C11.seasonal_mean_eq_spec",
    "SkVerif.C11.seasonal_alignment_any_window",
    "SkVerif.C11.drift_eq_spec",
    "SkVerif.C11.drift_single_observation_nan",
    "SkVerif.C11.drift_rejects_missing_endpoint",
    "SkVerif.C11.fit_window_resolution",
    "SkVerif.C11.fit_rejects",
    "SkVerif.C11.insample_eq_one_step_ahead_spec",
    "SkVerif.C11.insample_last_eq_spec",
    "SkVerif.C11.insample_mean_eq_spec",
    "SkVerif.C11.insample_drift_eq_spec",
    "SkVerif.C11.insample_seasonal_mean_eq_spec",
    "SkVerif.C11.insample_seasonal_last_eq_spec",
    "SkVerif.C11.predict_splits_horizon",
    "SkVerif.C11.predict_out_of_sample",
    "SkVerif.C11.naive_seasonal_last_end_to_end",
    "SkVerif.C11.trend_design_matrix_eq_spec",
    "SkVerif.C11.trend_deg1_eq_ols",
    "SkVerif.C11.trend_deg0_eq_mean",
    "SkVerif.C11.trend_noicpt_eq_ols",
    "SkVerif.C11.adapter_selects_requested_steps",
    "SkVerif.C11.refit_forgets_history",
    "SkVerif.C11.naive_history_eq_fresh",
    "SkVerif.C11.trend_history_eq_fresh",
    "SkVerif.C11.other_object_does_not_interfere_naive",
    "SkVerif.C11.other_object_does_not_interfere_trend",
    "SkVerif.C11.es_forwards_every_option",
    "SkVerif.C11.ets_forwards_every_option",
    "SkVerif.C11.theta_wraps_ses",
    "SkVerif.C11.naive_ignores_exog",
    "SkVerif.C11.naive_rejects_foreign_exog",
    "SkVerif.C11.theta_point_forecast_unaffected_by_intervals",
    "SkVerif.C11.theta_plain_eq_ses_plus_drift",
    "SkVerif.C11.theta_reseasonalised_own_season_partial",
    "SkVerif.C11.theta_scattered_horizon_misaligned",
]
TRUSTED = ["hand-written object-state model SkVerif/Model/History.lean (which attributes fit overwrites, which survive set_params / refit)",
           "hand-written models SkVerif/Model/Naive.lean (naive.py + _BaseWindowForecaster paths of _sktime.py) and SkVerif/Model/Trend.lean "
           "(trend.py time axis / PolynomialFeatures on one column / closed-form OLS for degree <= 1; _statsmodels.py start/end/.loc selection), "
           "contiguous integer labels only",
           "statsmodels (ExponentialSmoothing, ETSModel) and sklearn (LinearRegression, PolynomialFeatures) as black boxes: the wrapped fitted "
           "model is a function position -> prediction; its dense predictions are fed to the model as data",
           "independent specification SkVerif/Spec/Naive.lean (textbook formulas) and the Python oracle written from the same formulas"]
ASSUMPTIONS = ["exact rational arithmetic (dyadic inputs; Python floats compared within 1e-9 relative, 1e-7 for lstsq results)",
               "integer RangeIndex / Int64Index without gaps (gapped labels give shorter windows: out of scope, DESIGN section 5)",
               "general-degree trend: only the design matrices handed to the regressor are modelled; the values are checked by the oracle "
               "against an exact normal-equation solve, not by a theorem",
               "Theta: the forecast is compared with (statsmodels SES forecast on the directly computed seasonally adjusted series + the drift the "
               "forecaster itself reports) x the directly computed seasonal index of the forecast's time point; the drift formula is not part of the statement",
               "prediction intervals themselves are C10's subject: here only the POINT forecasts returned next to them",
               "adapters: horizons not earlier than the first observation (statsmodels wraps negative positions)"]
RULE = ("fixed-order small scope: every (strategy, n<=14, sp<=4, window_length in {None} u 1..n) x (full horizon {-3..9}, every single step, "
        "random subsets) x (without / with NaN), all non-empty subsets of {-3..9} for 2 configurations and every second one for a third (quick: seed-rotated 1/12 resp. 1/32 slice); "
        "structured random larger cases (n<60, sp<=12); malformed stream; trend values for degree 0..4, design matrices degree 0..5; "
        "object history (about 1/3 of the naive and 1/2 of the trend/design cases: fit on other data with other parameters, predict, set_params, fit, predict; compared with the textbook value AND a fresh object), second predict and caller-series snapshot on every naive/trend case; another object of the same class (same / default / other parameters) fitted on other data between fit and predict and between the two predicts of the case's object (15% of the small-scope naive, 50% of the trend, 35% of the adapter cases), compared with the textbook value AND the object alone; positional construction in the pinned parameter order (40% of the cases; pinned signatures checked as static cases from corpus/C11/signatures.json); static scan of the 7 anchored files for class-/module-level objects read by fit/predict; "
        "exogenous data handed to fit next to y (20% of the naive and adapter cases, 5% of the trend cases: 1-3 columns, complete or with missing values placed mostly inside the last window, rarely with a number of rows that does not match y; future rows handed to predict for half of them on out-of-sample horizons), compared with the textbook value computed from y alone AND with the same forecaster fitted without X; return_pred_int=True on 4-5% of the naive / trend / ExponentialSmoothing / AutoETS cases (NotImplementedError accepted, any answer must carry the textbook point forecasts) and on half of the Theta cases (point forecasts compared with the textbook value AND with predict(fh) on the same object); "
        "statsmodels-backed forecasters over the option product (ExponentialSmoothing: 5 trend spellings x damped x 5 seasonal spellings x initialisation x sp, Box-Cox, known initial states; AutoETS: error x trend x damped x seasonal x initialisation, maxiter; Theta: initial_level x sp x deseasonalize x (plain / return_pred_int with a level or a list of levels), horizons that are runs of consecutive steps and scattered ones): recorded constructor/fit keyword arguments vs the parameters of the forecaster, forecasts vs the statsmodels model built directly with the same options. distinct by driver line; non-trivial = a forecast with at least one finite value")
LEVEL_TEXT = ("Lean 4 theorems (all series, periods, window lengths - multiples of the period or not -, horizons in-sample and "
              "out-of-sample) that the model of NaiveForecaster / PolynomialTrendForecaster / the statsmodels adapter computes the textbook "
              "forecast of an independent specification; model tied to /repo by differential correspondence on every run")
LEVEL_NOTE = ("proved for the model at full strength: last / seasonal last / mean / seasonal mean (any window length) / drift = textbook; "
              "in-sample = one-step-ahead from the moved cutoff, incl. windows cut by the start of the series (drift with one observation = NaN); "
              "degree<=1 trend = least squares (normal equations + optimality); design matrix = Vandermonde; adapter returns the wrapped "
              "model's prediction for exactly the requested time points. Three defects found by this check were fixed in /repo (ab76aa2, "
              "3f305b4). Exogenous data stored next to y never reach the naive forecast; Theta point forecasts are the same with and without "
              "prediction intervals. PARTIAL: Theta re-seasonalises every forecast with the seasonal index of its own time point only for horizons "
              "that are runs of consecutive steps (open finding F5: scattered horizons get the indices of consecutive time points). Only modelled / observed: general-degree regression values, statsmodels internals, float rounding, gapped indexes.")
TECHNIQUE = "interactive theorem proving (Lean 4, Mathlib tactics) over an executable model + differential correspondence testing + textbook oracle"

UNIVERSE = list(range(-3, 10))


# ----------------------------------------------------------------------------- building inputs
def _series(c):
    vals = [np.nan if v is None else float(v) for v in c["y"]]
    n, o = len(vals), c["origin"]
    if c.get("idx", "range") == "range":
        idx = pd.RangeIndex(o, o + n)
    else:
        idx = pd.Index(np.arange(o, o + n, dtype="int64"))
    return pd.Series(vals, index=idx, dtype="float64")


def _fh(c, n=None):
    from sktime.forecasting.base import ForecastingHorizon
    n = len(c["y"]) if n is None else n
    if c["rel"]:
        return list(c["fh"])
    cutoff = c["origin"] + n - 1
    return ForecastingHorizon([cutoff + h for h in c["fh"]], is_relative=False)


def _show_series(p):
    return "idx=%s val=%s" % (show_ints([int(v) for v in p.index]), show_rats([float(v) for v in p.values]))


class _Recorder:
    """regressor that records what PolynomialTrendForecaster's pipeline hands to it"""

    def __init__(self):
        self.Xfit = self.Xpred = None

    def get_params(self, deep=True):
        return {}

    def set_params(self, **kw):
        return self

    def fit(self, X, y):
        self.Xfit = np.array(X)
        return self

    def predict(self, X):
        self.Xpred = np.array(X)
        return np.zeros(len(X))


# ----------------------------------------------------------------------------- direct statsmodels calls
_DENSE = {}
ADAPTERS = ("es", "ets", "theta")
ES_DEFAULTS = dict(trend=None, damped_trend=False, seasonal=None, sp=None, use_boxcox=None, initial_level=None, initial_trend=None,
                   initial_seasonal=None, initialization_method="estimated")
ETS_DEFAULTS = dict(error="add", trend=None, damped_trend=False, seasonal=None, sp=1, initialization_method="estimated",
                    initial_level=None, initial_trend=None, initial_seasonal=None, maxiter=1000)
THETA_DEFAULTS = dict(initial_level=None, sp=1, deseasonalize=False)


def _opts(c):
    d = dict({"es": ES_DEFAULTS, "ets": ETS_DEFAULTS, "theta": THETA_DEFAULTS}[c["cls"]])
    d.update(c.get("opts") or {})
    return d


def _cv(v):
    """canonical atom for an option value (no spaces, ':' or ';')"""
    if v is None:
        return "None"
    if isinstance(v, (bool, np.bool_)):
        return show_bool(bool(v))
    if isinstance(v, str):
        return v
    if isinstance(v, (list, tuple, np.ndarray, pd.Series)):
        return "[" + "|".join(_cv(x) for x in list(v)) + "]"
    if isinstance(v, (int, float, np.integer, np.floating)):
        return show_rat(float(v))
    return type(v).__name__


def _show_args(pairs):
    return "-" if not pairs else ";".join("%s:%s" % (k, _cv(v)) for k, v in pairs)


def expected_sm_args(c):
    """What the statement means by 'the wrapped statsmodels model fitted with the same options': every documented option of
    the forecaster reaches the statsmodels keyword of the same meaning (sp -> seasonal_periods).  (ctor pairs, fit pairs)"""
    o = _opts(c)
    if c["cls"] == "es":
        return ([("trend", o["trend"]), ("damped_trend", o["damped_trend"]), ("seasonal", o["seasonal"]), ("seasonal_periods", o["sp"]),
                 ("use_boxcox", o["use_boxcox"]), ("initial_level", o["initial_level"]), ("initial_trend", o["initial_trend"]),
                 ("initial_seasonal", o["initial_seasonal"]), ("initialization_method", o["initialization_method"])], [])
    if c["cls"] == "ets":
        return ([("error", o["error"]), ("trend", o["trend"]), ("damped_trend", o["damped_trend"]), ("seasonal", o["seasonal"]),
                 ("seasonal_periods", o["sp"]), ("initialization_method", o["initialization_method"]), ("initial_level", o["initial_level"]),
                 ("initial_trend", o["initial_trend"]), ("initial_seasonal", o["initial_seasonal"]), ("bounds", None), ("dates", None),
                 ("freq", None), ("missing", "none")],
                [("start_params", None), ("maxiter", o["maxiter"]), ("full_output", True), ("disp", False), ("callback", None),
                 ("return_params", False)])
    # theta = simple exponential smoothing (+ drift): no trend / seasonal component in the wrapped model
    lvl = o["initial_level"]
    return ([("trend", None), ("damped_trend", False), ("seasonal", None), ("seasonal_periods", o["sp"]), ("use_boxcox", None),
             ("initial_level", lvl), ("initial_trend", None), ("initial_seasonal", None),
             ("initialization_method", "known" if lvl is not None else "estimated")], [])   # "if the value is set then this will be used"


def _opts_line(c):
    """the forecaster's parameters as handed to the model (ets: plus the fixed constructor defaults it documents)"""
    o = _opts(c)
    if c["cls"] == "ets":
        o = dict(o, bounds=None, dates=None, freq=None, missing="none", start_params=None, full_output=True, disp=False,
                 callback=None, return_params=False)
    return _show_args(sorted(o.items()))


_ALPHA = {}


def _theta_seasonal(c):
    """Theta with deseasonalize: the classical multiplicative seasonal indices of the training series (one per season, phase 0 =
    first observation), computed directly with statsmodels; [1.0] when the forecaster is told not to adjust"""
    o = _opts(c)
    if not o["deseasonalize"]:
        return np.array([1.0])
    from statsmodels.tsa.seasonal import seasonal_decompose
    y = pd.Series([float(v) for v in c["y"]], index=pd.RangeIndex(0, len(c["y"])), dtype="float64")
    return seasonal_decompose(y, model="multiplicative", period=o["sp"], filt=None, two_sided=True,
                              extrapolate_trend=0).seasonal.iloc[:o["sp"]].to_numpy(dtype="float64")


def _theta_drift(c):
    """the drift ThetaForecaster documents (half the least-squares slope of the adjusted series, weighted by the SES memory),
    from the DIRECT statsmodels fit: one value per requested step, ascending (model input only: the oracle uses the drift the
    forecaster itself reports, since the statement does not fix the drift formula)"""
    _direct_dense(c)
    a, slope = _ALPHA[(c["cls"], _opts_line(c), tuple(c["y"]))]
    n = len(c["y"])
    return [slope / 2 * (h if np.isclose(a, 0.0) else h + (1 - (1 - a) ** n) / a) for h in sorted(c["fh"])]


def _direct_dense(c):
    """the wrapped statsmodels model built DIRECTLY with the same options and fitted on the same data, predicted densely for
    positions 0 .. n + max(9, max fh); memoised (to_line and oracle share it)"""
    key = (c["cls"], _opts_line(c), tuple(c["y"]))
    horizon = max([12] + list(c["fh"]))
    if key in _DENSE:
        if isinstance(_DENSE[key], Exception):
            raise _DENSE[key]
        if len(_DENSE[key]) >= len(c["y"]) + horizon + 1:
            return _DENSE[key]
    ctor, fitkw = expected_sm_args(c)
    try:
        with warnings.catch_warnings():
            warnings.simplefilter("ignore")
            with np.errstate(all="ignore"):
                yv = np.array([float(v) for v in c["y"]], dtype="float64")
                if c["cls"] == "theta":
                    yv = yv / np.resize(_theta_seasonal(c), len(yv))     # the series the wrapped model is documented to see
                y = pd.Series(yv, index=pd.RangeIndex(0, len(c["y"])), dtype="float64")
                if c["cls"] == "ets":
                    from statsmodels.tsa.exponential_smoothing.ets import ETSModel
                    r = ETSModel(y, **dict(ctor)).fit(**dict(fitkw))
                else:
                    from statsmodels.tsa.holtwinters import ExponentialSmoothing as SM
                    r = SM(y, **dict(ctor)).fit(**dict(fitkw))
                dense = [float(v) if math.isfinite(float(v)) else float("nan") for v in r.predict(0, len(c["y"]) + horizon).values]
                if c["cls"] == "theta":
                    _ALPHA[key] = (float(r.params["smoothing_level"]), float(np.polyfit(np.arange(len(yv)), yv, 1)[0]))
    except Exception as e:
        _DENSE[key] = e
        raise
    if len(_DENSE) > 3000:
        for k in list(_DENSE)[:1500]:
            _DENSE.pop(k, None)
    _DENSE[key] = dense
    return dense


# ----------------------------------------------------------------------------- driver lines
def _wl(c):
    return "none" if c["wl"] is None else str(c["wl"])


def _fh_line(c, n):
    return show_ints(c["fh"]) if c["rel"] else show_ints([c["origin"] + n - 1 + h for h in c["fh"]])


def _show_X(rows):
    return "-" if not rows else ";".join(show_rats(r) if r else "." for r in rows)


def _st(name):
    return name if name in ("last", "mean", "drift") else "other"


def to_line(c):
    k = c["kind"]
    if k in ("scan", "signature"):
        return None
    h = c.get("hist")
    if c.get("pi") is not None and k in ("naive", "trend"):
        return None                                       # no interval support: rejection checked by the oracle only
    if k == "trend" and c.get("X") is not None:
        return None                                       # exogenous data documented as not implemented: oracle only
    if k == "naive":
        if c.get("X") is not None and not h:
            return "C11 naivex %s %s %s %d %s %d %s %s %s" % (_show_X(c["X"]), show_bool(bool(c.get("Xp")) and min(c["fh"], default=0) > 0),
                                                          _st(c["strategy"]), c["sp"], _wl(c), c["origin"], show_rats(c["y"]),
                                                          _fh_line(c, len(c["y"])), show_bool(c["rel"]))
        tail = "%s %d %s %d %s %s %s" % (_st(c["strategy"]), c["sp"], _wl(c), c["origin"], show_rats(c["y"]),
                                         _fh_line(c, len(c["y"])), show_bool(c["rel"]))
        if h:
            hp = h["params"]
            return "C11 naiveh %s %d %s %d %s %s" % (_st(hp["strategy"]), hp["sp"], "none" if hp["wl"] is None else str(hp["wl"]),
                                                     h["origin"], show_rats(h["y"]), tail)
        return "C11 naive " + tail
    if k == "trend":
        if c["degree"] > 1:
            return None
        tail = "%d %s %d %s %s %s" % (c["degree"], show_bool(c["icpt"]), c["origin"], show_rats(c["y"]),
                                      _fh_line(c, len(c["y"])), show_bool(c["rel"]))
        if h:
            hp = h["params"]
            return "C11 trendh %d %s %d %s %s" % (hp["degree"], show_bool(hp["icpt"]), h["origin"], show_rats(h["y"]), tail)
        return "C11 trend " + tail
    if k == "design":
        tail = "%d %s %d %d %s %s" % (c["degree"], show_bool(c["icpt"]), c["origin"], c["n"], _fh_line(c, c["n"]), show_bool(c["rel"]))
        if h:
            hp = h["params"]
            return "C11 designh %d %s %d %d %s" % (hp["degree"], show_bool(hp["icpt"]), h["origin"], len(h["y"]), tail)
        return "C11 design " + tail
    if k == "adapter":
        try:
            dense = _direct_dense(c)
        except Exception:
            return None
        n = len(c["y"])
        if c.get("pi") is not None and c["cls"] != "theta":
            return None                                   # no interval support: rejection checked by the oracle only
        if c.get("X") is not None and len(c["X"]) != n:
            return None                                   # X that does not belong to y: rejection checked by the oracle only
        if c["cls"] == "theta":
            try:
                drift, seas = _theta_drift(c), [float(v) for v in _theta_seasonal(c)]
            except Exception:
                return None
            if not all(math.isfinite(v) for v in drift + seas):
                return None
            return "C11 theta %s %d %d %s %s %s %s %s %s" % (_opts_line(c), c["origin"], n, _fh_line(c, n), show_bool(c["rel"]), show_rats(dense),
                                                          show_rats(drift), show_rats(seas), show_bool(c.get("pi") is not None))
        return "C11 adapter %s %s %d %d %s %s %s" % (c["cls"], _opts_line(c), c["origin"], n, _fh_line(c, n), show_bool(c["rel"]), show_rats(dense))
    raise ValueError(k)


# ----------------------------------------------------------------------------- real code
def _make(c, params=None, pos=None):
    """keyword construction, or positional construction in the pinned order (corpus/C11/signatures.json)"""
    pos = (c.get("ctor") == "pos") if pos is None else pos
    if c["kind"] == "naive":
        from sktime.forecasting.naive import NaiveForecaster
        p = params or {"strategy": c["strategy"], "sp": c["sp"], "wl": c["wl"]}
        if pos:
            return NaiveForecaster(p["strategy"], p["wl"], p["sp"])            # (strategy, window_length, sp)
        return NaiveForecaster(strategy=p["strategy"], sp=p["sp"], window_length=p["wl"])
    from sktime.forecasting.trend import PolynomialTrendForecaster
    p = params or {"degree": c["degree"], "icpt": c["icpt"]}
    if pos:
        return PolynomialTrendForecaster(None, p["degree"], p["icpt"])          # (regressor, degree, with_intercept)
    return PolynomialTrendForecaster(degree=p["degree"], with_intercept=p["icpt"])


def _same_series(a, b):
    return (len(a) == len(b) and list(a.index) == list(b.index)
            and np.array_equal(np.asarray(a.values, dtype="float64"), np.asarray(b.values, dtype="float64"), equal_nan=True))


def _attempt(f):
    try:
        return f()
    except Exception as e:
        return canon_err(e)


def _exog(c, y):
    """the exogenous frame handed to fit: the case's rows on y's index (rows that do not match y's length keep a 0-based range)"""
    rows = c.get("X")
    if rows is None:
        return None
    arr = np.array([[np.nan if v is None else float(v) for v in r] for r in rows], dtype="float64").reshape(len(rows), -1)
    idx = y.index if len(rows) == len(y) else pd.RangeIndex(c["origin"], c["origin"] + len(rows))
    return pd.DataFrame(arr, index=idx, columns=["x%d" % j for j in range(arr.shape[1])])


def _fit(f, c, y, exog=True):
    X = _exog(c, y) if exog else None
    return f.fit(y) if X is None else f.fit(y, X)


def _ask(f, c, n=None, exog=True, pi=True):
    """predict(fh[, X][, return_pred_int, alpha]) -> the POINT forecasts (first element when intervals come with them)"""
    kw = {}
    if exog and c.get("X") is not None and c.get("Xp") and c["fh"] and min(c["fh"]) > 0:
        n = len(c["y"]) if n is None else n
        k, m = len(c["X"][0]) if c["X"] else 1, max(c["fh"])
        kw["X"] = pd.DataFrame(np.arange(m * k, dtype="float64").reshape(m, k), index=pd.RangeIndex(c["origin"] + n, c["origin"] + n + m),
                               columns=["x%d" % j for j in range(k)])
    if pi and c.get("pi") is not None:
        r = f.predict(fh=_fh(c, n), return_pred_int=True, alpha=c["pi"], **kw)
        if not (isinstance(r, tuple) and len(r) == 2):
            raise TypeError("return_pred_int=True did not return (y_pred, pred_int)")
        return r[0]
    return f.predict(fh=_fh(c, n), **kw)


def _same_answer(p, q):
    return (q == p) if isinstance(p, str) or isinstance(q, str) else _same_series(p, q)


def _run_object(c):
    """One estimator object through its (optional) history, then fit on the case's data and predict.
    Output: the first forecast (or the error of fit / first predict), followed by the flags
      again=T|F  a second predict(fh) on the same object returns exactly the first answer
      kept=T|F   the series the caller passed to fit is unchanged after fit + predict + predict
      fresh=T|F  (history cases) the answer equals that of a newly constructed object with the same parameters and data"""
    y = _series(c)
    y_before = y.copy(deep=True)
    h = c.get("hist")
    if h:
        f = _make(c, h["params"])
        hy = _series({"y": h["y"], "origin": h["origin"], "idx": "range"})
        try:
            f.fit(hy)
            f.predict(fh=[1, 2])
        except Exception:
            pass
        if c["kind"] == "naive":
            f.set_params(strategy=c["strategy"], sp=c["sp"], window_length=c["wl"])
        else:
            f.set_params(degree=c["degree"], with_intercept=c["icpt"])
    else:
        f = _make(c)

    other = c.get("other")
    B = []

    def meddle(stage):
        """the other object's life goes on while the case's object is between two of its calls"""
        if not other:
            return
        try:
            hy = _series({"y": other["y"] if stage == 1 else other["y"][::-1], "origin": other["origin"] + stage - 1, "idx": "range"})
            if not B:
                B.append(_make(c, other["params"]))
            B[0].fit(hy)
            B[0].predict(fh=[1, 2])
        except Exception:
            pass

    def first():
        _fit(f, c, y)
        meddle(1)
        return _ask(f, c)
    p1 = _attempt(first)
    main = p1 if isinstance(p1, str) else _show_series(p1)
    flags = []
    if not isinstance(p1, str):
        meddle(2)
        p2 = _attempt(lambda: _ask(f, c))
        flags.append("again=" + show_bool(not isinstance(p2, str) and _same_series(p1, p2)))
        if c.get("pi") is not None:
            p3 = _attempt(lambda: _ask(f, c, pi=False))
            flags.append("pisame=" + show_bool(_same_answer(p1, p3)))
    flags.append("kept=" + show_bool(_same_series(y, y_before)))
    if h or other:
        def fresh():
            g = _make(c, pos=False)
            _fit(g, c, _series(c))
            return _ask(g, c)
        same = _same_answer(p1, _attempt(fresh))
        if h:
            flags.append("fresh=" + show_bool(same))
        if other:
            flags.append("alone=" + show_bool(same))
    if c.get("X") is not None and len(c["X"]) == len(c["y"]) and not (isinstance(p1, str) and c["kind"] == "trend"):
        def noexog():
            g = _make(c, pos=False)
            _fit(g, c, _series(c), exog=False)
            return _ask(g, c, exog=False)
        flags.append("noexog=" + show_bool(_same_answer(p1, _attempt(noexog))))
    return " ".join([main] + flags)


class _Spy:
    """stands in for the statsmodels class inside the sktime module: records the keyword arguments of the constructor and of
    fit (positional arguments are bound to their names, omitted ones take the statsmodels default) and delegates"""

    def __init__(self, orig, rec):
        self.orig, self.rec = orig, rec

    def __call__(self, endog, *a, **kw):
        import inspect
        if "ctor" in self.rec:                              # only the first construction (the case's object) is recorded
            return self.orig(endog, *a, **kw)
        b = inspect.signature(self.orig.__init__).bind(None, endog, *a, **kw)
        b.apply_defaults()
        self.rec["ctor"] = {k: v for k, v in b.arguments.items() if k not in ("self", "endog")}
        self.rec["ctor"].update(self.rec["ctor"].pop("kwargs", {}) or {})
        model = self.orig(endog, *a, **kw)
        rec, fit0 = self.rec, model.fit

        def fit(*fa, **fk):
            import inspect as _i
            fb = _i.signature(fit0).bind(*fa, **fk)
            rec["fit_given"] = dict(fb.arguments)
            rec["fit_given"].update(rec["fit_given"].pop("kwargs", {}) or {})
            fb.apply_defaults()
            rec["fit"] = dict(fb.arguments)
            rec["fit"].update(rec["fit"].pop("kwargs", {}) or {})
            return fit0(*fa, **fk)
        model.fit = fit
        return model


def _adapter_module(cls):
    if cls == "ets":
        import sktime.forecasting.ets as M
        return M, "_ETSModel"
    import sktime.forecasting.exp_smoothing as M
    return M, "_ExponentialSmoothing"


def _make_adapter(cls, o, pos=False):
    if cls == "ets":
        from sktime.forecasting.ets import AutoETS
        if pos:     # (error, trend, damped_trend, seasonal, sp, initialization_method, initial_level, initial_trend, initial_seasonal,
            #          bounds, dates, freq, missing, start_params, maxiter)
            return AutoETS(o["error"], o["trend"], o["damped_trend"], o["seasonal"], o["sp"], o["initialization_method"], o["initial_level"],
                           o["initial_trend"], o["initial_seasonal"], None, None, None, "none", None, o["maxiter"])
        return AutoETS(error=o["error"], trend=o["trend"], damped_trend=o["damped_trend"], seasonal=o["seasonal"], sp=o["sp"],
                       initialization_method=o["initialization_method"], initial_level=o["initial_level"], initial_trend=o["initial_trend"],
                       initial_seasonal=o["initial_seasonal"], maxiter=o["maxiter"])
    if cls == "theta":
        from sktime.forecasting.theta import ThetaForecaster
        if pos:
            return ThetaForecaster(o["initial_level"], o["deseasonalize"], o["sp"])           # (initial_level, deseasonalize, sp)
        return ThetaForecaster(initial_level=o["initial_level"], deseasonalize=o["deseasonalize"], sp=o["sp"])
    from sktime.forecasting.exp_smoothing import ExponentialSmoothing
    if pos:         # (trend, damped_trend, seasonal, sp, initial_level, initial_trend, initial_seasonal, use_boxcox, initialization_method)
        return ExponentialSmoothing(o["trend"], o["damped_trend"], o["seasonal"], o["sp"], o["initial_level"], o["initial_trend"],
                                    o["initial_seasonal"], o["use_boxcox"], o["initialization_method"])
    return ExponentialSmoothing(trend=o["trend"], damped_trend=o["damped_trend"], seasonal=o["seasonal"], sp=o["sp"],
                                initial_level=o["initial_level"], initial_trend=o["initial_trend"], initial_seasonal=o["initial_seasonal"],
                                use_boxcox=o["use_boxcox"], initialization_method=o["initialization_method"])


def _run_adapter(c):
    """sktime forecaster with the case's options; the statsmodels class it wraps is replaced by a recording stand-in.
    Output: forecast (or error) + ctor=<options the statsmodels constructor received> fitkw=<options fit received>"""
    y = _series(c)
    rec = {}
    M, name = _adapter_module(c["cls"])
    f = _make_adapter(c["cls"], _opts(c), pos=c.get("ctor") == "pos")
    other = c.get("other")
    B = []

    def meddle(stage):
        if not other:
            return
        try:
            hy = _series({"y": other["y"] if stage == 1 else other["y"][::-1], "origin": other["origin"] + stage - 1, "idx": "range"})
            if not B:
                B.append(_make_adapter(c["cls"], _opts({"cls": c["cls"], "opts": other["opts"]})))
            B[0].fit(hy)
            B[0].predict(fh=[1, 2])
        except Exception:
            pass

    def reported_drift(g):
        # ThetaForecaster documents forecast = (wrapped SES forecast + drift), re-seasonalised.  The statement fixes the wrapped
        # model's share only, so the drift is taken as the forecaster reports it (recomputed from its public fitted attributes).
        h = np.array(sorted(c["fh"]), dtype="float64")
        a = g.initial_level_
        return g.trend_ * (h if np.isclose(a, 0.0) else h + (1 - (1 - a) ** len(y)) / a)
    orig = getattr(M, name)
    setattr(M, name, _Spy(orig, rec))
    extra = []
    try:
        def go():
            _fit(f, c, y)
            meddle(1)
            return _ask(f, c)
        p = _attempt(go)
        if other and not isinstance(p, str):
            meddle(2)
            p2 = _attempt(lambda: _ask(f, c))
            extra.append("again=" + show_bool(not isinstance(p2, str) and _same_series(p, p2)))
        if c.get("pi") is not None and not isinstance(p, str):
            extra.append("pisame=" + show_bool(_same_answer(p, _attempt(lambda: _ask(f, c, pi=False)))))
        if c["cls"] == "theta" and not isinstance(p, str):
            d = _attempt(lambda: reported_drift(f))
            if not isinstance(d, str):
                extra.append("drift=" + "|".join(show_rat(float(v)) for v in d))
    finally:
        setattr(M, name, orig)
    if other:
        def alone():
            g = _make_adapter(c["cls"], _opts(c))
            _fit(g, c, _series(c))
            return _ask(g, c)
        extra.append("alone=" + show_bool(_same_answer(p, _attempt(alone))))
    if c.get("X") is not None and len(c["X"]) == len(c["y"]):
        def noexog():
            g = _make_adapter(c["cls"], _opts(c))
            _fit(g, c, _series(c), exog=False)
            return _ask(g, c, exog=False)
        extra.append("noexog=" + show_bool(_same_answer(p, _attempt(noexog))))
    if not isinstance(p, str):
        p = p.replace([np.inf, -np.inf], np.nan)            # non-finite results of statsmodels itself: one canonical token
    main = p if isinstance(p, str) else _show_series(p)
    ctor_names, fit_names = [[k for k, _ in part] for part in expected_sm_args(c)]
    flags = []
    if "ctor" in rec:
        flags.append("ctor=" + _show_args([(k, rec["ctor"].get(k, "<missing>")) for k in ctor_names]))
    if "fit" in rec:
        if c["cls"] == "ets":
            flags.append("fitkw=" + _show_args([(k, rec["fit"].get(k, "<missing>")) for k in fit_names]))
        else:                                               # fit() is documented to be called without options
            flags.append("fitkw=" + _show_args(sorted(rec["fit_given"].items())))
    return " ".join([main] + flags + extra)


SCAN_FILES = ["sktime/forecasting/naive.py", "sktime/forecasting/trend.py", "sktime/forecasting/exp_smoothing.py",
              "sktime/forecasting/ets.py", "sktime/forecasting/theta.py", "sktime/forecasting/base/_sktime.py",
              "sktime/forecasting/base/adapters/_statsmodels.py"]
_WORK_METHODS = ("fit", "predict", "update", "transform")


def _scan_shared(path):
    """class-level / module-level names bound to a constructed object or a mutable literal (an estimator, list, dict, set)
    that a fit / predict / update method reads: state shared by every object of the class.  Returns sorted 'Class.name' list."""
    import ast
    tree = ast.parse(open(path).read())

    def shared_value(v):
        if isinstance(v, (ast.List, ast.Dict, ast.Set, ast.ListComp, ast.DictComp, ast.SetComp)):
            return True
        if isinstance(v, ast.Call):
            fn = v.func.id if isinstance(v.func, ast.Name) else v.func.attr if isinstance(v.func, ast.Attribute) else ""
            return fn not in ("tuple", "frozenset", "str", "int", "float", "bool", "property", "staticmethod", "classmethod", "getLogger")
        return False

    def targets(node):
        ts = node.targets if isinstance(node, ast.Assign) else [node.target]
        return [t.id for t in ts if isinstance(t, ast.Name) and not (t.id.startswith("__") and t.id.endswith("__"))]

    found = []
    module_names = [n for st in tree.body if isinstance(st, (ast.Assign, ast.AnnAssign)) and getattr(st, "value", None) is not None
                    and shared_value(st.value) for n in targets(st)]
    for cls in [n for n in ast.walk(tree) if isinstance(n, ast.ClassDef)]:
        class_names = [n for st in cls.body if isinstance(st, (ast.Assign, ast.AnnAssign)) and getattr(st, "value", None) is not None
                       and shared_value(st.value) for n in targets(st)]
        for fn in [n for n in cls.body if isinstance(n, (ast.FunctionDef, ast.AsyncFunctionDef))]:
            if not any(w in fn.name for w in _WORK_METHODS):
                continue
            for node in ast.walk(fn):
                if isinstance(node, ast.Attribute) and node.attr in class_names and isinstance(node.value, ast.Name) \
                        and node.value.id in ("self", "cls", cls.name) and isinstance(node.ctx, ast.Load):
                    found.append("%s.%s@%s" % (cls.name, node.attr, fn.name))
                if isinstance(node, ast.Name) and node.id in module_names and isinstance(node.ctx, ast.Load):
                    found.append("%s@%s.%s" % (node.id, cls.name, fn.name))
    return sorted(set(found))


def run_real(c):
    k = c["kind"]
    if k == "signature":
        import importlib, inspect
        try:
            cls = getattr(importlib.import_module(c["module"]), c["cls"])
            return "inspected sig=" + ",".join(p for p in inspect.signature(cls.__init__).parameters if p != "self")
        except Exception as e:
            return "inspected sig=unavailable:" + type(e).__name__
    if k == "scan":
        import sktime
        root = os.path.dirname(os.path.dirname(os.path.abspath(sktime.__file__)))
        try:
            return "scanned scan=" + (",".join(_scan_shared(os.path.join(root, c["file"]))) or "-")
        except Exception as e:
            return "scanned scan=unparsable:" + type(e).__name__
    with warnings.catch_warnings():
        warnings.simplefilter("ignore")
        with np.errstate(all="ignore"):
            try:
                if k in ("naive", "trend"):
                    return _run_object(c)
                if k == "design":
                    from sktime.forecasting.trend import PolynomialTrendForecaster
                    n, o = c["n"], c["origin"]
                    y = pd.Series(np.arange(n, dtype="float64"), index=pd.RangeIndex(o, o + n))
                    rec = _Recorder()
                    h = c.get("hist")
                    if h:
                        hy = pd.Series(np.arange(len(h["y"]), dtype="float64"), index=pd.RangeIndex(h["origin"], h["origin"] + len(h["y"])))
                        f = PolynomialTrendForecaster(regressor=_Recorder(), degree=h["params"]["degree"], with_intercept=h["params"]["icpt"])
                        try:
                            f.fit(hy)
                            f.predict(fh=[1, 2])
                        except Exception:
                            pass
                        f.set_params(regressor=rec, degree=c["degree"], with_intercept=c["icpt"])
                    else:
                        f = (PolynomialTrendForecaster(rec, c["degree"], c["icpt"]) if c.get("ctor") == "pos"
                             else PolynomialTrendForecaster(regressor=rec, degree=c["degree"], with_intercept=c["icpt"]))
                    f.fit(y)
                    p = f.predict(fh=_fh(c, n))
                    rows = lambda X: "-" if X is None or len(X) == 0 else ";".join(show_rats([float(v) for v in r]) for r in X)
                    return "fit=%s pred=%s idx=%s" % (rows(rec.Xfit), rows(rec.Xpred), show_ints([int(v) for v in p.index]))
                if k == "adapter":
                    return _run_adapter(c)
            except Exception as e:
                return canon_err(e)
    raise ValueError(k)


# ----------------------------------------------------------------------------- comparison
FLAGS = ("again=", "kept=", "fresh=", "alone=", "ctor=", "fitkw=", "scan=", "sig=", "noexog=", "pisame=", "drift=")


def _split(out):
    """(forecast part, {flag: 'T'|'F'}) of a real-code output"""
    toks = out.split(" ")
    flags = {t.split("=", 1)[0]: t.split("=", 1)[1] for t in toks if t.startswith(FLAGS)}
    return " ".join(t for t in toks if not t.startswith(FLAGS)), flags


def _parse(out):
    d = {}
    for tok in out.split(" "):
        a, b = tok.split("=", 1)
        d[a] = b
    return d


def compare(real, model):
    real, rflags = _split(real)
    model, mflags = _split(model)
    for k in ("ctor", "fitkw"):                         # options handed to statsmodels: exact
        if k in rflags and k in mflags and rflags[k] != mflags[k]:
            return False
    if real.startswith("E:") or model.startswith("E:"):
        return real == model
    r, m = _parse(real), _parse(model)
    if set(r) != set(m):
        return False
    if "fit" in r:
        return r == m
    if r["idx"] != m["idx"]:
        return False
    rv, mv = parse_rats(r["val"]), parse_rats(m["val"])
    if len(rv) != len(mv):
        return False
    return all(close(None if a is None else float(a), b) for a, b in zip(rv, mv))


# ----------------------------------------------------------------------------- ORACLE (the property text)
FREE = ("free",)            # the statement does not determine a value here
UNSUP = ("unsupported",)    # missing values where the method does not support them


def _nanmean(vs):
    vs = [v for v in vs if v is not None]
    return None if not vs else sum(vs, Fraction(0)) / len(vs)


def naive_config_valid(c):
    """configurations the statement quantifies over (the code may reject the others)"""
    n, sp, wl, st = len(c["y"]), c["sp"], c["wl"], c["strategy"]
    if n == 0 or st not in ("last", "mean", "drift") or not c["fh"] or len(set(c["fh"])) != len(c["fh"]):
        return False
    if st == "last":
        return sp >= 1 and (sp == 1 or sp <= n)
    if st == "mean":
        if sp < 1 or (wl is not None and (wl < 1 or wl > n or (sp != 1 and wl < sp))):
            return False
        return True
    if wl is not None and (wl < 2 or wl > n):
        return False
    return True


def naive_window_length(c):
    n, sp, wl, st = len(c["y"]), c["sp"], c["wl"], c["strategy"]
    if st == "last":
        return 1 if sp == 1 else sp
    return n if wl is None else wl


def naive_textbook(c, h):
    """The forecast the statement defines for relative step h (time t = T + h), as ("value", Fraction|None),
    FREE or UNSUP.  Series y(t) on labels origin..T; NaN = None.

    out-of-sample (h >= 1): forecast made at the cutoff T from the last window of w observations;
    in-sample (h <= 0): the one-step-ahead forecast made at t-1 from the (at most w) observations up to t-1."""
    n, o, sp, st = len(c["y"]), c["origin"], c["sp"], c["strategy"]
    T = o + n - 1
    t = T + h
    yv = lambda u: (None if c["y"][u - o] is None else Fraction(c["y"][u - o]))
    w = naive_window_length(c)
    cut = T if h >= 1 else t - 1
    if cut < o:
        return FREE                                      # nothing observed yet
    m = min(w, cut - o + 1)                              # observations actually in the window
    win = list(range(cut - m + 1, cut + 1))              # their time points
    if st == "last":
        if sp == 1:
            return ("value", yv(cut))
        u = t - sp * math.ceil(Fraction(t - cut, sp))    # y(T+h - sp*ceil(h/sp))
        return ("value", yv(u)) if u >= o else FREE
    if st == "mean":
        if sp == 1:
            return ("value", _nanmean([yv(u) for u in win]))
        same = [u for u in win if (u - t) % sp == 0]      # same season as the target, whatever the window length
        return ("value", _nanmean([yv(u) for u in same])) if same else FREE
    # drift: straight line through the window's end points, extrapolated
    if m < 2:
        return FREE
    a, b = yv(win[0]), yv(win[-1])
    if a is None or b is None:
        return UNSUP
    return ("value", b + (t - cut) * (b - a) / (m - 1))


def _naive_cond(c, h):
    """the circumstance a failing step is filed under (so that known findings stay specific)"""
    n, o, sp, st = len(c["y"]), c["origin"], c["sp"], c["strategy"]
    w = naive_window_length(c)
    conds = []
    if h <= 0 and (o + n - 1 + h - 1) - o + 1 < w:
        conds.append("truncated-window")
    if st == "mean" and sp > 1 and w % sp != 0:
        conds.append("wl-not-multiple-of-sp")
    return "+".join(conds) or "regular"


def _naive_site(c):
    return "naive:%s%s" % (c["strategy"], ":seasonal" if c["sp"] > 1 and c["strategy"] != "drift" else "")


def oracle_naive(c, out):
    fails = []
    if not naive_config_valid(c):
        return fails                                      # rejection of malformed input is C20's subject
    steps = sorted(c["fh"])
    tb = [naive_textbook(c, h) for h in steps]
    site = _naive_site(c)
    if out.startswith("E:"):
        if any(x is UNSUP for x in tb):
            return fails
        dem = [h for h, x in zip(steps, tb) if x[0] == "value"]
        if dem:
            conds = sorted({_naive_cond(c, h) for h in steps})
            # a raise cannot be attributed to one step: file it under the most specific circumstance present
            cond = "truncated-window" if any("truncated" in k for k in conds) else conds[0]
            where = "ins" if steps[0] <= 0 else "oos"
            fails.append(("%s:%s:raises:%s" % (site, where, cond),
                          "predict raised %s although the textbook forecast is defined for steps %r (%s)" % (out, dem, _desc(c))))
        return fails
    d = _parse(out)
    vals = parse_rats(d["val"])
    if len(vals) != len(steps):
        fails.append((site + ":length", "%d forecasts for %d steps (%s)" % (len(vals), len(steps), _desc(c))))
        return fails
    for h, x, v in zip(steps, tb, vals):
        if x[0] != "value":
            continue
        exp = x[1]
        ok = (v is None) if exp is None else (v is not None and close(float(v), exp))
        if not ok:
            fails.append(("%s:%s:value:%s" % (site, "ins" if h <= 0 else "oos", _naive_cond(c, h)),
                          "step %d: forecast %s, textbook %s (%s)" % (h, show_rat(v), show_rat(exp), _desc(c))))
    return fails


def _desc(c):
    if c["kind"] == "naive":
        return "strategy=%s sp=%d window_length=%s n=%d origin=%d" % (c["strategy"], c["sp"], c["wl"], len(c["y"]), c["origin"])
    if c["kind"] == "trend":
        return "trend degree=%d with_intercept=%s n=%d origin=%d" % (c["degree"], c["icpt"], len(c["y"]), c["origin"])
    return c["kind"]


def _solve(A, b):
    """Gaussian elimination over Fractions; returns (solution with free variables 0, unique?)"""
    m = len(A)
    M = [list(map(Fraction, row)) + [Fraction(v)] for row, v in zip(A, b)]
    piv, r = [], 0
    for col in range(m):
        p = next((i for i in range(r, m) if M[i][col] != 0), None)
        if p is None:
            continue
        M[r], M[p] = M[p], M[r]
        M[r] = [v / M[r][col] for v in M[r]]
        for i in range(m):
            if i != r and M[i][col] != 0:
                M[i] = [a - M[i][col] * b_ for a, b_ in zip(M[i], M[r])]
        piv.append(col)
        r += 1
    x = [Fraction(0)] * m
    for i, col in enumerate(piv):
        x[col] = M[i][m]
    return x, len(piv) == m


def trend_textbook(c):
    """least-squares polynomial: coefficients solving the normal equations X'X beta = X'y on t = 0..n-1"""
    n, d = len(c["y"]), c["degree"]
    pows = list(range(0 if c["icpt"] else 1, d + 1))
    ys = [Fraction(v) for v in c["y"]]
    X = [[Fraction(t) ** p for p in pows] for t in range(n)]
    A = [[sum(X[t][i] * X[t][j] for t in range(n)) for j in range(len(pows))] for i in range(len(pows))]
    b = [sum(X[t][i] * ys[t] for t in range(n)) for i in range(len(pows))]
    beta, unique = _solve(A, b)
    return (lambda t: sum(bi * Fraction(t) ** p for bi, p in zip(beta, pows))), unique


def oracle_trend(c, out):
    fails = []
    n, d = len(c["y"]), c["degree"]
    if n == 0 or any(v is None for v in c["y"]) or (d == 0 and not c["icpt"]) or not c["fh"] or len(set(c["fh"])) != len(c["fh"]):
        return fails
    site = "trend:deg%d:%s" % (min(d, 3), "icpt" if c["icpt"] else "noicpt")
    if out.startswith("E:"):
        fails.append((site + ":raises", "predict raised %s on a valid configuration n=%d degree=%d" % (out, n, d)))
        return fails
    poly, unique = trend_textbook(c)
    steps = sorted(c["fh"])
    vals = parse_rats(_parse(out)["val"])
    if len(vals) != len(steps):
        return [(site + ":length", "%d forecasts for %d steps" % (len(vals), len(steps)))]
    for h, v in zip(steps, vals):
        t = n - 1 + h                                     # zero-based time of the requested point
        if not unique and not (0 <= t < n):
            continue                                      # several least-squares polynomials: only the fitted values are determined
        exp = poly(t)
        if v is None or not close(float(v), exp, tol=1e-7):
            fails.append((site + (":ins" if h <= 0 else ":oos") + ":value",
                          "step %d (t=%d): forecast %s, least-squares polynomial gives %s (n=%d)" % (h, t, show_rat(v), show_rat(exp), n)))
    return fails


def oracle_design(c, out):
    """the regressor must be fitted on powers 0..d (or 1..d) of t = 0..n-1 and asked at t = n-1+h"""
    fails = []
    n, d = c["n"], c["degree"]
    if n == 0 or (d == 0 and not c["icpt"]) or not c["fh"] or len(set(c["fh"])) != len(c["fh"]):
        return fails
    site = "trend:design"
    if out.startswith("E:"):
        return [(site + ":raises", "raised %s" % out)]
    pows = list(range(0 if c["icpt"] else 1, d + 1))
    rows = lambda ts: ";".join(",".join(str(t ** p) for p in pows) for t in ts) or "-"
    dd = _parse(out)
    if dd["fit"] != rows(range(n)):
        fails.append((site + ":fit-matrix", "fit design %s expected %s" % (dd["fit"][:80], rows(range(n))[:80])))
    if dd["pred"] != rows([n - 1 + h for h in sorted(c["fh"])]):
        fails.append((site + ":pred-matrix", "predict design %s expected %s" % (dd["pred"][:80], rows([n - 1 + h for h in sorted(c["fh"])])[:80])))
    return fails


def oracle_adapter(c, out, drift=None):
    """forecast for time t = the wrapped statsmodels model's (fitted directly with the same options) prediction for t"""
    fails = []
    n = len(c["y"])
    steps = sorted(c["fh"])
    if not steps or steps[0] < -(n - 1) or len(set(steps)) != len(steps):
        return fails
    try:
        dense = _direct_dense(c)
    except Exception:
        return fails                                      # statsmodels itself cannot fit this series
    site = "adapter:" + c["cls"]
    theta = None
    if c["cls"] == "theta":
        o = _opts(c)
        try:
            seas = [float(v) for v in _theta_seasonal(c)]
        except Exception:
            return fails
        contiguous = all(b - a == 1 for a, b in zip(steps, steps[1:]))
        theta = {"seas": seas, "drift": drift,
                 "cond": (":reseasonalised" + ("" if contiguous else ":noncontiguous-fh")) if o["deseasonalize"] and o["sp"] > 1 else ""}
    if out.startswith("E:"):
        return [(site + ":raises", "adapter raised %s, direct statsmodels call succeeds (n=%d fh=%r %s)" % (out, n, steps, _opts_line(c)))]
    vals = parse_rats(_parse(out)["val"])
    if len(vals) != len(steps):
        return [(site + ":length", "%d forecasts for %d steps" % (len(vals), len(steps)))]
    if theta is not None and (theta["drift"] is None or len(theta["drift"]) != len(steps)):
        return fails
    for i, (h, v) in enumerate(zip(steps, vals)):
        exp = dense[n - 1 + h]
        if theta is not None:
            # documented Theta forecast: (forecast of the wrapped SES model fitted to the seasonally adjusted series + drift),
            # put back on the scale of the data with the seasonal index of the forecast's own time point
            exp = (exp + theta["drift"][i]) * theta["seas"][(n - 1 + h) % len(theta["seas"])]
            if exp == exp and exp not in (float("inf"), float("-inf")):
                if v is None or not close(float(v), Fraction(exp), tol=1e-8):
                    fails.append((site + ":value" + theta["cond"],
                                  "step %d: forecast %s; wrapped SES model on the adjusted series %r + reported drift %r, seasonal index %r -> %r (n=%d %s)"
                                  % (h, show_rat(v), dense[n - 1 + h], theta["drift"][i], theta["seas"][(n - 1 + h) % len(theta["seas"])], exp, n, _opts_line(c))))
                continue
        if exp != exp or exp in (float("inf"), float("-inf")):   # statsmodels itself returns NaN/inf for these options and data
            ok = v is None or not (float(v) == float(v)) or exp == float(v)
            if not ok:
                fails.append((site + ":value", "step %d: adapter %s, statsmodels %r" % (h, show_rat(v), exp)))
            continue
        if v is None or not close(float(v), Fraction(exp), tol=1e-8):
            fails.append((site + ":value", "step %d: adapter %s, statsmodels built with the same options %r (n=%d %s)" % (h, show_rat(v), exp, n, _opts_line(c))))
    return fails


def oracle(c, out):
    main, flags = _split(out)
    if c["kind"] == "signature":
        got = flags.get("sig", "")
        if got != ",".join(c["params"]):
            return [("signature:%s:parameter-order" % c["cls"],
                     "%s.__init__ takes (%s); the documented / pinned positional order is (%s): positional construction now means something else"
                     % (c["cls"], got, ", ".join(c["params"])))]
        return []
    if c["kind"] == "scan":
        hits = [] if flags.get("scan", "-") == "-" else flags["scan"].split(",")
        return [("scan:%s:%s:shared-object-used-by-fit-or-predict" % (os.path.basename(c["file"]), h.split("@")[0]),
                 "%s: %s is one object shared by every instance and is read in %s (not cloned / not created per fit)" % (c["file"], h.split("@")[0], h.split("@")[1]))
                for h in hits]
    if c.get("pi") is not None and main == "E:notimpl" and not (c["kind"] == "adapter" and c["cls"] == "theta"):
        return []                                         # no prediction intervals for this forecaster: the statement asks for none
    if c.get("X") is not None and main.startswith("E:") and (len(c["X"]) != len(c["y"]) or (c["kind"] == "trend" and main == "E:notimpl")):
        return []                                         # X that does not belong to y / X documented as not implemented: rejection allowed
    if c["kind"] == "adapter":
        drift = None
        if "drift" in flags:
            toks = flags["drift"].split("|")
            drift = None if any(t in ("nan", "inf", "-inf") for t in toks) else [float(Fraction(t)) for t in toks]
        fails = oracle_adapter(c, main, drift)
    else:
        fails = {"naive": oracle_naive, "trend": oracle_trend, "design": oracle_design}[c["kind"]](c, main)
    # failures filed under the circumstance of a known finding keep their narrow key (no dimension suffixes)
    plain = [(k, m) for k, m in fails if k.endswith(":noncontiguous-fh")]
    fails = [(k, m) for k, m in fails if not k.endswith(":noncontiguous-fh")]
    if c.get("pi") is not None:
        fails = [(k + ":with-pred-int", m + " [point forecasts returned by predict(fh, return_pred_int=True, alpha=%r)]" % (c["pi"],)) for k, m in fails]
    if c.get("X") is not None:
        fails = [(k + ":exog-given", m + " [fit(y, X) with %d exogenous column(s), %d missing value(s)]"
                  % (len(c["X"][0]) if c["X"] else 0, sum(v is None for r in c["X"] for v in r))) for k, m in fails]
    if c.get("hist"):
        # the textbook clauses above were evaluated for the NEW parameters and data: a failure here is a stale-state failure
        fails = [(k + ":after-refit", m + " [object previously fitted with %r on %d other observations]" % (c["hist"]["params"], len(c["hist"]["y"])))
                 for k, m in fails]
    if c["kind"] == "adapter":
        exp_ctor, exp_fit = expected_sm_args(c)
        for flag, exp in (("ctor", exp_ctor), ("fitkw", exp_fit)):
            if flag in flags and flags[flag] != _show_args(exp):
                got = dict(t.split(":", 1) for t in flags[flag].split(";")) if flags[flag] != "-" else {}
                diff = ["%s=%s (forecaster parameter says %s)" % (k, got.get(k, "<absent>"), _cv(v)) for k, v in exp if got.get(k) != _cv(v)]
                diff += ["unexpected %s=%s" % (k, v) for k, v in got.items() if k not in dict(exp)]
                names = "+".join(k for k, v in exp if got.get(k) != _cv(v)) or "extra"
                fails.append(("adapter:%s:%s-options:%s" % (c["cls"], flag, names),
                              "statsmodels %s received %s (%s)" % ("constructor" if flag == "ctor" else "fit", ", ".join(diff), _opts_line(c))))
        if any(":ctor-options:" in k for k, _ in fails):
            # a rejection by statsmodels that follows from wrong options is reported once, by its cause
            fails = [(k, m) for k, m in fails if not k.endswith(":raises")]
    if c.get("ctor") == "pos":
        fails = [(k + ":positional-construction", m + " [forecaster constructed positionally in the pinned parameter order]") for k, m in fails]
    site = c["kind"] + (":" + c["strategy"] if c["kind"] == "naive" else ":" + c["cls"] if c["kind"] == "adapter" else "")
    if c.get("other"):
        what = c["other"].get("params", c["other"].get("opts"))
        fails = [(k + ":other-object-alive", m + " [another object %r was fitted on other data between fit and predict]" % (what,)) for k, m in fails]
        if flags.get("alone") == "F":
            fails.append((site + ":other-object-interferes",
                          "the forecast differs from the one the same object gives when no other object of its class is fitted in between "
                          "(%s; other object: %r)" % (_desc(c), what)))
    fails = plain + fails
    if flags.get("noexog") == "F":
        fails.append((site + ":exogenous-data-changes-forecast",
                      "the forecast after fit(y, X) differs from the one after fit(y): X is documented as ignored (%s; %d missing value(s) in X)"
                      % (_desc(c), sum(v is None for r in c["X"] for v in r))))
    if flags.get("pisame") == "F":
        fails.append((site + ":point-forecast-differs-with-pred-int",
                      "predict(fh, return_pred_int=True)[0] differs from predict(fh) on the same fitted object (%s)" % _desc(c)))
    if flags.get("again") == "F":
        fails.append((site + ":second-predict-differs", "a second predict(fh) on the same fitted object does not repeat the first answer (%s)" % _desc(c)))
    if flags.get("kept") == "F":
        fails.append((site + ":caller-series-modified", "the series passed to fit was modified by fit/predict (%s)" % _desc(c)))
    if flags.get("fresh") == "F":
        fails.append((site + ":history-dependent", "forecast after set_params + fit differs from a new object's with the same parameters and data (%s; before: %r)" % (_desc(c), c["hist"]["params"])))
    return fails


# ----------------------------------------------------------------------------- evidence helpers
def nontrivial(c, out):
    if c["kind"] in ("scan", "signature"):
        return True
    out = _split(out)[0]
    if out.startswith("E:"):
        return False
    d = _parse(out)
    if "fit" in d:
        return d["fit"] != "-"
    return any(v is not None for v in parse_rats(d["val"]))


def features(c, out):
    if c["kind"] == "signature":
        return ["kind=signature"]
    if c["kind"] == "scan":
        return ["kind=scan", "scan " + _split(out)[1].get("scan", "?")[:40]]
    out, flags = _split(out)
    f = ["kind=" + c["kind"], "history=" + ("refit-after-set_params" if c.get("hist") else "fresh-object"),
         "other-object=" + ("alive" if c.get("other") else "none"), "construction=" + ("positional" if c.get("ctor") == "pos" else "keywords")]
    X = c.get("X")
    f.append("exog=" + ("none" if X is None else "foreign-rows" if len(X) != len(c["y"]) else
                        ("missing-values" if any(v is None for r in X for v in r) else "complete") + ("+future" if c.get("Xp") else "")))
    f.append("pred-int=" + ("no" if c.get("pi") is None else "list" if isinstance(c["pi"], list) else "level"))
    if c["kind"] == "adapter" and c["cls"] == "theta":
        o = _opts(c)
        st = sorted(c["fh"])
        f.append("theta sp%s deseasonalize=%s fh=%s" % ("1" if o["sp"] == 1 else ">1", o["deseasonalize"],
                                                      "run" if all(b - a == 1 for a, b in zip(st, st[1:])) else "scattered"))
    f += ["%s=%s" % kv for kv in sorted(flags.items())]
    if c["kind"] == "naive":
        f.append("naive=%s/sp%s" % (c["strategy"], "1" if c["sp"] == 1 else ">1"))
        w = naive_window_length(c) if c["strategy"] in ("last", "mean", "drift") else 0
        if c["strategy"] == "mean" and c["sp"] > 1:
            f.append("seasonal-mean wl%sp=" + ("0" if w % max(c["sp"], 1) == 0 else "nonzero"))
        f.append("nan=" + str(any(v is None for v in c["y"])))
        f.append("fh=" + ("ins" if max(c["fh"], default=1) <= 0 else "oos" if min(c["fh"], default=1) > 0 else "mixed"))
        f.append("origin=%d" % c["origin"])
        f.append("n=%d" % min(len(c["y"]), 15) + ("+" if len(c["y"]) >= 15 else ""))
    elif c["kind"] in ("trend", "design"):
        f.append("degree=%d icpt=%s" % (c["degree"], c["icpt"]))
    else:
        o = _opts(c)
        f.append("adapter=" + c["cls"])
        if c["cls"] != "theta":
            f.append("adapter %s trend=%s damped=%s" % (c["cls"], o["trend"], o["damped_trend"]))
            f.append("adapter %s seasonal=%s init=%s" % (c["cls"], o["seasonal"], o["initialization_method"]))
    f.append("out=" + (out if out.startswith("E:") else "ok"))
    return f


def is_exhaustive(tier):
    return tier == "thorough"


# ----------------------------------------------------------------------------- generators
ORIGINS = [0, -3, 5, 1000]


def _values(rng, n, nan=False, integer=None):
    integer = rng.random() < 0.5 if integer is None else integer
    ys = [float(rng.randrange(-20, 41)) if integer else dyadic(rng, -32, 32, 3) for _ in range(n)]
    if nan and n:
        k = rng.randrange(1, max(2, n // 2 + 1))
        for i in rng.sample(range(n), min(k, n)):
            ys[i] = None
    return ys


PI_LEVELS = [0.05, 0.5, [0.1, 0.5], 0.2]


def _with_exog(rng, c, prob, pi_prob=0.04):
    """exogenous data next to y (complete, or with missing values anywhere - also inside the last window -, rarely with a number
    of rows that does not match y) and / or a request for prediction intervals"""
    n = len(c["y"])
    if n and rng.random() < prob:
        k = rng.choice([1, 1, 2, 3])
        rows = [[float(rng.randrange(-9, 10)) for _ in range(k)] for _ in range(n)]
        r = rng.random()
        if r < 0.65:
            for _ in range(rng.choice([1, 1, 2, 3, n])):
                i = n - 1 - rng.randrange(0, min(n, 8)) if rng.random() < 0.7 else rng.randrange(n)
                rows[i][rng.randrange(k)] = None
        elif r < 0.72:
            rows = rows[:-1] if n > 1 and rng.random() < 0.5 else rows + [rows[-1]]
        c["X"] = rows
        if rng.random() < 0.5:
            c["Xp"] = True
        if c["kind"] == "naive":
            c.pop("hist", None)                           # the model line of an object history carries no exogenous data
    if rng.random() < pi_prob:
        c["pi"] = rng.choice(PI_LEVELS)
    return c


def _hist_naive(rng):
    """another VALID configuration and other data for the earlier life of the object"""
    st = rng.choice(["last", "mean", "drift"])
    n0 = rng.randrange(2, 11)
    sp = rng.choice([1, 2, 3, 4])
    sp = min(sp, n0)
    if st == "last":
        wl = None
    elif st == "mean":
        wl = rng.choice([None] + list(range(max(1, sp if sp > 1 else 1), n0 + 1)))
    else:
        wl = rng.choice([None] + list(range(2, n0 + 1)))
    return {"params": {"strategy": st, "sp": sp, "wl": wl}, "y": _values(rng, n0), "origin": rng.choice(ORIGINS)}


def _hist_trend(rng):
    deg = rng.choice([0, 1, 2, 3])
    return {"params": {"degree": deg, "icpt": True if deg == 0 else rng.random() < 0.6}, "y": _values(rng, rng.randrange(2, 9)),
            "origin": rng.choice(ORIGINS)}


def _naive(rng, st, sp, wl, n, fh, nan=False, hist=0.3, other_prob=0.15, **kw):
    c = dict({"kind": "naive", "strategy": st, "sp": sp, "wl": wl, "y": _values(rng, n, nan), "origin": rng.choice(ORIGINS),
              "idx": rng.choice(["range", "range", "int"]), "fh": list(fh), "rel": rng.random() < 0.7}, **kw)
    if rng.random() < hist:
        c["hist"] = _hist_naive(rng)
    if rng.random() < 0.4:
        c["ctor"] = "pos"
    return _with_exog(rng, _with_other(rng, c, other_prob), 0.2)


def _with_hist(rng, c, prob=0.5):
    if rng.random() < prob:
        c["hist"] = _hist_trend(rng)
    if c["kind"] == "trend":
        _with_other(rng, c, 0.5)
    if c["kind"] in ("trend", "design") and rng.random() < 0.4:
        c["ctor"] = "pos"
    if c["kind"] == "trend":
        _with_exog(rng, c, 0.05)
    return c


def _with_other(rng, c, prob):
    """another object of the same class: same parameters (1/2), default parameters (1/4), other parameters (1/4)"""
    if rng.random() >= prob:
        return c
    mode = rng.choice(["same", "same", "default", "other"])
    if c["kind"] == "naive":
        if mode == "same" and c["strategy"] in ("last", "mean", "drift"):
            params = {"strategy": c["strategy"], "sp": c["sp"], "wl": c["wl"]}
            n0 = max(len(c["y"]), 2) + rng.randrange(0, 3)
            c["other"] = {"params": params, "y": _values(rng, n0), "origin": rng.choice(ORIGINS)}
        elif mode == "default":
            c["other"] = {"params": {"strategy": "last", "sp": 1, "wl": None}, "y": _values(rng, rng.randrange(2, 9)), "origin": rng.choice(ORIGINS)}
        else:
            c["other"] = _hist_naive(rng)
    elif c["kind"] == "trend":
        params = {"degree": c["degree"], "icpt": c["icpt"]} if mode == "same" else {"degree": 1, "icpt": True} if mode == "default" else _hist_trend(rng)["params"]
        c["other"] = {"params": params, "y": _values(rng, rng.randrange(2, 12)), "origin": rng.choice(ORIGINS)}
    elif c["kind"] == "adapter":
        opts = dict(c.get("opts") or {}) if mode == "same" else {} if mode == "default" else \
            ({"trend": "add", "damped_trend": True} if c["cls"] != "theta" else {"initial_level": 25.0, "sp": 1})
        sp = (opts.get("sp") or 1) if c["cls"] != "theta" else 1
        c["other"] = {"opts": opts, "y": _positive_series(rng, rng.randrange(20, 30), sp), "origin": rng.choice(ORIGINS)}
    return c


def naive_configs(nmax=14, spmax=4):
    """fixed-order small scope: every (strategy, n, sp, window_length) with n <= 14, sp <= 4, wl in {None} u 1..n"""
    for n in range(1, nmax + 1):
        for st in ("last", "mean", "drift"):
            for sp in range(1, spmax + 1):
                if st == "drift" and sp > 2:
                    continue                              # sp is ignored by drift
                wls = [None, 2] if st == "last" else [None] + list(range(1, n + 1))
                for wl in wls:
                    yield st, n, sp, wl


TRENDS = [None, "add", "mul", "additive", "multiplicative"]
SEASONALS = [None, "add", "mul", "additive", "multiplicative"]
ES_INITS = ["estimated", "heuristic", "legacy-heuristic"]


def _positive_series(rng, n, sp):
    base = rng.randrange(20, 60)
    slope = rng.choice([0, 0.25, 0.5, 1, -0.25])
    return [base + slope * i + rng.randrange(0, 9) / 4 + (3.0 * ((i % sp) == 0) if sp and sp > 1 else 0) for i in range(n)]


def _adapter_case(rng, cls, opts, sp_for_data=None, pi=None, contiguous=False):
    n = rng.randrange(20, 36)
    y = _positive_series(rng, n, sp_for_data)
    pool = list(range(-min(n - 1, 6), 13))
    fh = sorted(rng.sample(pool, rng.randrange(1, 7)))
    if contiguous:
        a = rng.choice([1, 1, 1, -3, 0, 2])
        fh = list(range(a, a + rng.randrange(2, 10)))
    c = {"kind": "adapter", "cls": cls, "opts": opts, "y": y, "origin": rng.choice(ORIGINS), "idx": rng.choice(["range", "int"]),
         "fh": fh, "rel": rng.random() < 0.7}
    if rng.random() < 0.4:
        c["ctor"] = "pos"
    _with_exog(rng, _with_other(rng, c, 0.35), 0.2, pi_prob=0.05)
    if pi is not None:
        c["pi"] = pi
    return c


def adapter_cases(thorough, rng):
    """fixed-order option product.  ExponentialSmoothing: trend x damped_trend x seasonal (all spellings) x initialisation x sp,
    + use_boxcox and known initial states; AutoETS(auto=False): error x trend x damped x seasonal x initialisation (+ maxiter);
    Theta: initial_level x sp.  Combinations statsmodels rejects (damping without trend) are kept: both sides must reject."""
    out = []
    k = 0
    for trend in TRENDS:
        for damped in (False, True):
            for seasonal in SEASONALS:
                inits = ES_INITS if thorough else [ES_INITS[(k + rng.randrange(3)) % 3]]
                for init in inits:
                    for sp in ((2, 4) if thorough and seasonal else (rng.choice([2, 3, 4]),)):
                        k += 1
                        opts = {"trend": trend, "damped_trend": damped, "seasonal": seasonal, "sp": sp if seasonal else rng.choice([None, None, sp]),
                                "initialization_method": init}
                        out.append(_adapter_case(rng, "es", opts, sp))
    for _ in range(300 if thorough else 40):                # + Box-Cox and known initial states
        trend, seasonal = rng.choice(TRENDS), rng.choice(SEASONALS)
        sp = rng.choice([2, 3, 4])
        opts = {"trend": trend, "damped_trend": bool(trend) and rng.random() < 0.5, "seasonal": seasonal, "sp": sp if seasonal else None,
                "initialization_method": rng.choice(ES_INITS)}
        r = rng.random()
        if r < 0.4:
            opts["use_boxcox"] = rng.choice([True, 0.5, False, 0.25])   # 'log' is rejected by the installed statsmodels itself
        elif r < 0.8:
            opts["initialization_method"] = "known"
            opts["initial_level"] = float(rng.randrange(20, 60))
            if trend:
                opts["initial_trend"] = 0.5 if trend in ("add", "additive") else 1.0625
            if seasonal:
                opts["initial_seasonal"] = [(0.25 * i if seasonal in ("add", "additive") else 1 + 0.0625 * i) for i in range(sp)]
        out.append(_adapter_case(rng, "es", opts, sp))
    for error in ("add", "mul"):
        for trend in (None, "add", "mul"):
            for damped in (False, True):
                for seasonal in (None, "add", "mul"):
                    for init in (("estimated", "heuristic") if thorough else (rng.choice(["estimated", "heuristic"]),)):
                        sp = rng.choice([2, 3, 4]) if seasonal else 1
                        opts = {"error": error, "trend": trend, "damped_trend": damped, "seasonal": seasonal, "sp": sp,
                                "initialization_method": init}
                        if rng.random() < 0.3:
                            opts["maxiter"] = rng.choice([50, 200])
                        out.append(_adapter_case(rng, "ets", opts, sp))
    # Theta: initial_level x sp x deseasonalize x (plain / with prediction intervals), contiguous and scattered horizons
    for lvl in (None, 0.0, 30.0, 45.5):
        for sp in ((1, 2, 3, 4) if thorough else (1, rng.choice([2, 3, 4, 4]))):
            for des in (False, True):
                for pi in (None, rng.choice(PI_LEVELS)):
                    for rep in range(3 if thorough else 1):
                        c = _adapter_case(rng, "theta", {"initial_level": lvl, "sp": sp, "deseasonalize": des}, sp,
                                          pi=pi, contiguous=(rep != 1 and rng.random() < 0.75))
                        if pi is None:
                            c.pop("pi", None)
                        out.append(c)
    return out


def gen_cases(tier, rng):
    thorough = tier == "thorough"
    cases = [{"kind": "scan", "file": f} for f in SCAN_FILES]
    # 1. small scope: all configs x (full horizon, every single step, random subsets) x (no NaN, NaN)
    k = 0
    rot = rng.randrange(24)
    for st, n, sp, wl in naive_configs():
        k += 1
        if not thorough and (k + rot) % 12 != 0:
            continue
        fhs = [UNIVERSE] + [[h] for h in UNIVERSE]
        for _ in range(6 if thorough else 4):
            fhs.append(sorted(rng.sample(UNIVERSE, rng.randrange(2, 8))))
        for fh in fhs:
            cases.append(_naive(rng, st, sp, wl, n, fh, nan=False))
            if (thorough and len(fh) > 1) or rng.random() < 0.5:
                cases.append(_naive(rng, st, sp, wl, n, fh, nan=True))
    # 2. every non-empty subset of {-3..9} for a few configurations
    subsets_cfgs = [("last", 3, None, 7), ("mean", 3, 7, 8), ("drift", 1, 4, 6)]
    allsub = [list(s) for r in range(1, len(UNIVERSE) + 1) for s in itertools.combinations(UNIVERSE, r)]
    for ci, (st, sp, wl, n) in enumerate(subsets_cfgs):
        for si, fh in enumerate(allsub):
            if not thorough and (si + rot + ci) % 32 != 0:
                continue
            if thorough and st == "drift" and (si + rot) % 2 != 0:
                continue
            cases.append(_naive(rng, st, sp, wl, n, fh, nan=rng.random() < 0.2, hist=0.15, other_prob=0.08))
    # 3. structured random, larger
    for _ in range(4000 if thorough else 700):
        st = rng.choice(["last", "mean", "mean", "drift"])
        n = rng.choice([rng.randrange(1, 15), rng.randrange(15, 60)])
        sp = rng.choice([1, rng.randrange(2, 13)])
        if st == "last":
            sp = min(sp, n)
            wl = None
        else:
            lo = 2 if st == "drift" else max(1, sp if sp > 1 else 1)
            wl = None if rng.random() < 0.25 or lo > n else rng.randrange(lo, n + 1)
            if st == "mean" and wl is not None and sp > 1 and rng.random() < 0.4:
                wl = max(sp, (wl // sp) * sp)             # multiples of the period, too
        hi = 3 * sp + 5
        pool = list(range(-min(n + 1, 8), hi + 1))
        fh = sorted(rng.sample(pool, rng.randrange(1, min(len(pool), 9))))
        if rng.random() < 0.5:
            fh = [h for h in fh if h > 0] or [rng.randrange(1, hi + 1)]
        cases.append(_naive(rng, st, sp, wl, n, fh, nan=rng.random() < 0.3))
    # 4. malformed stream (the model must raise where the code raises)
    for _ in range(400 if thorough else 60):
        n = rng.randrange(0, 9)
        st = rng.choice(["last", "mean", "drift", "median", "naive"])
        sp = rng.choice([0, -1, 1, 2, 3, n + 1, n + 2])
        wl = rng.choice([None, 0, -2, 1, 2, n, n + 1, n + 3])
        fh = rng.choice([[], [1, 1], [2, 1, 2], [1], [-1, 2], [3, 1]])
        cases.append(_naive(rng, st, sp, wl, n, fh, nan=rng.random() < 0.2))
    # 5. polynomial trend: values (all degrees through the oracle; degree <= 1 through the model as well)
    for n in range(1, 15):
        for deg in (0, 1, 2, 3):
            for icpt in (True, False):
                reps = 6 if thorough else 1
                for _ in range(reps):
                    fh = UNIVERSE if rng.random() < 0.4 else sorted(rng.sample(UNIVERSE, rng.randrange(1, 7)))
                    cases.append(_with_hist(rng, {"kind": "trend", "degree": deg, "icpt": icpt, "y": _values(rng, n, nan=rng.random() < 0.05),
                                                  "origin": rng.choice(ORIGINS), "idx": rng.choice(["range", "int"]), "fh": list(fh),
                                                  "rel": rng.random() < 0.7}))
    for _ in range(1500 if thorough else 300):
        n = rng.randrange(2, 50)
        deg = rng.choice([0, 1, 1, 1, 2, 3, 4])
        fh = sorted(rng.sample(range(-min(n + 2, 10), 20), rng.randrange(1, 8)))
        cases.append(_with_hist(rng, {"kind": "trend", "degree": deg, "icpt": rng.random() < 0.7, "y": _values(rng, n), "origin": rng.choice(ORIGINS),
                                      "idx": rng.choice(["range", "int"]), "fh": fh, "rel": rng.random() < 0.7}))
    # 6. design matrices handed to the regressor
    for n in range(1, 15):
        for deg in range(0, 6):
            for icpt in (True, False):
                if not thorough and (n + deg + rot) % 3 != 0:
                    continue
                fh = sorted(rng.sample(UNIVERSE, rng.randrange(1, 7)))
                cases.append(_with_hist(rng, {"kind": "design", "degree": deg, "icpt": icpt, "n": n, "origin": rng.choice(ORIGINS), "fh": fh,
                                              "rel": rng.random() < 0.7}))
    cases.append({"kind": "design", "degree": 2, "icpt": True, "n": 4, "origin": 0, "fh": [], "rel": True})
    cases.append({"kind": "design", "degree": 2, "icpt": True, "n": 4, "origin": 0, "fh": [1, 1], "rel": True})
    # 7. statsmodels-backed forecasters: option product, against the statsmodels model built directly with the same options
    cases.extend(adapter_cases(thorough, rng))
    return cases


def shrink(c):
    if c.get("X") is not None and (c.get("hist") or c.get("other") or c.get("ctor") or c.get("pi") is not None):
        yield {k: v for k, v in c.items() if k not in ("hist", "other", "ctor", "pi")}
    if c.get("pi") is not None and (c.get("X") is not None or c.get("other") or c.get("ctor")):
        yield {k: v for k, v in c.items() if k not in ("X", "Xp", "other", "ctor")}
    if c.get("X") is not None:
        if c.get("Xp"):
            yield {k: v for k, v in c.items() if k != "Xp"}
        if c["X"] and len(c["X"]) == len(c["y"]) and len(c["X"][0]) > 1:
            yield dict(c, X=[r[:1] for r in c["X"]])
    if c.get("ctor") == "pos" and (c.get("hist") or c.get("other")):
        yield {k: v for k, v in c.items() if k not in ("hist", "other")}
    if c.get("other") and c.get("hist"):
        yield {k: v for k, v in c.items() if k != "hist"}
    if c.get("hist"):
        yield {k: v for k, v in c.items() if k != "hist"}
        hy = c["hist"]["y"]
        if len(hy) > 2:
            yield dict(c, hist=dict(c["hist"], y=hy[:-1]))
    if c["kind"] in ("naive", "trend", "adapter"):
        fh = c["fh"]
        for i in range(len(fh)):
            if len(fh) > 1:
                yield dict(c, fh=fh[:i] + fh[i + 1:])
        if c["origin"] != 0:
            yield dict(c, origin=0)
        if c.get("idx") == "int":
            yield dict(c, idx="range")
        if not c["rel"]:
            yield dict(c, rel=True)
        y = c["y"]
        if c["kind"] != "adapter":
            if len(y) > 1:
                yield dict(c, y=y[1:], **({"X": c["X"][1:]} if c.get("X") is not None and len(c["X"]) == len(y) else {}))
            for i, v in enumerate(y):
                if v is not None and v != float(i):
                    yield dict(c, y=y[:i] + [float(i)] + y[i + 1:])
    elif c["kind"] == "design":
        fh = c["fh"]
        for i in range(len(fh)):
            if len(fh) > 1:
                yield dict(c, fh=fh[:i] + fh[i + 1:])
        if c["n"] > 1:
            yield dict(c, n=c["n"] - 1)
