"""C05 correspondence + oracle: reduction of forecasting to regression
(sktime/forecasting/compose/_reduce.py, window-forecaster parts of sktime/forecasting/base/_sktime.py).

The wrapped regressor is a *recording regressor* defined here: every clone records the arguments of
`fit(X, y)` and `predict(X)` verbatim (copies of the arrays) into a log shared through a registry id
and returns a deterministic position-sensitive hash of (training data, input instance), so that a
mis-routed value changes every later observation.

case (op = "run"):
  {"op": "run", "strategy": direct|recursive|multioutput|dirrec,
   "reg": tab|ts|tsmix          recording class (sklearn RegressorMixin | sktime BaseRegressor | both)
   "scitype": infer|tab|ts      what is passed to make_reduction
   "wl": int | "none" | "float" | "bool" | "str" | "np<int>",
   "fh": [int] | None, "fhp": [int] | None      horizon given to fit / to predict (relative steps)
   "t0": int                    first index label (contiguous RangeIndex)
   "y": [v], "X": None | [[v]*ncols]*n          v = int | "nan" | "inf" | "-inf"
   "upd": "no" | "upd"|"refit" (update, update_params False/True) | "up"|"uprefit" (update_predict),
   "u0": first label of the batch (t0 <= u0 <= t0+n: re-states stored observations and/or continues them;
         default t0+n), "uy": [v], "uX": None | rows
   "dtype": float64|float32|int64|int32 dtype of y, "xdtype": same for X (values are integer-valued)
   "layout": contig|stride2|dfcol|revrev memory layout of y (and of the update block),
   "xlayout": contig|fortran|stride2|widecols memory layout of X (fit, update, predict); also on op = "swt"
   "Xp": None | rows}           X passed to predict
case (op = "swt"): {"op": "swt", "sci": tab|ts, "wl": ..., "fh": [int], "y": [v], "X": None|rows}
   calls `_sliding_window_transform` directly.
"""
import itertools
import numpy as np, pandas as pd
from common import canon_err

PROP = "C05"
LEAN_MODULE = "SkVerif.Props.C05"
OBLIGATIONS = [
    "SkVerif.C05.swt_rows_eq_spec",
    "SkVerif.C05.swt_row_count",
    "SkVerif.C05.swt_no_future",
    "SkVerif.C05.swt_no_padding_leak",
    "SkVerif.C05.swt_rejects_short_series",
    "SkVerif.C05.fit_rejects_short_series",
    "SkVerif.C05.tabular_layout_consistent",
    "SkVerif.C05.direct_predict_uses_last_window",
    "SkVerif.C05.multioutput_predict_uses_last_window",
    "SkVerif.C05.recursive_feedback_eq_spec",
    "SkVerif.C05.recForecast_length",
    "SkVerif.C05.dirrec_feedback_matches_training_layout",
    "SkVerif.C05.returned_step_h_is_output_h",
    "SkVerif.C05.update_extends_observed_series",
    "SkVerif.C05.update_refit_eq_fit",
    "SkVerif.C05.predict_ignores_data_after_cutoff",
    "SkVerif.C05.update_predict_restores_cutoff",
    "SkVerif.C05.predict_op_keeps_state",
    "SkVerif.C05.construction_path_irrelevant",
    "SkVerif.C05.deprecated_factories_refuse_step",
    "SkVerif.C05.horizon_order_irrelevant",
]
TRUSTED = [
    "hand-written model SkVerif/Model/Reduce.lean of _reduce.py and of the window-forecaster base-class parts it uses "
    "(faithful to the extent the correspondence exercises it: every observable = every argument every regressor clone received, "
    "every value it returned, the forecast labels and values, the error kind and the stage it was raised in)",
    "SkVerif/Spec/Reduce.lean as the reading of the property text (rows = z[r..r+wl) per variable, target = y[r+wl+h-1], "
    "recursive feedback, dirrec row = window ++ earlier steps)",
    "recording regressors defined in harness/corr/C05.py (copy arguments, return a position-sensitive polynomial hash mod 2^31-1; "
    "the Lean driver evaluates the same hash, the theorems hold for arbitrary regressors)",
    "skcompat.patch_reduce: numpy<1.25 semantics of `y_pred[i] = array([v])` inside _reduce.py",
]
ASSUMPTIONS = [
    "relative integer horizons and a contiguous integer (RangeIndex) time index; absolute / datetime / period horizons and gapped indices are C02/C03 territory",
    "update blocks are contiguous and start inside or directly after the stored labels (re-stating and/or continuing them, never leaving a gap) "
    "and carry X exactly when fit did; update_predict is exercised with its default splitter, without exogenous data (the driver refuses other shapes); "
    "the frame returned by update_predict is not modelled, only the regressor calls it makes and the state it leaves behind",
    "y and X are stored as float64, float32, int64 or int32 (integer-valued data); the recording regressor returns half-integers so that a "
    "feedback buffer of integer or float32 dtype would visibly alter an earlier prediction",
    "hist cases: the generator (not the driver) keeps update blocks inside the domain above; a scheduled regressor failure is a RuntimeError raised "
    "by one predict call (failures inside regressor.fit are not modelled); after an update that fails half-way (refit without a horizon: the data is "
    "merged and the cutoff moved before the error) the model follows the code's ordering and the oracle stops judging",
    "a regressor is a deterministic function of (training X, training y, instance); a multi-output regressor returns one output per target column",
    "theorems are stated for finite last windows (the code forecasts NaN otherwise: modelled and compared, not a property clause) and for the "
    "horizon in the increasing order in which ForecastingHorizon stores it (horizon_order_irrelevant covers permutations)",
    "non-finite floats only as tokens nan/inf/-inf; floating-point rounding is not involved (values are moved, never computed on)",
]
RULE = ("exhaustive small scope in fixed order: n in 1..12 x window_length 1..4 x every non-empty fh subset of {1..4} x 4 strategies x 2 scitypes x "
        "with/without 2 exogenous columns, plus the transform alone over the same scope with 0/1/2 columns (quick: seed-rotated 1/4 resp. 1/3 slice, "
        "thorough: all); structured random (n up to 200, window up to 14, gapped/contiguous/permuted horizons up to step 8, 0-3 exogenous columns, "
        "histories fit -> [update with a continuing OR late/re-stated block that may end before the stored data | update_predict over new or "
        "overlapping data], each with and without refit -> predict; y/X dtypes float64/float32/int64/int32; horizon given at fit and/or predict, "
        "NaN/inf/duplicate values, np.int64 window); malformed stream (bad window, bad / "
        "in-sample / duplicate / empty / missing horizon, different horizon at predict, empty and too-short series around the bound, dirrec with X, "
        "missing / broadcastable / mis-shaped future X, refit without horizon); horizons with two- and three-digit steps (1..12, [2,10], [3,11,25], "
        "[1,10,100], random subsets of 1..26) for every strategy/scitype; value magnitudes (level 1e3..1e9 with increments of 0/1, constant and "
        "near-constant series, the same scaled by an exact power of two down to ~1e-8) with a second recording regressor whose output stays next "
        "to its input; every public construction path (make_reduction, the eight strategy "
        "classes with step_length 1..5, the deprecated ReducedForecaster / ReducedRegressionForecaster) on all of the above; histories (op=hist) in "
        "which operations are refused or fail and are FOLLOWED by further operations: update_predict with X / too short or empty data / without a "
        "horizon / with a recording regressor that raises on its k-th predict call in the middle of the moving-cutoff loop, predict with a refused, "
        "in-sample, duplicate or new horizon, update with an empty batch + X or a refit without horizon, bad step_length; corpus. Distinct by driver line; non-trivial = no error and at least one "
        "regressor.predict call was recorded")
LEVEL_TEXT = ("Lean 4 theorems, for all series, window lengths, out-of-sample horizons (contiguous or gapped), exogenous column counts, both scitypes and "
              "ALL regressors (arbitrary functions), about an executable model of _reduce.py that follows the code's algorithm (zero-padded cube, slice, "
              "target/lag read-out, tabular reshape, the four _fit bodies, _get_last_window, the four _predict_last_window loops with array mutation): "
              "the model's end-to-end behaviour `fit; predict` EQUALS an independently written specification, for each of the four strategies "
              "(training rows = every full lagged window once, targets exactly h steps after the window, no dependence on the future or on the padding, "
              "prediction input = last window in the training layout, recursive/dirrec feedback of earlier outputs, returned step h = output for step h, "
              "too-short series rejected). The model is tied to /repo's current source by a differential correspondence on every run: recording "
              "regressors capture every fit/predict argument verbatim and the model must reproduce all of them, the forecasts and the error kinds.")
LEVEL_NOTE = ("Proved for the model: all twenty-one obligations, no size bounds (incl.: prediction never reads data stored after the cutoff, "
              "update_predict restores the cutoff whether it returns or raises, a predict operation never changes data/cutoff/clones, every public "
              "construction path builds the same forecaster). Only observed by correspondence (not proved): that the Python code computes "
              "what the model computes; error kinds of malformed inputs other than the too-short series; numpy broadcasting of a one-row future X; "
              "the NaN forecast for a non-finite last window; scitype inference. Not covered: absolute/datetime horizons, gapped indices, update batches "
              "that overlap or leave gaps, in-sample forecasts (the code raises NotImplementedError), prediction intervals. Trusted: Lean kernel, "
              "propext/Classical.choice/Quot.sound, harness + compat layer, the spec as a reading of the property text.")
TECHNIQUE = ("Lean 4 proof (list algebra over the index arithmetic of the padded cube, loop invariants for the two feedback loops, refinement of "
             "`run` against a specification) + differential correspondence with recording regressors")

STRATEGIES = ["direct", "recursive", "multioutput", "dirrec"]
P = 2147483647

# ----------------------------------------------------------------------------- recording regressors
_LOGS = {}          # log id -> list of records
_FAIL = {}          # log id -> [k, attempts]: the regressor raises on its (k+1)-th predict call (once)
_NEXT = [0]
_SC = [1.0]         # power-of-two factor applied to every value handed to sktime (exact), removed again when observations are printed


def _new_log():
    _NEXT[0] += 1
    _LOGS[_NEXT[0]] = []
    return _NEXT[0]


def _enc(v):
    v = float(v) / _SC[0]
    if v != v:
        return 999983
    if v == float("inf"):
        return 999979
    if v == float("-inf"):
        return 999961
    if v * 2 == int(v * 2):
        return int(v * 2)          # half-integers: the Lean driver holds the doubled numerator
    return int(v * 4096) + 5


def _hl(acc, xs):
    for x in xs:
        acc = (acc * 1000003 + _enc(x) + 12345) % P
    return acc


def _hi(acc, inst):
    """inst: list of variables (each a list of values)"""
    for var in inst:
        acc = _hl((acc * 31 + 7) % P, var)
    return acc


def _insts(X):
    """np array (rows, cols) or (rows, nvars, ntime) -> list of instances (list of variable lists)"""
    X = np.asarray(X, dtype=float)
    if X.ndim == 2:
        return [[row.tolist()] for row in X]
    if X.ndim == 3:
        return [[var.tolist() for var in inst] for inst in X]
    raise ValueError("recording regressor: X.ndim = %d" % X.ndim)


class _RecMixin:
    def _rec_fit(self, X, y):
        log = _LOGS[self.log_id]
        Xc = np.array(X, dtype=float, copy=True)
        yc = np.array(y, dtype=float, copy=True)
        self.fit_id_ = sum(1 for r in log if r[0] == "fit")
        log.append(("fit", Xc, yc))
        s = 17
        for inst in _insts(Xc):
            s = _hi(s, inst)
        if yc.ndim == 1:
            self.k_ = None
            self.sig_ = _hl((s * 131 + 1) % P, yc.tolist())
        else:
            self.k_ = yc.shape[1]
            a = (s * 131 + 2) % P
            for row in yc.tolist():
                a = _hl((a * 37 + 3) % P, row)
            self.sig_ = a
        return self

    def _rec_predict(self, X):
        log = _LOGS[self.log_id]
        fl = _FAIL.get(self.log_id)
        if fl is not None:
            fl[1] += 1
            if fl[1] == fl[0] + 1:
                raise RuntimeError("recording regressor: scheduled failure")     # not recorded
        Xc = np.array(X, dtype=float, copy=True)
        insts = _insts(Xc)
        sc = _SC[0]
        if getattr(self, "mode", "hash") == "drift":
            # stays next to the data it is fed: last entry of the instance + 1/2 (+ j for output j)
            lastv = [float(np.asarray(Xc[i]).ravel()[-1]) for i in range(len(insts))]
            if self.k_ is None:
                out = np.array([v + 0.5 * sc for v in lastv])
            else:
                out = np.array([[v + (0.5 + j) * sc for j in range(self.k_)] for v in lastv])
        elif self.k_ is None:
            out = np.array([(float(_hi(self.sig_, inst)) + 0.5) * sc for inst in insts])
        else:
            out = np.array([[(float(_hi((self.sig_ + 1 + j) % P, inst)) + 0.5) * sc for j in range(self.k_)] for inst in insts])
        log.append(("predict", self.fit_id_, Xc, out.copy()))
        return out


def _make_classes():
    from sklearn.base import BaseEstimator, RegressorMixin
    from sktime.regression.base import BaseRegressor

    class RecTab(_RecMixin, RegressorMixin, BaseEstimator):
        def __init__(self, log_id=0, mode="hash"):
            self.log_id = log_id
            self.mode = mode

        def fit(self, X, y):
            return self._rec_fit(X, y)

        def predict(self, X):
            return self._rec_predict(X)

    class RecTS(_RecMixin, BaseRegressor):
        def __init__(self, log_id=0, mode="hash"):
            self.log_id = log_id
            self.mode = mode
            super().__init__()

        def fit(self, X, y):
            self._is_fitted = True
            return self._rec_fit(X, y)

        def predict(self, X):
            return self._rec_predict(X)

    class RecTSMix(_RecMixin, BaseRegressor, RegressorMixin):
        def __init__(self, log_id=0, mode="hash"):
            self.log_id = log_id
            self.mode = mode
            super().__init__()

        def fit(self, X, y):
            self._is_fitted = True
            return self._rec_fit(X, y)

        def predict(self, X):
            return self._rec_predict(X)

    return {"tab": RecTab, "ts": RecTS, "tsmix": RecTSMix}


_CLASSES = None


def _classes():
    global _CLASSES
    if _CLASSES is None:
        _CLASSES = _make_classes()
    return _CLASSES


# ----------------------------------------------------------------------------- canonical text
def _sv(v):
    if isinstance(v, str):
        return v
    v = float(v)
    if v != v:
        return "nan"
    if v == float("inf"):
        return "inf"
    if v == float("-inf"):
        return "-inf"
    if v == int(v):
        return str(int(v))
    return repr(v)


def _svals(l):
    l = list(l)
    return "-" if not l else ",".join(_sv(v) for v in l)


def _srows(rows):
    rows = list(rows)
    return "-" if not rows else ";".join(_svals(r) for r in rows)


def _sX(X):
    """tagged text of a recorded X array"""
    X = np.asarray(X) / _SC[0]
    if X.ndim == 2:
        return "2d:" + ("-" if X.shape[0] == 0 else ";".join(_svals(r) for r in X))
    if X.ndim == 3:
        return "3d:" + ("-" if X.shape[0] == 0 else ";".join(
            ("-" if inst.shape[0] == 0 else "|".join(_svals(var) for var in inst)) for inst in X))
    return "%dd:?" % X.ndim


def _sy(y):
    y = np.asarray(y) / _SC[0]
    if y.ndim == 1:
        return "v:" + _svals(y)
    if y.ndim == 2:
        return "m:" + _srows(y)
    return "%dd:?" % y.ndim


def _scall(r):
    if r[0] == "fit":
        return "F:%s:%s" % (_sX(r[1]), _sy(r[2]))
    return "P%d:%s>%s" % (r[1], _sX(r[2]), _svals(np.asarray(r[3]).ravel() / _SC[0]))


def _fv(v):
    return {"nan": float("nan"), "inf": float("inf"), "-inf": float("-inf")}[v] if isinstance(v, str) else float(v) * _SC[0]


YLAYOUTS = ["contig", "stride2", "dfcol", "revrev"]
XLAYOUTS = ["contig", "fortran", "stride2", "widecols"]
_JUNK = 9000000.0        # what sits in the neighbouring memory cells of a non-contiguous series


def _lay1(arr, layout):
    """1-d array with the given values and memory layout (a view that is NOT a fresh contiguous array)"""
    n = len(arr)
    if layout == "stride2":
        buf = np.full(2 * n, _JUNK, dtype=arr.dtype)
        buf[::2] = arr
        return buf[::2]
    if layout == "revrev":
        return arr[::-1].copy()[::-1]                   # negative stride
    return arr


def _lay2(arr, layout):
    n, nc = arr.shape
    if layout == "fortran":
        return np.asfortranarray(arr)
    if layout == "stride2":
        buf = np.full((2 * n, nc), _JUNK, dtype=arr.dtype)
        buf[::2] = arr
        return buf[::2]
    if layout == "widecols":
        buf = np.full((n, 2 * nc + 1), _JUNK, dtype=arr.dtype)
        buf[:, 1::2] = arr
        return buf[:, 1::2]
    return np.ascontiguousarray(arr)


def _series(vals, t0, dtype="float64", layout="contig"):
    arr = np.array([_fv(v) for v in vals], dtype="float64").astype(dtype)
    idx = pd.RangeIndex(t0, t0 + len(vals))
    if layout == "dfcol":
        # a column of a data frame built from a row-major 2-d array
        table = np.full((len(arr), 3), _JUNK, dtype=arr.dtype)
        table[:, 1] = arr
        col = pd.DataFrame(table, index=idx, columns=["a", "y", "b"], copy=False)["y"]
        col.name = None                    # (.rename would copy into contiguous memory)
        return col
    return pd.Series(_lay1(arr, layout), index=idx, copy=False)


def _frame(rows, t0, ncols=None, dtype="float64", layout="contig"):
    if rows is None:
        return None
    nc = len(rows[0]) if rows else (ncols or 0)
    arr = np.array([[_fv(v) for v in r] for r in rows], dtype="float64").reshape(len(rows), nc).astype(dtype)
    return pd.DataFrame(_lay2(arr, layout), index=pd.RangeIndex(t0, t0 + len(rows)), columns=["x%d" % i for i in range(nc)], copy=False)


_LAYOUT_OK = [False]


def _layout_selftest():
    """harness sanity (not part of any verdict): the layouts above really reach sktime as non-contiguous memory"""
    if _LAYOUT_OK[0]:
        return
    vals = [1, 2, 3, 4, 5, 6]
    for lay in YLAYOUTS[1:]:
        a = _series(vals, 0, "float64", lay).to_numpy()
        if a.strides == (8,) or a.tolist() != [float(v) for v in vals]:
            raise RuntimeError("harness: y layout %s is not preserved by pandas (strides %r)" % (lay, a.strides))
    rows = [[1, 2], [3, 4], [5, 6]]
    for lay in XLAYOUTS[1:]:
        a = _frame(rows, 0, dtype="float64", layout=lay).to_numpy()
        if a.flags.c_contiguous or a.tolist() != [[1.0, 2.0], [3.0, 4.0], [5.0, 6.0]]:
            raise RuntimeError("harness: X layout %s is not preserved by pandas" % lay)
    _LAYOUT_OK[0] = True


def _u0(c):
    u = c.get("u0")
    return c["t0"] + len(c["y"]) if u is None else u


def _wl_value(w):
    if isinstance(w, int):
        return w
    if w == "none":
        return None
    if w == "float":
        return 2.0
    if w == "bool":
        return True
    if w == "str":
        return "3"
    if isinstance(w, str) and w.startswith("np"):
        return np.int64(int(w[2:]))
    raise ValueError(w)


def _wl_tok(w):
    if isinstance(w, int):
        return str(w)
    if w == "none":
        return "none"
    if w in ("float", "bool", "str"):
        return "nonint"
    return w[2:]


def _sci_expected(c):
    """scitype the forecaster must use: explicit, or inferred (BaseRegressor first, then RegressorMixin)"""
    if c["scitype"] != "infer":
        return c["scitype"]
    return "tab" if c["reg"] == "tab" else "ts"


def _fh_tok(fh):
    return "none" if fh is None else ("-" if not fh else ",".join(str(int(h)) for h in fh))


def _rows_tok(rows):
    return "none" if rows is None else _srows(rows)


def to_line(c):
    if c["op"] == "swt":
        return "C05 swt %s %s %s %s %s" % (c["sci"], _wl_tok(c["wl"]), _fh_tok(sorted(c["fh"])), _svals(c["y"]), _rows_tok(c["X"]))
    if c["op"] == "hist":
        ops = []
        for o in c["ops"]:
            if o["k"] == "U":
                ops.append("U@%d@%s@%s@%s" % (o["u0"], _svals(o["uy"]), _rows_tok(o["uX"]), "T" if o["refit"] else "F"))
            elif o["k"] == "W":
                ops.append("W@%d@%s@%s@%s" % (o["u0"], _svals(o["uy"]), _rows_tok(o["Xup"]), "T" if o["refit"] else "F"))
            else:
                ops.append("P@%s@%s" % (_fh_tok(o["fh"]), _rows_tok(o["Xp"])))
        via = c.get("via", "make")
        return "C05 hist %s %s %d %s %s %s %s %d %s %s %s %s" % (
            c.get("mode", "hash"), via, c.get("step", 1), c["strategy"], _sci_expected(c), _wl_tok(c["wl"]), _fh_tok(c["fh"]), c["t0"],
            _svals(c["y"]), _rows_tok(c["X"]), "none" if c.get("fail") is None else str(c["fail"]), " ".join(ops))
    return "C05 run %s %s %s %s %s %s %d %s %s %s %d %s %s %s" % (
        c.get("mode", "hash"), c["strategy"], _sci_expected(c), _wl_tok(c["wl"]), _fh_tok(c["fh"]), _fh_tok(c["fhp"]), c["t0"],
        _svals(c["y"]), _rows_tok(c["X"]), c["upd"], _u0(c), _svals(c["uy"]), _rows_tok(c["uX"]), _rows_tok(c["Xp"]))


# ----------------------------------------------------------------------------- real code
_SCI_NAME = {"tab": "tabular-regressor", "ts": "time-series-regressor", "infer": "infer"}


_CLS = {("direct", "tab"): "DirectTabularRegressionForecaster", ("direct", "ts"): "DirectTimeSeriesRegressionForecaster",
        ("recursive", "tab"): "RecursiveTabularRegressionForecaster", ("recursive", "ts"): "RecursiveTimeSeriesRegressionForecaster",
        ("multioutput", "tab"): "MultioutputTabularRegressionForecaster", ("multioutput", "ts"): "MultioutputTimeSeriesRegressionForecaster",
        ("dirrec", "tab"): "DirRecTabularRegressionForecaster", ("dirrec", "ts"): "DirRecTimeSeriesRegressionForecaster"}
VIAS = ["make", "cls", "rf", "rrf"]


def _construct(c, reg):
    """build the reducer through the public construction path named by c['via']"""
    import sktime.forecasting.compose as comp
    import sktime.forecasting.compose._reduce as red
    via = c.get("via", "make")
    wl = _wl_value(c["wl"])
    step = c.get("step", 1)
    if via == "make":
        return comp.make_reduction(reg, strategy=c["strategy"], window_length=wl, scitype=_SCI_NAME[c["scitype"]])
    if via == "cls":
        return getattr(comp, _CLS[(c["strategy"], _sci_expected(c))])(estimator=reg, window_length=wl, step_length=step)
    if via == "rf":
        return comp.ReducedForecaster(reg, scitype=_SCI_NAME[c["scitype"]], strategy=c["strategy"], window_length=wl, step_length=step)
    if via == "rrf":
        return red.ReducedRegressionForecaster(reg, _SCI_NAME[c["scitype"]], strategy=c["strategy"], window_length=wl, step_length=step)
    raise ValueError(via)


def _sfc(yp):
    return "-" if len(yp) == 0 else ",".join("%d:%s" % (int(l), _sv(v / _SC[0])) for l, v in zip(yp.index, yp.values))


def run_real(c):
    _layout_selftest()
    _SC[0] = 2.0 ** (-c.get("scale2", 0))
    try:
        return _run_real(c)
    finally:
        _SC[0] = 1.0


def _run_real(c):
    if c["op"] == "swt":
        return _run_swt(c)
    lid = _new_log()
    log = _LOGS[lid]
    dt, xdt = c.get("dtype", "float64"), c.get("xdtype", "float64")
    lay, xlay = c.get("layout", "contig"), c.get("xlayout", "contig")
    ncx = len(c["X"][0]) if c["X"] else None
    stage = "fit"
    try:
        reg = _classes()[c["reg"]](log_id=lid, mode=c.get("mode", "hash"))
        n = len(c["y"])
        y = _series(c["y"], c["t0"], dt, lay)
        X = _frame(c["X"], c["t0"], dtype=xdt, layout=xlay)
        f = _construct(c, reg)
        f.fit(y, X, fh=None if c["fh"] is None else list(c["fh"]))
        if c["op"] == "hist":
            if c.get("fail") is not None:
                _FAIL[lid] = [c["fail"], 0]
            outs = []
            for o in c["ops"]:
                try:
                    if o["k"] == "U":
                        f.update(_series(o["uy"], o["u0"], dt, lay), _frame(o["uX"], o["u0"], ncols=ncx, dtype=xdt, layout=xlay),
                                 update_params=o["refit"])
                        outs.append("ok")
                    elif o["k"] == "W":
                        f.update_predict(_series(o["uy"], o["u0"], dt, lay), X=_frame(o["Xup"], o["u0"], dtype=xdt, layout=xlay),
                                         update_params=o["refit"])
                        outs.append("ok")
                    else:
                        yp = f.predict(None if o["fh"] is None else list(o["fh"]),
                                       X=_frame(o["Xp"], int(f.cutoff) + 1, dtype=xdt, layout=xlay))
                        outs.append(_sfc(yp))
                except Exception as e:
                    outs.append(canon_err(e))
            res = "-" if not outs else "|".join(outs)
        else:
            if c["upd"] != "no":
                stage = "update"
                uy = _series(c["uy"], _u0(c), dt, lay)
                uX = _frame(c["uX"], _u0(c), ncols=ncx, dtype=xdt, layout=xlay)
                if c["upd"] in ("up", "uprefit"):
                    f.update_predict(uy, update_params=(c["upd"] == "uprefit"))
                else:
                    f.update(uy, uX, update_params=(c["upd"] == "refit"))
            stage = "predict"
            Xp = _frame(c["Xp"], int(f.cutoff) + 1, dtype=xdt, layout=xlay)
            res = _sfc(f.predict(None if c["fhp"] is None else list(c["fhp"]), X=Xp))
    except Exception as e:
        res = "%s@%s" % (canon_err(e), stage)
    calls = "-" if not log else "/".join(_scall(r) for r in log)
    del _LOGS[lid]
    _FAIL.pop(lid, None)
    return "calls=%s res=%s" % (calls, res)


def _run_swt(c):
    from sktime.forecasting.compose._reduce import _sliding_window_transform
    from sktime.forecasting.base import ForecastingHorizon
    try:
        y = _series(c["y"], 0, c.get("dtype", "float64"), c.get("layout", "contig"))
        X = _frame(c["X"], 0, dtype=c.get("xdtype", "float64"), layout=c.get("xlayout", "contig"))
        fh = ForecastingHorizon(list(c["fh"]), is_relative=True)
        yt, Xt = _sliding_window_transform(y, _wl_value(c["wl"]), fh, X, scitype=_SCI_NAME[c["sci"]])
        return "yt=%s Xt=%s" % (_srows(np.asarray(yt) / _SC[0]), _sX(Xt))
    except Exception as e:
        return canon_err(e)


# ----------------------------------------------------------------------------- parsing observations
def _pvals(s):
    return [] if s == "-" else s.split(",")


def _pinsts(s):
    """'<tag>:<insts>' already split: returns list of instances (list of variable lists of value tokens)"""
    if s == "-":
        return []
    return [[_pvals(var) for var in inst.split("|")] for inst in s.split(";")]


def _parse_calls(s):
    calls = []
    if s == "-":
        return calls
    for tok in s.split("/"):
        parts = tok.split(":")
        if parts[0] == "F":
            tag, insts, kind, tgt = parts[1], parts[2], parts[3], parts[4]
            if kind == "v":
                y = ("v", _pvals(tgt))
            else:
                y = ("m", [] if tgt == "-" else [_pvals(r) for r in tgt.split(";")])
            calls.append({"k": "fit", "tag": tag, "X": _pinsts(insts), "y": y})
        else:
            est = int(parts[0][1:])
            inst, outs = parts[2].split(">")
            calls.append({"k": "predict", "est": est, "tag": parts[1], "X": _pinsts(inst), "out": _pvals(outs)})
    return calls


def _pfc(r):
    res = []
    if r != "-":
        for tok in r.split(","):
            l, v = tok.split(":")
            res.append((int(l), v))
    return res


def _parse_run(out):
    a, b = out.split(" ")
    calls = _parse_calls(a[len("calls="):])
    r = b[len("res="):]
    if r.startswith("E:"):
        kind, stage = r.split("@")
        return calls, {"err": kind, "stage": stage}
    return calls, {"ok": _pfc(r)}


def _parse_hist(out):
    """-> calls, fit error or None, list of per-operation results ('ok' | ('err', kind) | ('fc', pairs))"""
    a, b = out.split(" ")
    calls = _parse_calls(a[len("calls="):])
    r = b[len("res="):]
    if r.endswith("@fit"):
        return calls, r[:-4], []
    res = []
    if r != "-":
        for tok in r.split("|"):
            if tok == "ok":
                res.append("ok")
            elif tok.startswith("E:"):
                res.append(("err", tok))
            else:
                res.append(("fc", _pfc(tok)))
    return calls, None, res


# ----------------------------------------------------------------------------- the property, stated on observations
def _tok(v):
    return _sv(v)


def _z(y, X):
    """time-major table of value tokens: z[t] = [y[t], X[t][0], ...]"""
    return [[_tok(y[t])] + ([_tok(v) for v in X[t]] if X is not None else []) for t in range(len(y))]


def _spec_inst(z, r, wl, nv, sci, layout):
    """what a regressor must see for the window starting at time position r:
    per variable the wl consecutive observations z[r..r+wl); tabular = one flat row"""
    per_var = [[z[r + k][v] for k in range(wl)] for v in range(nv)]
    if sci == "ts":
        return per_var
    if layout == "var":
        return [[x for var in per_var for x in var]]
    return [[z[r + k][v] for k in range(wl) for v in range(nv)]]


def _key(inst):
    return "|".join(",".join(var) for var in inst)


def _bad(tok):
    return tok in ("nan", "inf", "-inf")


def _check_training(site, fails, fitcalls, z, wl, hs, strategy, sci):
    """fitcalls: the regressor.fit calls of one fit round.  Returns (layout, step_of_call, colperm) or None."""
    N = len(z)
    nv = len(z[0]) if z else 1
    tag = "2d" if sci == "tab" else "3d"
    hmax = max(hs)
    R = N - wl - hmax + 1
    expected_calls = len(hs) if strategy in ("direct", "dirrec") else 1
    if len(fitcalls) != expected_calls:
        fails.append((site + ":number-of-regressor-fits", "%d fit calls, expected %d" % (len(fitcalls), expected_calls)))
        return None
    ydist = len(set(r[0] for r in z)) == N and not any(_bad(r[0]) for r in z)
    pos = {r[0]: t for t, r in enumerate(z)} if ydist else None
    alldist = ydist and len(set(x for r in z for x in r)) == N * nv
    posall = {x: t for t, r in enumerate(z) for x in r} if alldist else None
    layout_found = None
    step_of_call = {}
    colperm = None
    used = set()
    for ci, call in enumerate(fitcalls):
        if call["tag"] != tag:
            fails.append((site + ":scitype-array-rank", "regressor got %s X, scitype %s" % (call["tag"], sci)))
            return None
        rows = call["X"]
        kind, tgt = call["y"]
        if len(rows) != max(R, 0):
            fails.append((site + ":window-count", "%d training rows, the series has %d full windows with targets "
                          "(n=%d wl=%d hmax=%d)" % (len(rows), max(R, 0), N, wl, hmax)))
            return None
        if len(tgt) != len(rows):
            fails.append((site + ":X-y-length", "%d rows, %d targets" % (len(rows), len(tgt))))
            return None
        # ---- rows: the lagged windows, each once
        extra = ci if strategy == "dirrec" else 0      # dirrec: window + the `extra` earlier-step observations
        ok_layout = None
        for layout in (("var", "time") if (sci == "tab" and strategy != "dirrec") else ("var",)):
            exp = []
            for r in range(R):
                inst = _spec_inst(z, r, wl, nv, sci, layout)
                if strategy == "dirrec":
                    inst = [inst[0] + [z[r + wl + hs[j] - 1][0] for j in range(extra)]]
                exp.append(_key(inst))
            if sorted(exp) == sorted(_key(i) for i in rows):
                ok_layout = layout
                break
        if ok_layout is None:
            # diagnose
            allwin = set()
            for layout in ("var", "time"):
                for r in range(0, N - wl + 1):
                    allwin.add(_key(_spec_inst(z, r, wl, nv, sci, layout)))
            if strategy != "dirrec" and all(_key(i) in allwin for i in rows):
                fails.append((site + ":windows-not-each-once", "training rows are windows but not every full window exactly once"))
            else:
                fails.append((site + ":row-not-lagged-window", "a training row is not %d consecutive observations per variable" % wl))
            return None
        if layout_found is None:
            layout_found = ok_layout
        elif layout_found != ok_layout and nv > 1 and wl > 1:
            fails.append((site + ":layout-differs-between-estimators", "%s vs %s" % (layout_found, ok_layout)))
            return None
        # ---- targets: exactly h steps after the end of the window
        def exp_pairs(h):
            out = []
            for r in range(R):
                inst = _spec_inst(z, r, wl, nv, sci, ok_layout)
                if strategy == "dirrec":
                    inst = [inst[0] + [z[r + wl + hs[j] - 1][0] for j in range(extra)]]
                out.append((_key(inst), z[r + wl + h - 1][0]))
            return sorted(out)
        if kind == "v":
            obs = sorted((_key(i), t) for i, t in zip(rows, tgt))
            cand = [1] if strategy == "recursive" else ([hs[ci]] + [h for h in hs if h != hs[ci]] if strategy == "dirrec" else hs)
            if strategy == "dirrec":
                cand = [hs[ci]]
            match = None
            for h in cand:
                if h not in used and obs == exp_pairs(h):
                    match = h
                    break
            if match is None:
                fails.append((site + ":target-not-h-steps-after-window",
                              "targets of fit call %d are not y[r+wl+h-1] for any requested step h" % ci))
                return None
            used.add(match)
            step_of_call[ci] = match
        else:
            ncol = len(tgt[0]) if tgt else len(hs)
            if any(len(t) != len(hs) for t in tgt):
                fails.append((site + ":target-columns", "%d target columns for %d steps" % (ncol, len(hs))))
                return None
            colperm = []
            usedc = set()
            for j in range(len(hs)):
                obs = sorted((_key(i), t[j]) for i, t in zip(rows, tgt))
                m = None
                for h in hs:
                    if h not in usedc and obs == exp_pairs(h):
                        m = h
                        break
                if m is None:
                    fails.append((site + ":target-not-h-steps-after-window",
                                  "target column %d is not y[r+wl+h-1] for any requested step h" % j))
                    return None
                usedc.add(m)
                colperm.append(m)
        # ---- no row contains its own target or a later value (checkable when values identify their time)
        if posall is not None:
            tl = tgt if kind == "v" else None
            for ri, inst in enumerate(rows):
                src = max(posall[x] for var in inst for x in var)
                tts = [pos[tl[ri]]] if kind == "v" else [pos[x] for x in tgt[ri]]
                if src >= min(tts):
                    fails.append((site + ":row-contains-target-or-later", "row %d reads time %d, target at time %d" % (ri, src, min(tts))))
                    return None
    return layout_found or "var", step_of_call, colperm


def _valid_fh(fh):
    return fh is not None and len(fh) > 0 and len(set(fh)) == len(fh) and all(h >= 1 for h in fh)


def _wl_int(w):
    if isinstance(w, int):
        return w
    if isinstance(w, str) and w.startswith("np"):
        return int(w[2:])
    return None


def _classify_fit(c):
    """Is construct + fit given inputs inside the property's quantifier?  'valid' | 'short' | 'other'"""
    s = c["strategy"]
    wl = _wl_int(c["wl"])
    n = len(c["y"])
    via, step = c.get("via", "make"), c.get("step", 1)
    if via in ("rf", "rrf") and step != 1:
        return "other"                  # the deprecated factories refuse step_length != 1
    if via == "cls" and step < 1:
        return "other"
    if wl is None or wl < 1 or n == 0:
        return "other"
    req = s != "recursive"
    if req and not _valid_fh(c["fh"]):
        return "other"
    if not req and c["fh"] is not None and not (len(c["fh"]) > 0 and len(set(c["fh"])) == len(c["fh"])):
        return "other"
    if s == "dirrec" and c["X"] is not None:
        return "other"
    hmax = max(c["fh"]) if req else 1
    if n < wl + hmax:
        return "short"
    return "valid"


def _merge(z, off, block):
    """new.combine_first(old) for a contiguous block starting `off` positions after the first stored label"""
    z = [list(r) for r in z]
    for i, row in enumerate(block):
        p = off + i
        if p < len(z):
            z[p] = [(o if nw == "nan" else nw) for nw, o in zip(row, z[p])]
        else:
            z.append(list(row))
    return z


def _want_calls(s, J, hs, z, m, wl):
    """regressor.predict calls one forecast makes (0 when no full finite window ends at the cutoff)"""
    if m < wl or any(_bad(z[t][0]) for t in range(m - wl, m)):
        return 0
    return {"direct": J, "multioutput": 1, "recursive": max(hs), "dirrec": J}[s]


def _check_predict(fails, calls, pos, s, sci, wl, z, m, hs, hs_fit, tr, base, Xp, t0, got):
    """One predict event.  z[:m] = what has been observed up to the cutoff.  Consumes the regressor.predict
    calls starting at calls[pos]; returns the new position or None after a failure.
    got = returned (label, value) pairs, or None when the forecast of this event is not observed."""
    layout, step_of_call, colperm = tr
    zc = z[:m]
    N = m
    nv = len(z[0])
    cutoff = t0 + m - 1
    J = len(hs_fit) if s in ("direct", "dirrec") else 1
    if got is not None:
        # one forecast per requested step, labelled cutoff + h
        if [l for l, _ in got] != [cutoff + h for h in hs]:
            fails.append(("predict:steps-returned", "labels %r, requested steps %r from cutoff %d" % ([l for l, _ in got], hs, cutoff)))
            return None
    val = {l - cutoff: v for l, v in got} if got is not None else None
    want_calls = _want_calls(s, J, hs, z, m, wl)
    if want_calls == 0:
        return pos              # no full finite window ends at the cutoff: the statement is silent (code forecasts NaN)
    pc = calls[pos:pos + want_calls]
    if len(pc) != want_calls or any(x["k"] != "predict" for x in pc):
        fails.append(("predict:number-of-regressor-predicts", "expected %d regressor.predict calls for this forecast" % want_calls))
        return None
    tag = "2d" if sci == "tab" else "3d"
    if any(p["tag"] != tag for p in pc):
        fails.append(("predict:scitype-array-rank", "predict got the wrong array rank for scitype %s" % sci))
        return None
    last = _spec_inst(zc, N - wl, wl, nv, sci, layout)
    if s in ("direct", "multioutput"):
        for p in pc:
            if len(p["X"]) != 1 or _key(p["X"][0]) != _key(last):
                fails.append((s + ".predict:not-last-window", "regressor was fed %s, the last %d values observed up to the cutoff (label %d) are %s" % (
                    _key(p["X"][0]) if p["X"] else "-", wl, cutoff, _key(last))))
                return None
        if s == "direct":
            by_step = {}
            for p in pc:
                ci = p["est"] - base
                if ci not in step_of_call:
                    fails.append(("direct.predict:stale-estimator", "predict used estimator of fit call %d" % p["est"]))
                    return None
                by_step[step_of_call[ci]] = p["out"]
            for h in hs:
                if h not in by_step or len(by_step[h]) != 1:
                    fails.append(("direct.predict:step-h-not-output-h", "no single output of the step-%d regressor" % h))
                    return None
                if val is not None and by_step[h][0] != val[h]:
                    fails.append(("direct.predict:step-h-not-output-h", "forecast for step %d is %s, the step-%d regressor returned %s" % (
                        h, val[h], h, by_step.get(h))))
                    return None
        else:
            p = pc[0]
            if p["est"] != base:
                fails.append(("multioutput.predict:stale-estimator", "predict used estimator of fit call %d" % p["est"]))
                return None
            if len(p["out"]) != len(colperm):
                fails.append(("multioutput.predict:outputs", "%d outputs for %d steps" % (len(p["out"]), len(colperm))))
                return None
            if val is not None:
                for j, h in enumerate(colperm):
                    if p["out"][j] != val[h]:
                        fails.append(("multioutput.predict:step-h-not-output-h", "forecast for step %d is %s, output trained on step-%d targets is %s" % (
                            h, val[h], h, p["out"][j])))
                        return None
    elif s == "recursive":
        ext = [list(r) for r in zc]
        outs = []
        for i, p in enumerate(pc):
            if p["est"] != base:
                fails.append(("recursive.predict:stale-estimator", "predict used estimator of fit call %d" % p["est"]))
                return None
            want = _spec_inst(ext, N - wl + i, wl, nv, sci, layout)
            if len(p["X"]) != 1 or _key(p["X"][0]) != _key(want):
                fails.append(("recursive.predict:" + ("not-last-window" if i == 0 else "feedback-not-newest-lag"),
                              "step %d: regressor was fed %s, expected %s" % (i + 1, _key(p["X"][0]) if p["X"] else "-", _key(want))))
                return None
            if len(p["out"]) != 1:
                fails.append(("recursive.predict:outputs", "%d outputs" % len(p["out"])))
                return None
            outs.append(p["out"][0])
            ext.append([p["out"][0]] + ([_tok(v) for v in Xp[i]] if Xp is not None else []))
        if val is not None:
            for h in hs:
                if outs[h - 1] != val[h]:
                    fails.append(("recursive.predict:step-h-not-output-h", "forecast for step %d is %s, the %d-th recursive output is %s" % (h, val[h], h, outs[h - 1])))
                    return None
    else:  # dirrec
        outs = []
        for i, p in enumerate(pc):
            ci = p["est"] - base
            if step_of_call.get(ci) != hs_fit[i]:
                fails.append(("dirrec.predict:wrong-estimator-for-step", "call %d used estimator of fit call %d" % (i, p["est"])))
                return None
            want = [last[0] + outs]
            if len(p["X"]) != 1 or _key(p["X"][0]) != _key(want):
                fails.append(("dirrec.predict:" + ("not-last-window" if i == 0 else "feedback-not-newest-lag"),
                              "call %d: regressor was fed %s, expected %s" % (i, _key(p["X"][0]) if p["X"] else "-", _key(want))))
                return None
            if len(p["out"]) != 1:
                fails.append(("dirrec.predict:outputs", "%d outputs" % len(p["out"])))
                return None
            outs.append(p["out"][0])
        if val is not None:
            for i, h in enumerate(hs_fit):
                if outs[i] != val[h]:
                    fails.append(("dirrec.predict:step-h-not-output-h", "forecast for step %d is %s, its regressor returned %s" % (h, val[h], outs[i])))
                    return None
    return pos + want_calls


def _as_history(c, out):
    """normalise both case kinds to: calls, fit error, operations, per-operation results"""
    if c["op"] == "hist":
        calls, fiterr, results = _parse_hist(out)
        return calls, fiterr, c["ops"], results
    calls, res = _parse_run(out)
    ops = []
    if c["upd"] in ("upd", "refit"):
        ops.append({"k": "U", "u0": _u0(c), "uy": c["uy"], "uX": c["uX"], "refit": c["upd"] == "refit"})
    elif c["upd"] in ("up", "uprefit"):
        ops.append({"k": "W", "u0": _u0(c), "uy": c["uy"], "Xup": None, "refit": c["upd"] == "uprefit"})
    ops.append({"k": "P", "fh": c["fhp"], "Xp": c["Xp"]})
    if "err" in res:
        if res["stage"] == "fit":
            return calls, res["err"], ops, []
        pre = ["ok"] if (res["stage"] == "predict" and len(ops) == 2) else []
        return calls, None, ops, pre + [("err", res["err"])]          # the history stops at the first error
    return calls, None, ops, (["ok"] if len(ops) == 2 else []) + [("fc", res["ok"])]


def oracle(c, out):
    """The property text evaluated on what the REAL code did (recorded calls, returned forecasts, errors),
    along the history  construct -> fit -> operations (update | update_predict | predict; an operation may
    fail and be followed by others).  State carried along: the stored series `z`, the number `m` of stored
    observations up to the cutoff, the latest round of fitted clones, the stored horizon.
    After a failed operation the forecaster must still answer from its true state: in particular a failed
    update_predict leaves the cutoff where it was."""
    if c["op"] == "swt":
        return _oracle_swt(c, out)
    fails = []
    calls, fiterr, ops, results = _as_history(c, out)
    s = c["strategy"]
    sci = _sci_expected(c)
    cf = _classify_fit(c)
    if cf == "other":
        return fails
    if cf == "short":
        if fiterr is None:
            fails.append(("fit:short-series-accepted", "n=%d < window_length + max(fh): no full window has a target, yet fit succeeded" % len(c["y"])))
        return fails
    if fiterr is not None:
        fails.append(("fit:valid-input-rejected", "fit raised %s on valid input (constructed via %s)" % (fiterr, c.get("via", "make"))))
        return fails
    wl = _wl_int(c["wl"])
    req = s != "recursive"
    hs_fit = [1] if s == "recursive" else sorted(c["fh"])
    J = len(hs_fit) if s in ("direct", "dirrec") else 1
    st = {"pos": 0, "z": _z(c["y"], c["X"]), "tr": None, "base": 0, "stored": c["fh"], "budget": c.get("fail")}
    t0 = c["t0"]
    hasX = c["X"] is not None
    ncx = len(c["X"][0]) if c["X"] else 0

    def fit_round(site):
        fc = calls[st["pos"]:st["pos"] + J]
        if len(fc) != J or any(x["k"] != "fit" for x in fc):
            fails.append((site + ":number-of-regressor-fits", "expected %d regressor.fit calls here" % J))
            return False
        tr = _check_training(site, fails, fc, st["z"], wl, hs_fit, s, sci)
        if tr is None:
            return False
        st["base"] = sum(1 for x in calls[:st["pos"]] if x["k"] == "fit")
        st["tr"] = tr
        st["pos"] += J
        return True

    if not fit_round("fit"):
        return fails
    st["m"] = len(st["z"])

    def upd_event(off, block, refit):
        if block:
            st["z"] = _merge(st["z"], off, block)
            st["m"] = off + len(block)
        if refit:
            if not fit_round("refit"):
                return False
            st["m"] = len(st["z"])
        return True

    def pred_event(hs, Xp, got):
        """returns 'ok' | 'fail' (oracle failure recorded) | 'raised' (the scheduled regressor failure interrupts it)"""
        want = _want_calls(s, J, hs, st["z"], st["m"], wl)
        b = st["budget"]
        if b is not None and want > b:
            pc = calls[st["pos"]:st["pos"] + b]
            if len(pc) != b or any(x["k"] != "predict" for x in pc):
                fails.append(("predict:number-of-regressor-predicts", "expected %d regressor.predict calls before the scheduled failure" % b))
                return "fail"
            st["pos"] += b
            st["budget"] = None
            return "raised"
        p2 = _check_predict(fails, calls, st["pos"], s, sci, wl, st["z"], st["m"], hs, hs_fit, st["tr"], st["base"], Xp, t0, got)
        if p2 is None:
            return "fail"
        if b is not None:
            st["budget"] = b - (p2 - st["pos"])
        st["pos"] = p2
        return "ok"

    for i, o in enumerate(ops):
        if i >= len(results):
            return fails                      # (run cases stop at the first error)
        r = results[i]
        iserr = isinstance(r, tuple) and r[0] == "err"
        n = len(st["z"])
        if o["k"] == "U":
            off = o["u0"] - t0
            if not (0 <= off <= n) or (o["uX"] is not None) != hasX and o["uy"]:
                return fails                  # outside the domain (gap / X given on one side only)
            if not o["uy"] and o["uX"] is not None:
                continue                      # rejected by input validation before anything is stored
            if o["refit"] and st["stored"] is None:
                return fails                  # update() without a horizon half-applies and raises: not judged here
            if iserr:
                fails.append(("update:valid-input-rejected", "update raised %s on valid input" % r[1]))
                return fails
            if not upd_event(off, _z(o["uy"], o["uX"]), o["refit"]):
                return fails
        elif o["k"] == "W":
            off = o["u0"] - t0
            if not (0 <= off <= n) or hasX:
                return fails
            stored = st["stored"]
            if stored is not None and not _valid_fh(stored):
                return fails                  # a stored in-sample horizon (recursive only): outside the statement
            refused = (stored is None or o["Xup"] is not None or not o["uy"] or len(o["uy"]) < wl + max(stored))
            if refused:
                # update_predict must refuse without side effects: the cutoff (m) and the data stay as they are
                continue
            saved = st["m"]
            st["m"] = off                     # cutoff = first new label - 1
            hs_st = sorted(stored)
            ublock = _z(o["uy"], None)
            raised = False
            for sp in range(0, len(ublock) - max(hs_st) + 1):
                a = max(0, sp - wl)
                if not upd_event(off + a, ublock[a:sp], o["refit"]):
                    return fails
                ev = pred_event(hs_st, None, None)
                if ev == "fail":
                    return fails
                if ev == "raised":
                    raised = True
                    break
            st["m"] = saved                   # restored, whether update_predict returned or raised
            if iserr and not raised:
                fails.append(("update:valid-input-rejected", "update_predict raised %s on valid input" % r[1]))
                return fails
        else:
            fhp = o["fh"]
            stored = st["stored"]
            if fhp is None:
                eff = stored
            elif req:
                if not _valid_fh(fhp) or stored is None or sorted(fhp) != sorted(stored):
                    continue                  # a different / malformed horizon is refused, nothing changes
                eff = fhp
            else:
                if not (len(fhp) > 0 and len(set(fhp)) == len(fhp)):
                    continue
                st["stored"] = list(fhp)      # the optional-horizon mixin stores it before predicting
                eff = fhp
            if not _valid_fh(eff):
                continue                      # no horizon / in-sample steps: refused
            if s == "dirrec" and o["Xp"] is not None:
                continue
            if s == "recursive":
                if hasX != (o["Xp"] is not None):
                    continue
                if o["Xp"] is not None and (len(o["Xp"]) != max(eff) or any(len(rw) != ncx for rw in o["Xp"])):
                    return fails              # mis-shaped future X (numpy may broadcast it): the statement is silent
            hs = sorted(eff)
            want = _want_calls(s, J, hs, st["z"], st["m"], wl)
            will_raise = st["budget"] is not None and want > st["budget"]
            if iserr and not will_raise:
                fails.append(("predict:valid-input-rejected", "predict raised %s on valid input" % r[1]))
                return fails
            ev = pred_event(hs, o["Xp"], None if (will_raise or iserr or r == "ok") else r[1])
            if ev == "fail":
                return fails
    if st["pos"] != len(calls):
        fails.append(("history:unexpected-regressor-calls", "%d regressor calls beyond what the history explains" % (len(calls) - st["pos"])))
    return fails


def _oracle_swt(c, out):
    fails = []
    wl = _wl_int(c["wl"])
    fh = sorted(c["fh"])
    if wl is None or wl < 1 or not fh or any(h < 1 for h in fh) or len(set(fh)) != len(fh) or not c["y"]:
        return fails
    n = len(c["y"])
    hmax = fh[-1]
    if n < wl + hmax:
        if not out.startswith("E:"):
            fails.append(("swt:short-series-accepted", "n=%d wl=%d hmax=%d accepted" % (n, wl, hmax)))
        return fails
    if out.startswith("E:"):
        fails.append(("swt:valid-input-rejected", out))
        return fails
    a, b = out.split(" ")
    yt = a[3:]
    tag, insts = b[3:].split(":")
    rows = _pinsts(insts)
    tg = [] if yt == "-" else [_pvals(r) for r in yt.split(";")]
    z = _z(c["y"], c["X"])
    nv = len(z[0])
    R = n - wl - hmax + 1
    if tag != ("2d" if c["sci"] == "tab" else "3d"):
        fails.append(("swt:scitype-array-rank", tag))
        return fails
    if len(rows) != R or len(tg) != R:
        fails.append(("swt:window-count", "%d rows / %d target rows, %d full windows with targets" % (len(rows), len(tg), R)))
        return fails
    ok = False
    for layout in ("var", "time"):
        exp = sorted((_key(_spec_inst(z, r, wl, nv, c["sci"], layout)), ",".join(z[r + wl + h - 1][0] for h in fh)) for r in range(R))
        if exp == sorted((_key(i), ",".join(t)) for i, t in zip(rows, tg)):
            ok = True
            break
    if not ok:
        exprows = set(_key(_spec_inst(z, r, wl, nv, c["sci"], l)) for r in range(R) for l in ("var", "time"))
        if all(_key(i) in exprows for i in rows):
            fails.append(("swt:target-not-h-steps-after-window", "targets are not y[r+wl+h-1]"))
        else:
            fails.append(("swt:row-not-lagged-window", "a row is not %d consecutive observations per variable" % wl))
    return fails


# ----------------------------------------------------------------------------- evidence helpers
def nontrivial(c, out):
    if c["op"] == "swt":
        return not out.startswith("E:")
    if c["op"] == "hist":
        return "@fit" not in out and "P" in out.split(" ")[0]
    return "res=E:" not in out and "P" in out.split(" ")[0]


def features(c, out):
    if c["op"] == "swt":
        return ["op=swt", "swt:" + (out if out.startswith("E:") else "ok"), "swt.sci=" + c["sci"]]
    if c["op"] == "hist":
        r = out.split(" ")[1][4:]
        f = ["op=hist", "strategy=" + c["strategy"], "via=" + c.get("via", "make"), "hist.fail=" + ("none" if c.get("fail") is None else "k")]
        if r.endswith("@fit"):
            return f + ["hist.res=" + r]
        for o, t in zip(c["ops"], r.split("|")):
            f.append("hist.%s=%s" % (o["k"], t if t.startswith("E:") else "ok"))
        return f
    f = ["op=run", "via=" + c.get("via", "make"), "strategy=" + c["strategy"], "scitype=" + _sci_expected(c) + ("(inferred)" if c["scitype"] == "infer" else ""),
         "X=" + ("none" if c["X"] is None else "%dcol" % (len(c["X"][0]) if c["X"] else 0)), "upd=" + c["upd"]]
    n = len(c["y"])
    f.append("n=" + ("<=12" if n <= 12 else "<=50" if n <= 50 else "<=200"))
    r = out.split(" ")[1][4:]
    f.append("res=" + (r if r.startswith("E:") else "ok"))
    if c["fh"] and _valid_fh(c["fh"]):
        f.append("fh=" + ("contiguous" if sorted(c["fh"]) == list(range(1, len(c["fh"]) + 1)) else "gapped"))
    if "nan" in out.split(" ")[1]:
        f.append("nan-forecast")
    return f


def is_exhaustive(tier):
    return tier == "thorough"


# ----------------------------------------------------------------------------- generators
def _vals(rng, n, lo=1):
    """n distinct integers (so every value identifies its time point)"""
    return rng.sample(range(lo, lo + 3 * n + 5), n)


def _mkX(rng, n, nc, base):
    if nc == 0:
        return None
    pool = rng.sample(range(base, base + 3 * n * nc + 5), n * nc)
    return [pool[i * nc:(i + 1) * nc] for i in range(n)]


DTYPES = ["float64", "int64", "float32", "int32"]


def _run_case(rng, strategy, n, wl, fh, nc=0, reg=None, scitype=None, t0=None, upd="no", ulen=0, fhp="same", xp="auto",
              nan_at=None, dup=False, overlap=0, dtype="float64", xdtype="float64", layout="contig", xlayout="contig",
              via="make", step=1):
    """overlap = how many stored labels the update block re-states (u0 = t0 + n - overlap)"""
    reg = reg or rng.choice(["tab", "ts"])
    scitype = scitype or rng.choice(["infer", "infer", "tab", "ts"])
    if upd == "no":
        ulen = 0
    y = _vals(rng, n, 1)
    X = _mkX(rng, n, nc, 1000)
    uy = _vals(rng, ulen, 3000)              # fresh values: a re-stated observation is visibly different
    uX = _mkX(rng, ulen, nc, 7000) if upd in ("upd", "refit") else None
    if nc and upd in ("upd", "refit") and uX is None:
        uX = []
    if dup and n > 2:
        y[rng.randrange(n)] = y[rng.randrange(n)]
    if nan_at is not None:
        for where, i, tokv in nan_at:
            tgt = y if where == "y" else uy
            if 0 <= i < len(tgt):
                tgt[i] = tokv
        if dtype.startswith("int"):
            dtype = "float64"
    t0 = rng.randrange(-20, 40) if t0 is None else t0
    overlap = min(overlap, n)
    c = {"op": "run", "strategy": strategy, "reg": reg, "scitype": scitype, "wl": wl,
         "fh": fh, "fhp": (fh if fhp == "same" else fhp), "t0": t0, "y": y, "X": X,
         "upd": upd, "u0": t0 + n - overlap, "uy": uy, "uX": uX, "Xp": None, "dtype": dtype, "xdtype": xdtype,
         "layout": layout, "xlayout": xlayout, "via": via, "step": step}
    if xp == "auto":
        if strategy == "recursive" and nc > 0:
            eff = c["fhp"] if c["fhp"] is not None else fh
            m = max(eff) if eff and all(isinstance(h, int) for h in eff) and max(eff) > 0 else 1
            c["Xp"] = _mkX(rng, m, nc, 5000)
    else:
        c["Xp"] = xp
    return c


def _hist_case(rng, strategy=None, script=None):
    """a history: construct -> fit -> operations, some of which are refused / fail, always ending in a predict.
    script = list of operation kinds to use (else random)"""
    strategy = strategy or rng.choice(STRATEGIES)
    req = strategy != "recursive"
    wl = rng.choice([1, 2, 2, 3, 4, 6])
    fh = sorted(rng.sample(range(1, 6), rng.choice([1, 2, 2, 3])))
    hmax = max(fh)
    n = wl + hmax + rng.choice([0, 1, 3, 6, 10, 20])
    nc = 0 if (strategy == "dirrec" or rng.random() < 0.75) else rng.choice([1, 2])
    fhfit = fh
    if not req and rng.random() < 0.25:
        fhfit = None
    t0 = rng.randrange(-10, 30)
    kinds = script or [rng.choice(["U", "U", "Ubad", "W", "W", "Wx", "Wshort", "Wempty", "P", "Pbad", "Pnew"])
                       for _ in range(rng.choice([1, 1, 2, 3]))]
    ops = []
    base = [3000]

    def fresh(k):
        v = list(range(base[0], base[0] + k))
        rng.shuffle(v)
        base[0] += k + 5
        return v

    def rows(k, b):
        return None if nc == 0 else [[b + i * nc + j for j in range(nc)] for i in range(k)]

    for kd in kinds:
        ov = rng.choice([0, 0, 1, 2, wl, n // 2])
        ov = min(ov, n)
        u0 = t0 + n - ov
        if kd == "U":
            L = rng.randrange(1, 5) if ov == 0 else rng.randrange(1, ov + 3)
            ops.append({"k": "U", "u0": u0, "uy": fresh(L), "uX": rows(L, base[0] + 4000), "refit": rng.random() < 0.3 and fhfit is not None})
        elif kd == "Ubad":
            if nc and rng.random() < 0.5:
                ops.append({"k": "U", "u0": u0, "uy": [], "uX": [], "refit": False})           # empty batch with an X frame
            else:
                ops.append({"k": "U", "u0": u0, "uy": fresh(2), "uX": rows(2, base[0] + 4000), "refit": True})   # refit (fails without a horizon)
        elif kd in ("W", "Wx", "Wshort", "Wempty"):
            if nc:
                ops.append({"k": "P", "fh": None if fhfit else fh, "Xp": (rows(hmax, 5000) if strategy == "recursive" else None)})
                continue
            L = wl + hmax + rng.choice([0, 1, 2, 4])
            if kd == "Wshort":
                L = max(1, wl + hmax - rng.choice([1, 2]))
            if kd == "Wempty":
                L = 0
            o = {"k": "W", "u0": u0, "uy": fresh(L), "Xup": None, "refit": rng.random() < 0.15}
            if kd == "Wx":
                o["Xup"] = [[9000 + i] for i in range(L)]
            ops.append(o)
        elif kd == "P":
            ops.append({"k": "P", "fh": rng.choice([None, fh]) if fhfit else fh,
                        "Xp": (rows(hmax, 5000) if (strategy == "recursive" and nc) else None)})
        elif kd == "Pbad":
            bad = rng.choice([[0, 1], [-1], [fh[0], fh[0]], [hmax + 1], []])
            ops.append({"k": "P", "fh": bad, "Xp": None})
        else:  # Pnew: another valid horizon (accepted by recursive, refused by the others)
            nf = sorted(rng.sample(range(1, 6), rng.choice([1, 2])))
            ops.append({"k": "P", "fh": nf, "Xp": (rows(max(nf), 5000) if (strategy == "recursive" and nc) else None)})
    ops.append({"k": "P", "fh": rng.choice([None, fh]) if fhfit else fh,
                "Xp": (rows(hmax, 6000) if (strategy == "recursive" and nc) else None)})
    via = rng.choice(VIAS)
    step = 1
    if via == "cls":
        step = rng.choice([1, 1, 2, 3, 0])
    elif rng.random() < 0.06:
        step = 2
    reg = rng.choice(["tab", "ts", "tsmix"])
    return {"op": "hist", "via": via, "step": step, "strategy": strategy, "reg": reg,
            "scitype": rng.choice(["infer", "tab", "ts"]), "wl": wl, "fh": fhfit, "t0": t0,
            "y": _vals(rng, n, 1), "X": _mkX(rng, n, nc, 1000),
            "fail": (rng.choice([0, 1, 2, 3, 5, 8]) if rng.random() < 0.3 else None), "ops": ops,
            "dtype": rng.choice(DTYPES + ["float64"]), "xdtype": rng.choice(DTYPES + ["float64"]),
            "layout": rng.choice(YLAYOUTS + ["contig"]), "xlayout": rng.choice(XLAYOUTS + ["contig"])}


BIG_FHS = [list(range(1, 13)), [2, 10], [3, 11, 25], [9, 10], [2, 11], [1, 10, 100]]


def _revalue(c, rng, level=None, kind=None, mode=None, scale2=None):
    """give a built case values at a high level with tiny (or no) increments, optionally scaled by an exact power
    of two down to ~1e-8, and (mostly) the regressor that stays next to the data it is fed"""
    level = level if level is not None else rng.choice([1000, 10 ** 4, 10 ** 5, 10 ** 6, 10 ** 6, 10 ** 9])
    kind = kind or rng.choice(["const", "near", "ramp", "ramp"])
    c["mode"] = mode or rng.choice(["drift", "drift", "drift", "hash"])
    c["scale2"] = scale2 if scale2 is not None else rng.choice([0, 0, 0, 40, 47])
    if c["scale2"] or level > 10 ** 6:
        c["dtype"] = rng.choice(["float64", "float64", "int64"]) if not c["scale2"] else "float64"
        c["xdtype"] = "float64"
    cur = [level]

    def series(k):
        out = []
        for _ in range(k):
            out.append(cur[0])
            if kind == "ramp":
                cur[0] += 1
            elif kind == "near":
                cur[0] += rng.choice([0, 0, 1])
        return out

    def keep(old, new):
        return [o if isinstance(o, str) else v for o, v in zip(old, new)]       # keep nan/inf tokens where they were

    c["y"] = keep(c["y"], series(len(c["y"])))
    if c["X"] is not None:
        c["X"] = [[level + v for v in r] for r in c["X"]]
    if c["op"] == "hist":
        for o in c["ops"]:
            if o["k"] in ("U", "W"):
                o["uy"] = keep(o["uy"], series(len(o["uy"])))
                if o["k"] == "U" and o["uX"] is not None:
                    o["uX"] = [[level + v for v in r] for r in o["uX"]]
            elif o["Xp"] is not None:
                o["Xp"] = [[level + v for v in r] for r in o["Xp"]]
    else:
        c["uy"] = keep(c["uy"], series(len(c["uy"])))
        if c["uX"] is not None:
            c["uX"] = [[level + v for v in r] for r in c["uX"]]
        if c["Xp"] is not None:
            c["Xp"] = [[level + v for v in r] for r in c["Xp"]]
    return c


FH_SUBSETS = [list(s) for r in range(1, 5) for s in itertools.combinations([1, 2, 3, 4], r)]


def gen_cases(tier, rng):
    cases = []
    quick = tier == "quick"
    rot = rng.randrange(1 << 30)
    # ---- (1) exhaustive small scope, fixed order: n<=12, wl<=4, fh subsets of {1..4}, 4 strategies, 2 scitypes, X or not
    k = 0
    for n in range(1, 13):
        for wl in range(1, 5):
            for fh in FH_SUBSETS:
                for strategy in STRATEGIES:
                    for sci in ("tab", "ts"):
                        for nc in (0, 2):
                            k += 1
                            if quick and (k + rot) % 2 != 0:
                                continue
                            if strategy == "dirrec" and nc:
                                if (k // 7) % 6:       # dirrec+X is always NotImplementedError: keep a few
                                    continue
                            reg = "tab" if sci == "tab" else ("ts" if k % 3 else "tsmix")
                            cases.append(_run_case(rng, strategy, n, wl, list(fh), nc=nc, reg=reg,
                                                   scitype=("infer" if k % 2 else sci),
                                                   fhp=("same" if k % 4 else None),
                                                   dtype=DTYPES[(k // 3) % 4], xdtype=DTYPES[(k // 5) % 4],
                                                   layout=YLAYOUTS[(k // 2) % 4], xlayout=XLAYOUTS[(k // 7) % 4],
                                                   via=VIAS[(k // 11) % 4], step=(1 + k % 3 if (k // 11) % 4 == 1 else 1)))
    # ---- (1b) the transform itself, exhaustive small scope
    k = 0
    for n in range(1, 13):
        for wl in range(1, 5):
            for fh in FH_SUBSETS:
                for sci in ("tab", "ts"):
                    for nc in (0, 1, 2):
                        k += 1
                        if quick and (k + rot) % 3 != 0:
                            continue
                        cases.append({"op": "swt", "sci": sci, "wl": wl, "fh": list(fh), "y": _vals(rng, n), "X": _mkX(rng, n, nc, 1000),
                                      "layout": YLAYOUTS[k % 4], "xlayout": XLAYOUTS[(k // 4) % 4], "dtype": DTYPES[(k // 5) % 4]})
    # ---- (2) structured random, mostly valid, n up to 200
    nr = 2000 if quick else 30000
    for _ in range(nr):
        strategy = rng.choice(STRATEGIES)
        wl = min(int(rng.lognormvariate(1.0, 0.8)) + 1, 14)
        hsz = rng.choice([1, 1, 2, 2, 3, 4])
        fh = sorted(rng.sample(range(1, 9), hsz))
        if rng.random() < 0.3:
            fh = list(range(1, hsz + 1))
        if rng.random() < 0.2:
            fh = sorted(rng.sample(range(1, 27), rng.choice([2, 3, 4])))       # two-digit steps
            if rng.random() < 0.3:
                fh = list(range(1, rng.choice([10, 11, 12, 13]) + 1))
        rng.shuffle(fh) if rng.random() < 0.3 else None
        hmax = max(fh)
        need = wl + (1 if strategy == "recursive" else hmax)
        n = min(need + int(rng.lognormvariate(2.0, 1.3)), 200)
        if rng.random() < 0.15:
            n = need + rng.choice([0, 0, 1])          # boundary: exactly one / two rows
        nc = 0 if strategy == "dirrec" else rng.choice([0, 0, 1, 2, 3])
        upd = rng.choice(["no", "no", "upd", "upd", "refit", "up", "up"])
        if upd == "up" and rng.random() < 0.15:
            upd = "uprefit"
        if upd in ("up", "uprefit"):
            nc = 0
            if upd == "uprefit":
                n = min(n, 25)
        overlap = 0
        if upd == "no":
            ulen = 0
        elif upd in ("upd", "refit"):
            ulen = rng.choice([0, 1, 1, 2, 3, 5, wl, wl + 2])
            if rng.random() < 0.5:
                # a late / re-stated block: overlaps what is stored and may END BEFORE the end of it
                overlap = rng.randrange(1, min(n, wl + 6) + 1)
                ulen = rng.randrange(1, overlap + 3)
        else:
            ulen = wl + hmax + rng.choice([0, 0, 1, 2, 3, 6]) - (1 if rng.random() < 0.05 else 0)
            overlap = rng.choice([0, 0, 0, 1, 2, wl])
        fhp = "same"
        fhfit = fh
        if strategy == "recursive":
            r = rng.random()
            if r < 0.25 and upd not in ("up", "uprefit"):
                fhfit, fhp = None, fh
                if upd == "refit":
                    upd = "upd"
            elif r < 0.5:
                fhp = sorted(rng.sample(range(1, 9), rng.choice([1, 2, 3])))
            elif r < 0.6:
                fhp = None
        elif rng.random() < 0.3:
            fhp = None
        elif rng.random() < 0.2:
            fhp = list(reversed(fh))
        nan_at = None
        if rng.random() < 0.08:
            tokv = rng.choice(["nan", "nan", "inf", "-inf"])
            where = rng.choice(["last", "mid", "upd"])
            if where == "upd" and ulen > 0:
                nan_at = [("u", rng.randrange(ulen), tokv)]
            elif where == "last":
                nan_at = [("y", n - 1 - rng.randrange(0, wl), tokv)]
            else:
                nan_at = [("y", rng.randrange(0, max(1, n - wl)), tokv)]
        c = _run_case(rng, strategy, n, wl, fhfit, nc=nc, upd=upd, ulen=max(ulen, 0), fhp=fhp, nan_at=nan_at,
                      dup=rng.random() < 0.1, reg=rng.choice(["tab", "ts", "tsmix"]), overlap=overlap,
                      dtype=rng.choice(DTYPES + ["float64"]), xdtype=rng.choice(DTYPES + ["float64"]),
                      layout=rng.choice(YLAYOUTS + ["contig"]), xlayout=rng.choice(XLAYOUTS + ["contig"]),
                      via=rng.choice(VIAS))
        if c["via"] == "cls":
            c["step"] = rng.choice([1, 1, 2, 5])
        if rng.random() < 0.1 and isinstance(c["wl"], int):
            c["wl"] = "np%d" % c["wl"]
        cases.append(c)
    nr = 150 if quick else 5000
    for _ in range(nr):
        wl = rng.randrange(1, 10)
        fh = sorted(rng.sample(range(1, 9), rng.choice([1, 2, 3])))
        n = min(wl + max(fh) + rng.choice([-1, 0, 0, 1, 2, 5, 20, int(rng.lognormvariate(3.0, 1.0))]), 200)
        nc = rng.choice([0, 1, 3])
        cases.append({"op": "swt", "sci": rng.choice(["tab", "ts"]), "wl": wl, "fh": fh, "y": _vals(rng, max(n, 1)), "X": _mkX(rng, max(n, 1), nc, 1000),
                      "layout": rng.choice(YLAYOUTS), "xlayout": rng.choice(XLAYOUTS)})
    # ---- (2a) horizons reaching two- and three-digit steps, every strategy / scitype, fixed order
    for fh in BIG_FHS:
        for strategy in STRATEGIES:
            for sci in ("tab", "ts"):
                for wl in (1, 3):
                    hmx = max(fh)
                    if hmx > 30 and (quick or strategy == "recursive") and wl == 3:
                        continue
                    for extra in (0, 3):
                        n = wl + (1 if strategy == "recursive" else hmx) + extra
                        cases.append(_run_case(rng, strategy, n, wl, list(fh), nc=(0 if strategy == "dirrec" or extra else 1),
                                               reg=("tab" if sci == "tab" else "ts"), scitype=sci, fhp=("same" if extra else None),
                                               via=VIAS[(wl + extra) % 4]))
    # ---- (2a') value magnitudes: high level with tiny / no increments, values ~1e-8 (exact power-of-two scale),
    #      constant and near-constant series; mostly with the regressor that stays next to the data it is fed
    for strategy in STRATEGIES:
        for kind in ("const", "near", "ramp"):
            for level, sc2 in ((1000, 0), (10 ** 6, 0), (10 ** 9, 0), (10 ** 4, 40), (1000, 47)):
                for mode in ("drift", "hash"):
                    if quick and mode == "hash" and kind != "ramp":
                        continue
                    wl = rng.choice([1, 2, 3])
                    fh = sorted(rng.sample(range(1, 7), rng.choice([2, 3])))
                    n = wl + max(fh) + rng.choice([0, 2, 6])
                    cases.append(_revalue(_run_case(rng, strategy, n, wl, fh, reg=rng.choice(["tab", "ts"])), rng, level, kind, mode, sc2))
    for _ in range(300 if quick else 4000):
        strategy = rng.choice(STRATEGIES)
        wl = rng.choice([1, 1, 2, 3, 5])
        fh = sorted(rng.sample(range(1, 9), rng.choice([1, 2, 3, 4])))
        n = wl + max(fh) + rng.choice([0, 1, 3, 8, 20])
        upd = rng.choice(["no", "no", "upd", "up"])
        nc = 0 if (strategy == "dirrec" or upd == "up") else rng.choice([0, 0, 1])
        ulen = 0 if upd == "no" else (rng.choice([1, 2, 3]) if upd == "upd" else wl + max(fh) + rng.choice([0, 2]))
        cases.append(_revalue(_run_case(rng, strategy, n, wl, fh, nc=nc, upd=upd, ulen=ulen, reg=rng.choice(["tab", "ts", "tsmix"]),
                                        fhp=rng.choice(["same", None]), via=rng.choice(VIAS),
                                        dtype=rng.choice(DTYPES), layout=rng.choice(YLAYOUTS)), rng))
    # ---- (2b) histories with refused / failing operations followed by further operations, all construction paths
    for strategy in STRATEGIES:
        for script in (["Wx"], ["Wshort"], ["Wempty"], ["W"], ["Pbad"], ["Pnew"], ["Ubad"], ["Wx", "U"], ["W", "Wx"], ["Pbad", "W"]):
            for _ in range(1 if quick else 4):
                c = _hist_case(rng, strategy, script)
                cases.append(c)
                c2 = _hist_case(rng, strategy, script)
                c2["fail"] = rng.choice([0, 1, 2, 3, 4])
                cases.append(c2)
    for _ in range(700 if quick else 9000):
        c = _hist_case(rng)
        if rng.random() < 0.25:
            _revalue(c, rng)
        cases.append(c)
    # ---- (3) malformed / outside-the-quantifier stream
    nm = 1 if quick else 4
    for _ in range(nm):
        for strategy in STRATEGIES:
            nc0 = 0
            for wlbad in (0, -1, "float", "bool", "str", "none"):
                cases.append(_run_case(rng, strategy, 9, wlbad, [1, 2], nc=nc0))
            for fhbad in ([0, 1], [-1], [1, 1], [], None, [2, 0]):
                cases.append(_run_case(rng, strategy, 9, 2, fhbad, nc=nc0, fhp=(None if fhbad is None else "same")))
            cases.append(_run_case(rng, strategy, 9, 2, [1, 2], fhp=[1, 3]))          # different horizon at predict
            cases.append(_run_case(rng, strategy, 9, 2, [1, 2], fhp=[0, 1]))          # in-sample at predict
            cases.append(_run_case(rng, strategy, 9, 2, [1, 2], fhp=[2, 2]))
            cases.append(_run_case(rng, strategy, 0, 2, [1]))                          # empty series
            for n in (3, 4, 5, 6):                                                      # around the length bound wl + hmax = 5
                cases.append(_run_case(rng, strategy, n, 3, [2], nc=rng.choice([0, 1]) if strategy != "dirrec" else 0))
            cases.append(_run_case(rng, strategy, 9, 2, [1, 2], nc=1))                  # dirrec + X
            cases.append(_run_case(rng, strategy, 9, 2, [1, 2], nc=0, xp=[[7], [8]]))   # X at predict without X at fit
            cases.append(_run_case(rng, strategy, 9, 2, [1, 3], nc=2, xp=None))         # X at fit, none at predict
            cases.append(_run_case(rng, strategy, 9, 2, [1, 3], nc=2, xp=[[7, 8]]))     # one future row (numpy broadcasts it)
            cases.append(_run_case(rng, strategy, 9, 2, [1, 3], nc=2, xp=[[7, 8], [9, 10]]))   # too few future rows
            cases.append(_run_case(rng, strategy, 9, 2, [1, 3], nc=2, xp=[[7], [8], [9]]))     # wrong number of columns
            cases.append(_run_case(rng, strategy, 9, 2, [1, 3], nc=1, xp=[[7, 8], [9, 10], [11, 12]]))
            cases.append(_run_case(rng, strategy, 9, 2, None if strategy == "recursive" else [1], upd="refit", ulen=2, fhp=[1]))
            cases.append(_run_case(rng, strategy, 9, 2, None if strategy == "recursive" else [1], upd="up", ulen=5, fhp=[1]))  # update_predict without stored horizon
            cases.append(_run_case(rng, strategy, 9, 2, [1, 2], upd="up", ulen=3))                  # new data too short for the splitter
            cases.append(_run_case(rng, strategy, 9, 2, [1, 2], upd="up", ulen=0))                  # empty new data
    for wlbad in (0, "float", "none"):
        cases.append({"op": "swt", "sci": "tab", "wl": wlbad, "fh": [1], "y": _vals(rng, 8), "X": None})
    for fhbad in ([], [0, 1], [-2]):
        cases.append({"op": "swt", "sci": "ts", "wl": 2, "fh": fhbad, "y": _vals(rng, 8), "X": None})
    return cases


def shrink(c):
    if c.get("xlayout", "contig") != "contig":
        yield dict(c, xlayout="contig")
    if c.get("layout", "contig") not in ("contig", "stride2"):
        yield dict(c, layout="stride2")
    if c.get("layout", "contig") != "contig":
        yield dict(c, layout="contig")
    if c["op"] == "hist":
        for i in range(len(c["ops"]) - 1):
            yield dict(c, ops=c["ops"][:i] + c["ops"][i + 1:])
        if c.get("fail") is not None:
            yield dict(c, fail=None)
            if c["fail"] > 0:
                yield dict(c, fail=c["fail"] - 1)
        if c.get("via", "make") != "make" or c.get("step", 1) != 1:
            yield dict(c, via="make", step=1)
        if c["scitype"] == "infer":
            yield dict(c, scitype=_sci_expected(c))
        for i, o in enumerate(c["ops"]):
            if o["k"] in ("U", "W") and len(o["uy"]) > 1:
                o2 = dict(o, uy=o["uy"][:-1])
                if o["k"] == "U" and o["uX"] is not None:
                    o2["uX"] = o["uX"][:-1]
                if o["k"] == "W" and o["Xup"] is not None:
                    o2["Xup"] = o["Xup"][:-1]
                yield dict(c, ops=c["ops"][:i] + [o2] + c["ops"][i + 1:])
        return
    if c["op"] == "swt":
        if len(c["y"]) > 1:
            yield dict(c, y=c["y"][1:], X=None if c["X"] is None else c["X"][1:])
        if c["X"] is not None:
            yield dict(c, X=None)
        if isinstance(c["wl"], int) and c["wl"] > 1:
            yield dict(c, wl=c["wl"] - 1)
        for i in range(len(c["fh"])):
            if len(c["fh"]) > 1:
                yield dict(c, fh=c["fh"][:i] + c["fh"][i + 1:])
        return
    if c["upd"] != "no":
        yield dict(c, upd="no", uy=[], uX=None, u0=None)
        if c.get("u0") is not None and c["u0"] < c["t0"] + len(c["y"]):
            yield dict(c, u0=c["u0"] + 1)
        if len(c["uy"]) > 1:
            yield dict(c, uy=c["uy"][:-1], uX=None if c["uX"] is None else c["uX"][:-1])
    if len(c["y"]) > 1:
        yield dict(c, y=c["y"][1:], X=None if c["X"] is None else c["X"][1:], t0=c["t0"] + 1,
                   u0=(None if c.get("u0") is None else max(c["u0"], c["t0"] + 1)))
    if c["X"] is not None and c["Xp"] is None:
        yield dict(c, X=None, uX=None)
    if c["X"] is not None and c["X"] and len(c["X"][0]) > 1:
        yield dict(c, X=[r[:-1] for r in c["X"]], uX=None if c["uX"] is None else [r[:-1] for r in c["uX"]],
                   Xp=None if c["Xp"] is None else [r[:-1] for r in c["Xp"]])
    if isinstance(c["wl"], int) and c["wl"] > 1:
        yield dict(c, wl=c["wl"] - 1)
    if c["fh"] and len(c["fh"]) > 1:
        for i in range(len(c["fh"])):
            fh = c["fh"][:i] + c["fh"][i + 1:]
            same = c["fhp"] is not None and sorted(c["fhp"]) == sorted(c["fh"])
            c2 = dict(c, fh=fh, fhp=(fh if same else c["fhp"]))
            if c2["Xp"] is not None and c2["strategy"] == "recursive":
                eff = c2["fhp"] if c2["fhp"] is not None else fh
                c2["Xp"] = c2["Xp"][:max(eff)] if eff else c2["Xp"]
            yield c2
    if c["t0"] != 0:
        yield dict(c, t0=0, u0=(None if c.get("u0") is None else c["u0"] - c["t0"]))
    if c.get("dtype", "float64") != "float64" or c.get("xdtype", "float64") != "float64":
        yield dict(c, dtype="float64", xdtype="float64")
    if c["scitype"] == "infer":
        yield dict(c, scitype=_sci_expected(c))
