"""C06 correspondence + oracle: forecast accuracy metrics
(sktime/performance_metrics/forecasting/_functions.py, _classes.py).

case = {"via": "f"|"c", "m": metric key, "yt"/"yp": list of COLUMNS (floats, dyadic), "yb": columns|None,
        "ytr": columns|None, "ytr_list": bool, "sp": int, "pd": None|[train_start, true_start],
        "hw": None|[floats], "mo": "raw"|"uni"|"bad"|[floats], "sym": bool, "sqrt": bool, "thr": float,
        "l": str, "r": str, "rlf": base metric key, "oned": bool, "c": float (rescaling constant, power of two)}
Magnitude dimension: the series of a case (and the asymmetric threshold) may all carry a common factor 2^e
(MAG_EXPS; exact in floats), so that errors / naive errors / denominators range from far below EPS to 2^40.
"""
import itertools, math, warnings
from fractions import Fraction
import numpy as np, pandas as pd
from common import canon_err, show_rat, show_rats, show_bool

warnings.filterwarnings("ignore")

PROP = "C06"
LEAN_MODULE = "SkVerif.Props.C06"
OBLIGATIONS = [
    "SkVerif.C06.loss_nonneg",
    "SkVerif.C06.loss_zero_of_perfect",
    "SkVerif.C06.gm_floor_of_perfect",
    "SkVerif.C06.spe_symm",
    "SkVerif.C06.spe_mem_Icc_0_2",
    "SkVerif.C06.pct_eq_textbook",
    "SkVerif.C06.rel_eq_textbook",
    "SkVerif.C06.asym_eq_textbook",
    "SkVerif.C06.class_call_eq_function",
    "SkVerif.C06.class_history_eq_function",
    "SkVerif.C06.mae_mse_eq_spec",
    "SkVerif.C06.mape_mspe_eq_spec",
    "SkVerif.C06.masym_eq_spec",
    "SkVerif.C06.ef_app_eq",
    "SkVerif.C06.mrae_univariate_eq_spec",
    "SkVerif.C06.scaled_univariate_eq_spec",
    "SkVerif.C06.median_reducer_is_median",
    "SkVerif.C06.mdae_univariate_is_median",
    "SkVerif.C06.median_metrics_eq_spec",
    "SkVerif.C06.mdape_weighted_eq_spec",
    "SkVerif.C06.median_scaled_univariate_eq_spec",
    "SkVerif.C06.relative_loss_univariate_eq_spec",
    "SkVerif.C06.weighted_median_laws",
    "SkVerif.C06.horizon_weight_is_weighted_mean",
    "SkVerif.C06.direct_metrics",
    "SkVerif.C06.multioutput_is_per_column",
    "SkVerif.C06.relative_metrics",
    "SkVerif.C06.multioutput_is_per_column_relative",
    "SkVerif.C06.multioutput_is_per_column_scaled",
    "SkVerif.C06.scaled_aggregate_is_ratio_of_averages",
    "SkVerif.C06.scaled_scale_invariant",
    "SkVerif.C06.scaled_not_scale_invariant_when_clamped",
    "SkVerif.C06.scaled_floor_only_below_eps",
    "SkVerif.C06.gm_eq_spec",
    "SkVerif.C06.gm_weighted_exponents",
    "SkVerif.C06.gmrae_univariate_eq_spec",
]
TRUSTED = ["hand-written model SkVerif/Model/Metrics.lean of _functions.py / _classes.py over exact rationals",
           "numpy (np.average, np.median, np.where, broadcasting), scipy gmean, sklearn _weighted_percentile / mean_absolute_error / "
           "median_absolute_error / mean_squared_error as black boxes (sklearn 0.24 semantics of the private "
           "_check_reg_targets signature and of mean_squared_error(squared=False) come from skcompat.patch_metrics)",
           "np.sqrt / exp-log geometric mean are compared through radicand + root degree (the float root is taken by the harness)"]
ASSUMPTIONS = ["exact arithmetic: theorems are over Rat and say nothing about float rounding; inputs are dyadic rationals",
               "horizon weights and multioutput weights are >= 0 (negative weights: weighted percentile undefined, outside the model)",
               "NaN / inf inputs are rejected by sklearn's check_array before any formula (not modelled)"]
RULE = ("exhaustive small scope: 18 metrics x option grid x all y_true,y_pred in {-1,0,1}^n, n<=2 (benchmark / training series from a fixed "
        "small set), plus the 7 median-type metrics x 5 horizon-weight patterns x all y_true,y_pred in {-1,0,2}^3 "
        "(quick: seed-rotated 1/8 slice); structured random: n<=12, 1-3 output columns, zeros, sign changes, ties, constant and "
        "perfect forecasts, sp<=4, horizon and output weights; class wrappers; malformed stream (shape / weight / sp / option errors); "
        "magnitude dimension: about a third of the random / class cases and a further seed-rotated slice of the small scope have "
        "all series (and the asymmetric threshold) multiplied by 2^e, e in -56..40, so that errors, in-sample naive errors and "
        "percentage / relative denominators lie anywhere between below EPS and 2^40; rescaling constants 2^-30..2^20; "
        "corpus (EPS-clamp regions, docstring examples, small-unit series, witnesses of the known findings). distinct by driver line; "
        "non-trivial = the real code returned a number (no error) from at least 2 horizon steps")
LEVEL_TEXT = "proof"
LEVEL_NOTE = ("Proved for the Rat model, all lengths / shapes / weights / options: non-negativity of all 18 metrics, zero at a perfect "
              "forecast (16 metrics) and the EPS floor of the geometric means (with and without horizon weights), swap invariance and the "
              "[0,2] / [0,4] bounds of the symmetric percentage errors, scale invariance of the four scaled errors while the naive error is "
              "not clamped (+ witness of failure when it is), raw_values = column-by-column for all 18 metrics and uniform / weighted "
              "averaging for the 9 direct two-argument metrics, textbook formulas for MAE, MSE, (s)MAPE, (s)MSPE, asymmetric error, the "
              "(weighted) median metrics incl. weighted MdAPE (np.median is a median; the weighted percentile is sklearn's), (weighted) "
              "geometric means as product of powers + root degree, and univariate MRAE, MASE, MSSE, MdASE, MdSSE, relative loss; "
              "class call = function call with the same options for all 18 classes. Only observed by correspondence + oracle: sklearn's "
              "weighted percentile as the documented lower weighted median, multi-output aggregation of scaled errors and relative loss "
              "against the textbook, rejection branches, float rounding. Three defects found by this check were fixed in /repo "
              "(b4ed244, 11fa5f6, acfe904); their witnesses stay in the corpus as regressions.")
TECHNIQUE = "Lean 4 theorems over an executable Rat model + differential correspondence against the real functions and classes"

EPS = Fraction(1, 2 ** 52)
FEPS = float(EPS)

FUNCS = {
    "mase": "mean_absolute_scaled_error", "mdase": "median_absolute_scaled_error",
    "msse": "mean_squared_scaled_error", "mdsse": "median_squared_scaled_error",
    "mae": "mean_absolute_error", "mse": "mean_squared_error", "mdae": "median_absolute_error",
    "mdse": "median_squared_error", "mape": "mean_absolute_percentage_error",
    "mdape": "median_absolute_percentage_error", "mspe": "mean_squared_percentage_error",
    "mdspe": "median_squared_percentage_error", "mrae": "mean_relative_absolute_error",
    "mdrae": "median_relative_absolute_error", "gmrae": "geometric_mean_relative_absolute_error",
    "gmrse": "geometric_mean_relative_squared_error", "masym": "mean_asymmetric_error", "relloss": "relative_loss",
}
CLASSES = {
    "mase": "MeanAbsoluteScaledError", "mdase": "MedianAbsoluteScaledError", "msse": "MeanSquaredScaledError",
    "mdsse": "MedianSquaredScaledError", "mae": "MeanAbsoluteError", "mse": "MeanSquaredError",
    "mdae": "MedianAbsoluteError", "mdse": "MedianSquaredError", "mape": "MeanAbsolutePercentageError",
    "mdape": "MedianAbsolutePercentageError", "mspe": "MeanSquaredPercentageError",
    "mdspe": "MedianSquaredPercentageError", "mrae": "MeanRelativeAbsoluteError",
    "mdrae": "MedianRelativeAbsoluteError", "gmrae": "GeometricMeanRelativeAbsoluteError",
    "gmrse": "GeometricMeanRelativeSquaredError", "masym": "MeanAsymmetricError", "relloss": "RelativeLoss",
}
METRICS = list(FUNCS)
SCALED = ("mase", "mdase", "msse", "mdsse")
RELATIVE = ("mrae", "mdrae", "gmrae", "gmrse", "relloss")
GM = ("gmrae", "gmrse")
PCT = ("mape", "mdape", "mspe", "mdspe")
HAS_SQRT = ("mse", "mdse", "mspe", "mdspe", "gmrse", "msse", "mdsse")
MEAN_TYPE = ("mae", "mse", "mape", "mspe", "mrae", "masym", "mase", "msse")   # np.average over the horizon
BASES = ("mae", "mse", "mdae", "mdse", "mape", "mdape", "mspe", "mdspe")

_FMOD = None


def _mod():
    """the real module (skcompat.patch_metrics restores sklearn 0.24's private API it was written against,
    including `mean_squared_error(squared=False)`: validation, RMSE per output column, then averaged)"""
    global _FMOD
    if _FMOD is None:
        import sktime.performance_metrics.forecasting._functions as F
        _FMOD = F
    return _FMOD


def is_exhaustive(tier):
    return tier == "thorough"


# ----------------------------------------------------------------------------- line
def _mat(cols):
    return ";".join(show_rats(c) for c in cols)


def _neg(l):
    return l is not None and any(v < 0 for v in l)


def to_line(c):
    if not c["yt"] or not c["yp"]:
        return None
    if _neg(c["hw"]) or (isinstance(c["mo"], list) and _neg(c["mo"])):
        return None                      # outside the modelled domain
    yb = "none" if c["yb"] is None else _mat(c["yb"])
    if c["ytr"] is None:
        ytr = "none"
    else:
        ytr = ("list:" if c["ytr_list"] else "") + _mat(c["ytr"])
    ix = "none"
    if c["pd"] is not None and c["m"] in SCALED and c["ytr"] is not None and not c["ytr_list"]:
        ix = "%d:%d" % (c["pd"][0] + len(c["ytr"][0]) - 1, c["pd"][1])
    hw = "none" if c["hw"] is None else show_rats(c["hw"])
    mo = c["mo"] if isinstance(c["mo"], str) else "w:" + show_rats(c["mo"])
    ef = lambda s: s if s in ("squared", "absolute") else "bad"
    line = "C06 %s %s %s %s %s %s %d %s %s %s %s %s %s %s %s %s" % (
        c["via"], c["m"], _mat(c["yt"]), _mat(c["yp"]), yb, ytr, c["sp"], ix, hw, mo,
        show_bool(c["sym"]), show_bool(c["sqrt"]), show_rat(c["thr"]), ef(c["l"]), ef(c["r"]), c["rlf"])
    if c["via"] == "c" and c.get("hist"):
        o = c["old"]
        line += " %s %s %s %d %s %s %s %s" % (c["hist"], show_bool(o["sym"]), show_bool(o["sqrt"]), o["sp"],
                                            show_rat(o["thr"]), ef(o["l"]), ef(o["r"]), o["rlf"])
    return line


# ----------------------------------------------------------------------------- real code
def _arr(cols, oned, pdstart=None):
    if cols is None:
        return None
    a = np.array(cols, dtype="float64").T if cols and len(cols[0]) else np.zeros((0, len(cols)))
    if a.ndim == 1:
        a = a.reshape(0, len(cols))
    if oned and a.shape[1] == 1:
        a = a[:, 0]
    if pdstart is not None:
        idx = pd.RangeIndex(pdstart, pdstart + a.shape[0])
        a = pd.Series(a, index=idx) if a.ndim == 1 else pd.DataFrame(a, index=idx)
    return a


def _opts(c, mo=None, hw="case"):
    m = c["m"]
    o = {}
    hwv = c["hw"] if hw == "case" else hw
    o["horizon_weight"] = None if hwv is None else np.array(hwv, dtype="float64")
    mov = c["mo"] if mo is None else mo
    o["multioutput"] = {"raw": "raw_values", "uni": "uniform_average", "bad": "no_such_option"}.get(mov, mov) \
        if isinstance(mov, str) else np.array(mov, dtype="float64")
    if m in PCT:
        o["symmetric"] = c["sym"]
    if m in HAS_SQRT:
        o["square_root"] = c["sqrt"]
    if m in SCALED:
        o["sp"] = c["sp"]
    if m == "masym":
        o["asymmetric_threshold"] = c["thr"]
        o["left_error_function"] = c["l"]
        o["right_error_function"] = c["r"]
    if m == "relloss":
        o["relative_loss_function"] = getattr(_mod(), FUNCS[c["rlf"]])
    return o


def _call(c, yt, yp, yb, ytr, **ov):
    F = _mod()
    f = getattr(F, FUNCS[c["m"]])
    o = _opts(c, **ov)
    if c["m"] in SCALED:
        return f(yt, yp, ytr, **o)
    if c["m"] in RELATIVE:
        return f(yt, yp, yb, **o)
    return f(yt, yp, **o)


def _canon(r):
    a = np.asarray(r, dtype="float64")
    if np.any(np.isnan(a)):
        return "nan"
    if a.ndim == 0:
        return "s:" + repr(float(a))
    return "a:" + ",".join(repr(float(v)) for v in a.ravel())


def _try(f):
    try:
        return _canon(f())
    except Exception as e:
        return canon_err(e)


def _inputs(c, scale=1.0, swap=False, col=None):
    pdm = c["pd"]
    sel = (lambda cols: cols if cols is None or col is None else [cols[col]])
    sc = (lambda cols: None if cols is None else [[v * scale for v in cl] for cl in cols])
    yt = _arr(sc(sel(c["yt"])), c["oned"], None if pdm is None else pdm[1])
    yp = _arr(sc(sel(c["yp"])), c["oned"], None if pdm is None else pdm[1])
    yb = _arr(sc(sel(c["yb"])), c["oned"], None if pdm is None else pdm[1])
    if c["ytr"] is None:
        ytr = None
    elif c["ytr_list"]:
        ytr = [list(r) for r in np.array(sc(c["ytr"])).T.tolist()]
    else:
        ytr = _arr(sc(sel(c["ytr"])), c["oned"], None if pdm is None else pdm[0])
    if swap:
        yt, yp = yp, yt
    return yt, yp, yb, ytr


def _ctor(c, o):
    """constructor / set_params options of the metric class of case `c`, values taken from `o`"""
    m = c["m"]
    ctor = {}
    if m in PCT:
        ctor["symmetric"] = o["sym"]
    if m in HAS_SQRT:
        ctor["square_root"] = o["sqrt"]
    if m in SCALED:
        ctor["sp"] = o["sp"]
    if m == "masym":
        ctor.update(asymmetric_threshold=o["thr"], left_error_function=o["l"], right_error_function=o["r"])
    if m == "relloss":
        ctor["relative_loss_function"] = getattr(_mod(), FUNCS[o["rlf"]])
    return ctor


def run_real(c):
    m = c["m"]
    if c["via"] == "c":
        import sktime.performance_metrics.forecasting as M
        from sklearn.base import clone
        _mod()
        yt, yp, yb, ytr = _inputs(c)
        ctor = _ctor(c, c)
        o = _opts(c)
        kw = {"horizon_weight": o["horizon_weight"], "multioutput": o["multioutput"]}
        if m in SCALED:
            kw["y_train"] = ytr
        if m in RELATIVE:
            kw["y_pred_benchmark"] = yb
        Cls = getattr(M, CLASSES[m])
        hist = c.get("hist") or "fresh"

        def with_history():
            # the metric object's life before the observed call; options end up as `ctor` in every branch
            if hist == "fresh":
                ob = Cls(**ctor)
            else:
                ob = Cls(**_ctor(c, c["old"]))
                if hist == "attr":
                    for k_, v_ in ctor.items():
                        setattr(ob, k_, v_)
                else:
                    ob.set_params(**ctor)
                if hist == "clone":
                    ob = clone(ob)
                if hist == "reuse":
                    try:
                        ob(yp, yt, **kw)          # an earlier call on other data (truth and forecast exchanged)
                    except Exception:
                        pass
            return ob(yt, yp, **kw)
        cls = _try(with_history)
        fn = _try(lambda: _call(c, yt, yp, yb, ytr))
        out = "cls=%s fn=%s" % (cls, fn)
        if hist != "fresh":
            out += " | fresh=" + _try(lambda: Cls(**ctor)(yt, yp, **kw))
        return out
    yt, yp, yb, ytr = _inputs(c)
    main = _try(lambda: _call(c, yt, yp, yb, ytr))
    extras = []
    if main[:2] in ("s:", "a:"):
        if m in PCT and c["sym"]:
            a = _inputs(c, swap=True)
            extras.append("swap=" + _try(lambda: _call(c, *a)))
        if m in SCALED and c.get("c", 1.0) != 1.0:
            a = _inputs(c, scale=c["c"])
            extras.append("scale=" + _try(lambda: _call(c, *a)))
        k = len(c["yt"])
        if k > 1:
            extras.append("rawv=" + _try(lambda: _call(c, yt, yp, yb, ytr, mo="raw")))
            per = []
            for j in range(k):
                a = _inputs(c, col=j)
                per.append(_try(lambda: _call(c, *a, mo="uni")))
            extras.append("percol=" + "/".join(per))
    return main if not extras else main + " | " + " ".join(extras)


# ----------------------------------------------------------------------------- compare (float vs exact)
def _root(q, k):
    """float value of q^(1/k) for an exact rational q >= 0"""
    if k == 1:
        return float(q)
    if q == 0:
        return 0.0
    if q < 0:
        return float("nan")
    lg = math.log(q.numerator) - math.log(q.denominator)
    return math.exp(lg / k)


def _fracs(s):
    return [] if s == "-" else [Fraction(x) for x in s.split(",")]


def _model_value(s):
    """('s', float) | ('a', [floats]) | ('e', token)"""
    p = s.split(":")
    if p[0] == "raw":
        k = int(p[1])
        return ("a", [_root(q, k) for q in _fracs(p[2])])
    if p[0] == "avg":
        k = int(p[1]); qs = _fracs(p[3])
        ws = [Fraction(1)] * len(qs) if p[2] == "-" else _fracs(p[2])
        if k == 1:
            return ("s", float(sum(w * q for w, q in zip(ws, qs)) / sum(ws)))
        return ("s", sum(float(w) * _root(q, k) for w, q in zip(ws, qs)) / float(sum(ws)))
    return ("e", s)


def _real_value(s):
    if s.startswith("s:"):
        return ("s", float(s[2:]))
    if s.startswith("a:"):
        return ("a", [float(x) for x in s[2:].split(",")])
    return ("e", s)


def relclose(a, b, tol=1e-9):
    if a == b:
        return True
    return abs(a - b) <= tol * max(abs(a), abs(b))


def _same(r, mo):
    rv, mv = _real_value(r), _model_value(mo)
    if rv[0] != mv[0]:
        return False
    if rv[0] == "e":
        return rv[1] == mv[1]
    if rv[0] == "s":
        return relclose(rv[1], mv[1])
    return len(rv[1]) == len(mv[1]) and all(relclose(x, y) for x, y in zip(rv[1], mv[1]))


def compare(real_out, model_out):
    main = real_out.split(" | ")[0]
    if main.startswith("cls="):
        rp, mp = main.split(" "), model_out.split(" ")
        if len(rp) != 2 or len(mp) != 2:
            return False
        return _same(rp[0][4:], mp[0][4:]) and _same(rp[1][3:], mp[1][3:])
    return _same(main, model_out)


# ----------------------------------------------------------------------------- oracle: the property text
def _F(cols):
    return None if cols is None else [[Fraction(v) for v in c] for c in cols]


def _median(xs):
    s = sorted(xs); n = len(s)
    return s[n // 2] if n % 2 else (s[n // 2 - 1] + s[n // 2]) / 2


def _wmedian(xs, ws):
    """lower weighted median: the smallest value whose cumulative weight reaches half the total weight"""
    half = sum(ws) / 2
    return min(v for v in xs if sum(w for x, w in zip(xs, ws) if x <= v) >= half)


def _wmean(xs, ws):
    if ws is None:
        return sum(xs) / len(xs)
    return sum(w * x for w, x in zip(ws, xs)) / sum(ws)


def _agg_mid(xs, ws, kind):
    if kind == "mean":
        return _wmean(xs, ws)
    return _median(xs) if ws is None else _wmedian(xs, ws)


class Undefined(Exception):
    """textbook formula undefined on this input (a denominator smaller than EPS)"""


def _pct(t, p, sym):
    out = []
    for a, b in zip(t, p):
        d = abs(a) + abs(b) if sym else abs(a)
        if d < EPS:
            raise Undefined
        out.append((2 if sym else 1) * abs(a - b) / d)
    return out


def _rel(t, p, b):
    out = []
    for x, y, z in zip(t, p, b):
        if abs(x - z) < EPS:
            raise Undefined
        out.append((x - y) / (x - z))
    return out


def _base_col(m, t, p, w, sym=True):
    """textbook value of a two-argument metric on one column (no root)"""
    kind = "mean" if m in ("mae", "mse", "mape", "mspe") else "median"
    if m in ("mae", "mdae"):
        e = [abs(a - b) for a, b in zip(t, p)]
    elif m in ("mse", "mdse"):
        e = [(a - b) ** 2 for a, b in zip(t, p)]
    elif m in ("mape", "mdape"):
        e = _pct(t, p, sym)
    else:
        e = [v ** 2 for v in _pct(t, p, sym)]
    return _agg_mid(e, w, kind)


def _col_value(c, t, p, b, tr, w):
    """(num, den, k) for one column: value = (num/den)^(1/k); den None = no ratio.  Textbook definitions
    (Hyndman & Koehler 2006), independent of the code."""
    m = c["m"]
    k = 2 if (m in HAS_SQRT and c["sqrt"]) else 1
    if m in BASES:
        return _base_col(m, t, p, w, c["sym"]), None, k
    if m == "masym":
        fs = {"squared": lambda x: x * x, "absolute": abs}
        e = [fs[c["l"]](a - b_) if a - b_ < Fraction(c["thr"]) else fs[c["r"]](a - b_) for a, b_ in zip(t, p)]
        return _wmean(e, w), None, 1
    if m in ("mrae", "mdrae"):
        e = [abs(v) for v in _rel(t, p, b)]
        return _agg_mid(e, w, "mean" if m == "mrae" else "median"), None, 1
    if m in GM:
        e = [abs(v) if m == "gmrae" else v * v for v in _rel(t, p, b)]
        e = [EPS if v == 0 else v for v in e]           # documented machine-epsilon floor
        n = len(e)
        if w is None:
            return math.prod(e), None, k * n
        den = 1
        for x in w:
            den = den * x.denominator // math.gcd(den, x.denominator)
        a = [int(x * den) for x in w]
        return math.prod(v ** i for v, i in zip(e, a)), None, k * sum(a)
    if m in SCALED:
        inner = {"mase": "mae", "mdase": "mdae", "msse": "mse", "mdsse": "mdse"}[m]
        sp = c["sp"]
        num = _base_col(inner, t, p, w)
        den = _base_col(inner, tr[sp:], tr[:-sp], None)
        return num, den, k
    if m == "relloss":
        return _base_col(c["rlf"], t, p, w), _base_col(c["rlf"], t, b, w), 1
    raise KeyError(m)


def _valid(c):
    """inputs on which the property promises a value"""
    yt, yp = c["yt"], c["yp"]
    m = c["m"]
    k = len(yt)
    if k < 1 or len(yp) != k:
        return False
    n = len(yt[0])
    if n < 1 or any(len(col) != n for col in yt + yp):
        return False
    if m in RELATIVE:
        if c["yb"] is None or len(c["yb"]) != k or any(len(col) != n for col in c["yb"]):
            return False
    if m in SCALED:
        tr = c["ytr"]
        if tr is None or c["ytr_list"] or len(tr) != k:
            return False
        if not (1 <= c["sp"] < len(tr[0])):
            return False
        if c["pd"] is not None and c["pd"][0] + len(tr[0]) - 1 >= c["pd"][1]:
            return False
    if c["hw"] is not None:
        if len(c["hw"]) != n or min(c["hw"]) < 0 or sum(c["hw"]) <= 0:
            return False
    mo = c["mo"]
    if isinstance(mo, list):
        if k == 1 or len(mo) != k or min(mo) < 0 or sum(mo) <= 0:
            return False
    elif mo not in ("raw", "uni"):
        return False
    if m == "masym" and not (c["l"] in ("squared", "absolute") and c["r"] in ("squared", "absolute")):
        return False
    return True


def _textbook(c, mo=None):
    """expected float(s) by the textbook formula: ('s', x) | ('a', [x…]); raises Undefined"""
    yt, yp, yb, tr = _F(c["yt"]), _F(c["yp"]), _F(c["yb"]), _F(c["ytr"])
    w = None if c["hw"] is None else [Fraction(x) for x in c["hw"]]
    k = len(yt)
    cols = [_col_value(c, yt[j], yp[j], None if yb is None else yb[j], None if tr is None else tr[j], w) for j in range(k)]
    mo = c["mo"] if mo is None else mo
    deg = cols[0][2]

    def ratio(num, den):
        if den is None:
            return num
        if den < EPS:
            raise Undefined
        return num / den
    if mo == "raw":
        return ("a", [_root(ratio(nu, de), deg) for nu, de, _ in cols])
    ws = [Fraction(1)] * k if mo == "uni" else [Fraction(x) for x in mo]
    if cols[0][1] is not None:
        # scaled errors / relative loss: the averaged loss over the averaged reference loss (as in the docstring example)
        nu = sum(w_ * x[0] for w_, x in zip(ws, cols)) / sum(ws)
        de = sum(w_ * x[1] for w_, x in zip(ws, cols)) / sum(ws)
        return ("s", _root(ratio(nu, de), deg))
    return ("s", sum(float(w_) * _root(x[0], deg) for w_, x in zip(ws, cols)) / float(sum(ws)))


def _key(c, what):
    m = c["m"]
    if c["via"] == "c":
        return "class:%s:%s" % (CLASSES[m], what)
    parts = [FUNCS[m], "hw" if c["hw"] is not None else "nohw"]
    if m in PCT:
        parts.append("symmetric" if c["sym"] else "asymmetric")
    parts.append(what)
    return ":".join(parts)


def _vals(v):
    return [v[1]] if v[0] == "s" else list(v[1])


HIST_TEXT = {"setp": "constructed with other options, then set_params(new options): ",
             "attr": "constructed with other options, then the option attributes assigned: ",
             "clone": "constructed with other options, set_params(new options), then sklearn clone(): ",
             "reuse": "set_params(new options), called once on other data, then called again: "}


def _hist_text(c):
    return HIST_TEXT.get(c.get("hist") or "fresh", "")


def oracle(c, real_out):
    fails = []
    main, _, extra = real_out.partition(" | ")
    ex = dict(p.split("=", 1) for p in extra.split(" ")) if extra else {}
    valid = _valid(c)
    m = c["m"]
    if c["via"] == "c":
        # "each metric class returns exactly what its function returns with the same options"
        cls, fn = main.split(" ")
        cls, fn = cls[4:], fn[3:]
        if _real_value(fn)[0] != "e" and valid:
            if _real_value(cls)[0] == "e":
                fails.append((_key(c, "raises-" + cls), "%s(...)(y_true, y_pred) raised %s; the function returned %s" % (CLASSES[m], cls, fn)))
            elif cls != fn:
                fails.append((_key(c, "differs-from-function"), "%sclass returned %s, function returned %s" % (
                    _hist_text(c), cls, fn)))
            # … at every point of the object's life: same as a freshly constructed object with the current options
            if "fresh" in ex and ex["fresh"] != cls:
                fails.append((_key(c, "differs-from-fresh-object"), "%sobject returned %s, a freshly constructed one %s" % (
                    _hist_text(c), cls, ex["fresh"])))
        return fails
    rv = _real_value(main)
    if not valid:
        return fails
    if rv[0] == "e":
        fails.append((_key(c, "raises-" + main), "valid input, the metric raised / returned %s" % main))
        return fails
    k = len(c["yt"])
    # shape: raw_values -> one value per output column, otherwise a scalar
    if (c["mo"] == "raw") != (rv[0] == "a") or (rv[0] == "a" and len(rv[1]) != k):
        fails.append((_key(c, "shape"), "multioutput=%r with %d columns returned %s" % (c["mo"], k, main)))
        return fails
    vals = _vals(rv)
    # textbook formula
    try:
        tb = _textbook(c)
        if not all(relclose(x, y) for x, y in zip(vals, _vals(tb))):
            fails.append((_key(c, "formula"), "returned %s, textbook formula gives %s" % (main, _vals(tb))))
    except Undefined:
        pass
    # every loss is non-negative
    if any(v < 0 for v in vals):
        fails.append((_key(c, "negative"), "returned %s" % main))
    # zero for a perfect forecast (geometric means: machine-epsilon floor)
    if c["yt"] == c["yp"]:
        if m in GM:
            floor = math.sqrt(FEPS) if (m == "gmrse" and c["sqrt"]) else FEPS
            if not all(relclose(v, floor, 1e-9) for v in vals):
                fails.append((_key(c, "perfect-floor"), "perfect forecast returned %s, floor is %r" % (main, floor)))
        elif any(v != 0 for v in vals):
            fails.append((_key(c, "perfect-nonzero"), "perfect forecast returned %s" % main))
    # symmetric percentage errors: swap-invariant, within [0, 2]
    if m in PCT and c["sym"]:
        hi = 4.0 if (m in ("mspe", "mdspe") and not c["sqrt"]) else 2.0
        if any(v > hi * (1 + 1e-12) for v in vals):
            fails.append((_key(c, "above-bound"), "returned %s > %g" % (main, hi)))
        if "swap" in ex:
            sv = _real_value(ex["swap"])
            if sv[0] != rv[0] or not all(relclose(x, y, 1e-12) for x, y in zip(vals, _vals(sv))):
                fails.append((_key(c, "swap"), "f(y_true,y_pred)=%s but f(y_pred,y_true)=%s" % (main, ex["swap"])))
    # scaled errors: invariant to rescaling all series by a positive constant (where the naive error is not clamped)
    if m in SCALED and "scale" in ex:
        try:
            _textbook(c)
            cc = dict(c); s = Fraction(c["c"])
            for f_ in ("yt", "yp", "ytr"):
                cc[f_] = [[float(Fraction(v) * s) for v in col] for col in c[f_]]
            _textbook(cc)
            sv = _real_value(ex["scale"])
            if sv[0] != rv[0] or not all(relclose(x, y) for x, y in zip(vals, _vals(sv))):
                fails.append((_key(c, "scale"), "metric=%s, after rescaling all series by %r: %s" % (main, c["c"], ex["scale"])))
        except Undefined:
            pass
    # multi-output: per output column
    if k > 1 and "percol" in ex and "rawv" in ex:
        per = [_real_value(x) for x in ex["percol"].split("/")]
        rw = _real_value(ex["rawv"])
        if rw[0] != "a" or len(rw[1]) != k or any(p[0] != "s" for p in per) or \
                not all(relclose(x, p[1]) for x, p in zip(rw[1], per)):
            fails.append((_key(c, "percol"), "raw_values=%s but column-by-column calls give %s" % (ex["rawv"], ex["percol"])))
        elif rv[0] == "s" and m not in SCALED and m != "relloss":
            ws = [1.0] * k if c["mo"] == "uni" else [float(x) for x in c["mo"]]
            exp = sum(w_ * x for w_, x in zip(ws, rw[1])) / sum(ws)
            if not relclose(vals[0], exp):
                fails.append((_key(c, "average"), "returned %s, weighted average of the per-column values is %r" % (main, exp)))
    return fails


# ----------------------------------------------------------------------------- evidence helpers
def nontrivial(c, real_out):
    main = real_out.split(" | ")[0]
    if c["via"] == "c":
        return main.startswith("cls=s:") and len(c["yt"][0]) >= 2
    return main[:2] in ("s:", "a:") and len(c["yt"]) >= 1 and len(c["yt"][0]) >= 2


def features(c, real_out):
    main = real_out.split(" | ")[0]
    f = ["via:" + c["via"], "metric:" + c["m"]]
    if c["via"] == "c":
        f.append("magnitude:" + _mag_bucket(c))
        f.append("object-history:" + (c.get("hist") or "fresh"))
        f.append("class-result:" + main.split(" ")[0][4:].split(":")[0][:12])
        return f
    kind = main.split(":")[0] if main[:2] in ("s:", "a:") else main
    f.append("result:" + kind)
    f.append("magnitude:" + _mag_bucket(c))
    if c["yt"]:
        f.append("cols:%d" % len(c["yt"]))
        f.append("n:%s" % (len(c["yt"][0]) if len(c["yt"][0]) < 6 else "6+"))
    f.append("hw:" + ("none" if c["hw"] is None else "zero-sum" if sum(c["hw"]) == 0 else "some-zero" if 0 in c["hw"] else "positive"))
    f.append("mo:" + (c["mo"] if isinstance(c["mo"], str) else "weights"))
    if c["m"] in PCT:
        f.append("symmetric:%s" % c["sym"])
    if c["m"] in HAS_SQRT:
        f.append("square_root:%s" % c["sqrt"])
    if c["m"] in SCALED:
        f.append("sp:%d" % c["sp"])
    if c["pd"] is not None:
        f.append("container:pandas")
    if c["yt"] == c["yp"]:
        f.append("perfect-forecast")
    if _valid(c):
        try:
            _textbook(c)
        except Undefined:
            f.append("eps-clamp-active")
        except Exception:
            pass
    else:
        f.append("invalid-input")
    return f


def _mag_bucket(c):
    """size of the largest data value: where the case sits relative to EPS = 2^-52 and to 1"""
    vs = [abs(v) for f_ in ("yt", "yp", "yb", "ytr") if c[f_] is not None for col in c[f_] for v in col if v]
    if not vs:
        return "all-zero"
    e = math.frexp(max(vs))[1]
    return ("below-eps" if e <= -52 else "2^-52..2^-27" if e <= -27 else "2^-27..2^-14" if e <= -14 else
            "2^-14..2^-5" if e <= -5 else "unit" if e <= 5 else "2^5..2^20" if e <= 20 else "above-2^20")


def _rescale(c, e):
    """every series of the case (and the asymmetric threshold, a value on the scale of the data) times 2^e; exact in floats"""
    f_ = 2.0 ** e
    d = dict(c)
    for k_ in ("yt", "yp", "yb", "ytr"):
        if c[k_] is not None:
            d[k_] = [[v * f_ for v in col] for col in c[k_]]
    d["thr"] = c["thr"] * f_
    if c.get("old"):
        d["old"] = dict(c["old"]); d["old"]["thr"] = c["old"]["thr"] * f_
    return d


def shrink(c):
    # bring the magnitude towards 1 (all series by a common power of two)
    vs = [abs(v) for f_ in ("yt", "yp", "yb", "ytr") if c[f_] is not None for col in c[f_] for v in col if v]
    if vs:
        e = math.frexp(max(vs))[1]
        if e < -3 or e > 7:
            yield _rescale(c, -e + 2)
            yield _rescale(c, (-e + 2) // 2)
            yield _rescale(c, 4 if e < 0 else -4)
    n = len(c["yt"][0]) if c["yt"] else 0
    k = len(c["yt"])
    # drop a horizon step
    if n > 1:
        for i in range(n):
            d = dict(c)
            for f_ in ("yt", "yp", "yb"):
                if c[f_] is not None and all(len(col) == n for col in c[f_]):
                    d[f_] = [col[:i] + col[i + 1:] for col in c[f_]]
            if c["hw"] is not None and len(c["hw"]) == n:
                d["hw"] = c["hw"][:i] + c["hw"][i + 1:]
            yield d
    # drop an output column
    if k > 1:
        for j in range(k):
            d = dict(c)
            for f_ in ("yt", "yp", "yb", "ytr"):
                if c[f_] is not None and len(c[f_]) == k:
                    d[f_] = c[f_][:j] + c[f_][j + 1:]
            if isinstance(c["mo"], list) and len(c["mo"]) == k:
                d["mo"] = (c["mo"][:j] + c["mo"][j + 1:]) if k > 2 else "uni"
            yield d
    # shorten the training series
    if c["ytr"] is not None and c["ytr"] and len(c["ytr"][0]) > c["sp"] + 1:
        d = dict(c); d["ytr"] = [col[1:] for col in c["ytr"]]; yield d
    if c["hw"] is not None:
        d = dict(c); d["hw"] = None; yield d
        if any(v != 1.0 for v in c["hw"]) and sum(c["hw"]) > 0:
            d = dict(c); d["hw"] = [1.0 if v else 0.0 for v in c["hw"]]; yield d
    if isinstance(c["mo"], list):
        d = dict(c); d["mo"] = "uni"; yield d
    if c["pd"] is not None:
        d = dict(c); d["pd"] = None; yield d
    if not c["oned"] and k == 1:
        d = dict(c); d["oned"] = True; yield d
    # simplify numbers
    for f_ in ("yt", "yp", "yb", "ytr"):
        if c[f_] is None:
            continue
        for j, col in enumerate(c[f_]):
            for i, v in enumerate(col):
                for nv in (0.0, 1.0, float(round(v))):
                    if nv != v and abs(nv) <= abs(v) + 1:
                        d = dict(c)
                        d[f_] = [list(cl) for cl in c[f_]]
                        d[f_][j][i] = nv
                        yield d
                        break


# ----------------------------------------------------------------------------- generators
def case(m, yt, yp, yb=None, ytr=None, via="f", sp=1, hw=None, mo="uni", sym=True, sqrt=False, thr=0.0,
         l="squared", r="absolute", rlf="mae", oned=True, pdm=None, ytr_list=False, c=4.0):
    return {"via": via, "m": m, "yt": yt, "yp": yp, "yb": yb, "ytr": ytr, "ytr_list": ytr_list, "sp": sp, "pd": pdm,
            "hw": hw, "mo": mo, "sym": sym, "sqrt": sqrt, "thr": thr, "l": l, "r": r, "rlf": rlf, "oned": oned, "c": c}


def _option_grid(m, n):
    hws = [None, [1.0] * n, [1.0, 3.0][:n], [0.0, 2.0][:n]] if n > 1 else [None, [2.0]]
    out = []
    for hw in hws:
        for mo in ("uni", "raw"):
            syms = (True, False) if m in PCT else (True,)
            sqs = (False, True) if m in HAS_SQRT else (False,)
            for sym in syms:
                for sq in sqs:
                    out.append(dict(hw=hw, mo=mo, sym=sym, sqrt=sq))
    return out


SMALL_V = (-1.0, 0.0, 1.0)
SMALL_B = {1: ([0.0], [2.0]), 2: ([0.0, 1.0], [2.0, -1.0], [1.0, 1.0])}
SMALL_TR = ([0.0, 1.0, 3.0], [2.0, 2.0, 2.0, 2.0], [1.0, -1.0, 0.0, 2.0])


def small_scope():
    """fixed-order enumeration; every case is univariate with n <= 2"""
    out = []
    for m in METRICS:
        for n in (1, 2):
            pairs = list(itertools.product(itertools.product(SMALL_V, repeat=n), repeat=2))
            for og in _option_grid(m, n):
                for t, p in pairs:
                    t, p = list(t), list(p)
                    if m in RELATIVE:
                        rl = ("mae", "mdspe") if m == "relloss" else ("mae",)
                        for b in SMALL_B[n]:
                            for rlf in rl:
                                out.append(case(m, [t], [p], yb=[list(b)], rlf=rlf, **og))
                    elif m in SCALED:
                        for i, tr in enumerate(SMALL_TR):
                            out.append(case(m, [t], [p], ytr=[list(tr)], sp=1 + (i == 2), **og))
                    elif m == "masym":
                        for thr, l, r in ((0.0, "squared", "absolute"), (0.5, "absolute", "squared"), (-1.0, "squared", "squared")):
                            out.append(case(m, [t], [p], thr=thr, l=l, r=r, **og))
                    else:
                        out.append(case(m, [t], [p], **og))
    # n = 3 for the median-type metrics: all y_true, y_pred in {-1, 0, 2}^3 x horizon-weight patterns
    # (np.median odd length, ties, and every branch of the weighted percentile walk)
    V3 = (-1.0, 0.0, 2.0)
    pairs3 = list(itertools.product(itertools.product(V3, repeat=3), repeat=2))
    hws3 = (None, [1.0, 1.0, 1.0], [1.0, 2.0, 1.0], [0.0, 1.0, 3.0], [2.0, 1.0, 1.0])
    for m in ("mdae", "mdse", "mdape", "mdspe", "mdase", "mdsse", "mdrae"):
        for hw in hws3:
            for sym in ((True, False) if m in PCT else (True,)):
                for t, p in pairs3:
                    t, p = list(t), list(p)
                    if m in SCALED:
                        out.append(case(m, [t], [p], ytr=[[1.0, -1.0, 0.0, 2.0, 2.0]], sp=2, hw=hw))
                    elif m == "mdrae":
                        out.append(case(m, [t], [p], yb=[[0.0, 1.0, -2.0]], hw=hw))
                    else:
                        out.append(case(m, [t], [p], hw=hw, sym=sym))
    return out


def _dy(rng, lo=-8, hi=8, den_pow=2):
    d = 1 << rng.randrange(0, den_pow + 1)
    return rng.randrange(lo * d, hi * d + 1) / d


def _series(rng, n, style):
    if style == "const":
        v = _dy(rng)
        return [v] * n
    if style == "zeros":
        return [0.0 if rng.random() < 0.5 else _dy(rng) for _ in range(n)]
    if style == "pos":
        return [abs(_dy(rng)) + 0.25 for _ in range(n)]
    if style == "ties":
        pool = [_dy(rng, -2, 2, 1) for _ in range(2)]
        return [rng.choice(pool) for _ in range(n)]
    if style == "int":
        return [float(rng.randrange(-3, 4)) for _ in range(n)]
    return [_dy(rng) for _ in range(n)]


STYLES = ("any", "any", "zeros", "pos", "ties", "int", "const")


def _weights(rng, n):
    r = rng.random()
    if r < 0.35:
        return [float(rng.randrange(1, 5)) for _ in range(n)]
    if r < 0.6:
        w = [float(rng.randrange(0, 4)) for _ in range(n)]
        if sum(w) == 0:
            w[rng.randrange(n)] = 1.0
        return w
    if r < 0.8:
        return [rng.randrange(1, 9) / 4 for _ in range(n)]
    if r < 0.9:
        return [1.0] * n
    return [0.5] * n


# common factor 2^e of all series of a case: errors and naive errors from below EPS = 2^-52 up to 2^40
MAG_EXPS = (-56, -48, -44, -40, -36, -32, -28, -24, -20, -16, -12, -8, 8, 16, 24, 40)
RESCALE = (4.0, 0.5, 0.125, 16.0, 2.0 ** -10, 2.0 ** 12, 2.0 ** -20, 2.0 ** 20, 2.0 ** -30)


def magnitude_scope(ss, step, off):
    """a slice of the small scope with every series times 2^e, e rotating over MAG_EXPS"""
    return [_rescale(c, MAG_EXPS[i % len(MAG_EXPS)]) for i, c in enumerate(ss[off::step])]


def random_case(rng, m=None, via="f"):
    m = m or rng.choice(METRICS)
    n = rng.choice((1, 2, 2, 3, 3, 4, 4, 5, 6, 7, 8, 10, 12))
    k = rng.choice((1, 1, 1, 2, 2, 3))
    st = rng.choice(STYLES)
    yt = [_series(rng, n, st) for _ in range(k)]
    r = rng.random()
    if r < 0.1:
        yp = [list(col) for col in yt]                       # perfect forecast
    elif r < 0.3:
        yp = [[v if rng.random() < 0.5 else _dy(rng) for v in col] for col in yt]   # partly perfect
    elif r < 0.4:
        yp = [[-v for v in col] for col in yt]               # sign flipped
    else:
        yp = [_series(rng, n, rng.choice(STYLES)) for _ in range(k)]
    yb = ytr = None
    if m in RELATIVE:
        r = rng.random()
        if r < 0.15:
            yb = [[v if rng.random() < 0.4 else _dy(rng) for v in col] for col in yt]   # benchmark hits truth: eps clamp
        else:
            yb = [_series(rng, n, rng.choice(STYLES)) for _ in range(k)]
    sp = 1
    if m in SCALED:
        sp = rng.choice((1, 1, 2, 3, 4))
        ln = sp + rng.randrange(1, 11)
        ytr = [_series(rng, ln, rng.choice(STYLES)) for _ in range(k)]
    hw = _weights(rng, n) if rng.random() < 0.5 else None
    r = rng.random()
    if k > 1 and r < 0.35:
        mo = [float(rng.randrange(0, 4)) for _ in range(k)]
        if sum(mo) == 0:
            mo[0] = 1.0
        if rng.random() < 0.3:
            mo = [v / 4 + 0.25 for v in mo]
    elif r < 0.65:
        mo = "raw"
    else:
        mo = "uni"
    thr = rng.choice((0.0, 0.0, 0.5, -1.0, 2.0, _dy(rng, -2, 2)))
    pdm = None
    if rng.random() < 0.15:
        s0 = rng.randrange(-3, 4)
        pdm = [s0, s0 + (len(ytr[0]) if ytr else 3) + rng.randrange(0, 3)]
    out = case(m, yt, yp, yb=yb, ytr=ytr, via=via, sp=sp, hw=hw, mo=mo, sym=rng.random() < 0.55,
               sqrt=rng.random() < 0.4, thr=thr, l=rng.choice(("squared", "absolute")),
               r=rng.choice(("squared", "absolute")), rlf=rng.choice(BASES), oned=rng.random() < 0.6, pdm=pdm,
               c=rng.choice(RESCALE))
    if rng.random() < 0.35:
        out = _rescale(out, rng.choice(MAG_EXPS))           # data quoted in small / large units
    return out


def malformed_case(rng):
    c = random_case(rng)
    m = c["m"]
    n, k = len(c["yt"][0]), len(c["yt"])
    kind = rng.randrange(14)
    if kind == 0:       # length mismatch
        c["yp"] = [col + [1.0] for col in c["yp"]]
    elif kind == 1:     # column mismatch
        c["yp"] = c["yp"] + [list(c["yp"][0])]; c["oned"] = False
    elif kind == 2:     # horizon weights of the wrong length
        c["hw"] = [1.0] * (n + 1)
    elif kind == 3:     # horizon weights sum to zero
        c["hw"] = [0.0] * n
    elif kind == 4:     # output weights: wrong length / single output
        c["mo"] = [1.0] * (k + 1)
    elif kind == 5:     # output weights sum to zero
        c["mo"] = [0.0] * k
    elif kind == 6:
        c["mo"] = "bad"
    elif kind == 7:     # empty
        c["yt"] = [[] for _ in range(k)]; c["yp"] = [[] for _ in range(k)]
        if c["yb"] is not None:
            c["yb"] = [[] for _ in range(k)]
        c["hw"] = None
    elif kind == 8:
        c["m"] = m = rng.choice(SCALED); cc = random_case(rng, m)
        cc["sp"] = rng.choice((0, len(cc["ytr"][0]), len(cc["ytr"][0]) + 2, -1, -2))
        return cc
    elif kind == 9:
        cc = random_case(rng, rng.choice(SCALED)); cc["ytr_list"] = True; cc["pd"] = None
        return cc
    elif kind == 10:
        cc = random_case(rng, "masym")
        cc[rng.choice(("l", "r"))] = rng.choice(("cubic", "abs", ""))
        return cc
    elif kind == 11:    # training series overlaps / follows the horizon (pandas containers)
        cc = random_case(rng, rng.choice(SCALED)); ln = len(cc["ytr"][0])
        cc["pd"] = [0, ln - 1 - rng.randrange(0, 2)]
        return cc
    elif kind == 12:    # benchmark / training with the wrong number of columns or rows
        cc = random_case(rng, rng.choice(SCALED + RELATIVE[:4]))
        f_ = "ytr" if cc["m"] in SCALED else "yb"
        if rng.random() < 0.5:
            cc[f_] = cc[f_] + [list(cc[f_][0])]
        elif f_ == "yb":
            cc[f_] = [col + [0.5] for col in cc[f_]]
        else:
            cc[f_] = [col[:1] for col in cc[f_]]
        cc["oned"] = False
        return cc
    else:               # weighted geometric mean (regression of the former broadcasting defect), mostly valid
        cc = random_case(rng, rng.choice(GM))
        cc["hw"] = _weights(rng, len(cc["yt"][0]))
        return cc
    return c


HISTORIES = ("fresh", "setp", "attr", "clone", "reuse")


def _old_options(rng, c):
    """options the object is constructed with before they are changed: every one differs from the final value"""
    return {"sym": not c["sym"], "sqrt": not c["sqrt"], "sp": c["sp"] + rng.choice((1, 2)),
            "thr": c["thr"] + rng.choice((1.0, -0.5)), "l": "absolute" if c["l"] == "squared" else "squared",
            "r": "absolute" if c["r"] == "squared" else "squared",
            "rlf": rng.choice([b_ for b_ in BASES if b_ != c["rlf"]])}


def class_cases(rng, count):
    """every metric class x every object history (fresh / set_params / attribute assignment / clone / reuse)"""
    out = []
    for i in range(count):
        m = METRICS[i % len(METRICS)]
        c = random_case(rng, m, via="c")
        c["pd"] = None
        c["hist"] = HISTORIES[(i // len(METRICS)) % len(HISTORIES)]
        c["old"] = _old_options(rng, c)
        out.append(c)
    return out


def gen_cases(tier, rng):
    ss = small_scope()
    if tier == "thorough":
        cases = list(ss) + magnitude_scope(ss, 3, rng.randrange(3))
        nrand, nmal, ncls = 36000, 5000, 3600
    else:
        step = 8
        off = rng.randrange(step)
        cases = ss[off::step] + magnitude_scope(ss, 24, rng.randrange(24))
        nrand, nmal, ncls = 2700, 450, 540
    for i in range(nrand):
        cases.append(random_case(rng, METRICS[i % len(METRICS)]))
    for _ in range(nmal):
        cases.append(malformed_case(rng))
    cases.extend(class_cases(rng, ncls))
    return cases
