"""C10 correspondence + oracle: updating with new data is equivalent to having observed it, for
every history (forecaster base classes in sktime/forecasting/base/_sktime.py)."""
import math
from fractions import Fraction
import numpy as np
import fcmachine as M
import predint as PI
from fcmachine import compare


def to_line(c):
    return PI.to_line(c) if c.get("kind") == "pi" else M.to_line(c)


def run_real(c):
    return PI.run_real(c) if c.get("kind") == "pi" else M.run_real(c)

PROP = "C10"
LEAN_MODULE = "SkVerif.Props.C10"
OBLIGATIONS = [
    "SkVerif.C10.lookup_combineFirst",
    "SkVerif.C10.remembered_eq_union_later_wins",
    "SkVerif.C10.remembered_sorted",
    "SkVerif.C10.refit_update_equiv_fresh_fit",
    "SkVerif.C10.refit_update_equiv_fresh_fit_continuation",
    "SkVerif.C10.no_param_update_keeps_params_moves_cutoff",
    "SkVerif.C10.update_predict_restores_cutoff",
    "SkVerif.C10.update_predict_eq_iterated_single",
    "SkVerif.C10.update_predict_labels_are_cutoffs",
    "SkVerif.C10.update_half_applied_without_fh",
    "SkVerif.C10.update_predict_single_intervals_eq_update_then_predict",
    "SkVerif.C10.predict_without_intervals_ignores_alpha",
    "SkVerif.C10.point_forecasts_independent_of_interval_arguments",
    "SkVerif.C10.interval_rows_follow_forecasts",
    "SkVerif.C10.one_table_per_level",
    "SkVerif.C10.update_predict_refuses_intervals_untouched",
    "SkVerif.C10.interval_tables_labelled_like_forecast",
]
TRUSTED = ["hand-written model SkVerif/Model/Forecaster.lean + Series.lean + PredInt.lean of the forecaster base classes (shared with C03)",
           "interval half-widths of real forecasters (z-score, sigma) are floats: compared between twin runs of the real code only; the exact interval probe (harness/probes.py) stands in for them in the correspondence",
           "pandas combine_first is modelled as right-biased union on labels with NaN filled from the older series (exercised by the correspondence)"]
ASSUMPTIONS = ["integer time index; data arrive in time order (every batch ends at or after every label seen before) for the oracle clauses",
               "NaN in a batch counts as 'no observation' (combine_first keeps the older value)",
               "private attributes _y / cutoff are read to observe what the forecaster remembers"]
RULE = ("histories over {fit, update(update_params), predict, update_predict(cv|default), update_predict_single}; series cut into consecutive / "
        "overlapping batches; concrete cores (naive last/mean, probe) with exact values + opaque composites (index-only); "
        "distinct by driver line; non-trivial = at least one update applied and one prediction returned")
LEVEL_TEXT = ("Lean 4 theorems over the forecaster state-machine model: the remembered series after any sequence of updates is the later-wins union "
              "(lookup characterisation of combine_first, by induction over batches), fit;update(refit) is state-equal to a fresh fit on the union hence "
              "equal under every continuation, update without refit keeps fitted parameters and moves the cutoff, update_predict equals the iterated "
              "single update+predict labelled by cutoffs and restores the cutoff; the prediction-interval layer (Model/PredInt.lean: return_pred_int / alpha through predict, "
              "update_predict_single, update_predict, check_alpha, compute_pred_int) proves that update_predict_single returns the interval tables of update followed by predict "
              "for every level argument; tied to the real base classes by differential correspondence on "
              "histories; each clause is also evaluated directly on the real code by twin runs.")
LEVEL_NOTE = ("Trusted: Lean kernel; axioms propext/Classical.choice/Quot.sound; model faithfulness as exercised; harness + compat layer. "
              "Composite forecasters' own update logic (ensemble, pipeline, stacking, multiplexer) is covered index-only here and by C09.")
TECHNIQUE = "Lean 4 proof (induction over batches / histories, state equality) + differential correspondence + twin-run oracle"


def _labels(s):
    return [l for l, _ in s]


def _twin(c, ops):
    return dict(c, ops=ops)


def oracle(c, out):
    if c.get("kind") == "pi":
        return PI.oracle(c, out)
    fails = []
    res, ys = M.parse_tokens(out)
    name = c["core"]
    opq = name.startswith("opaque")
    site = name.split(":")[-1] if opq else name.split(":")[0]
    if "E:argmod" in out:
        fails.append((site + ":caller-argument-modified", "a call changed a series / horizon object that belongs to the caller"))
    # ---- (a) remembered = union of all observations, later wins (time-ordered, NaN = no observation)
    in_order = True
    max_label = None
    expected = {}
    fitted = False
    prev_fh = "none"
    for op, (r, st) in zip(c["ops"], res):
        k = op[0]
        prev_fh_now, prev_fh = prev_fh, st[3]
        if k == "fit":
            if op[1]:
                # a fit replaces what is remembered (also when a later step of fit fails)
                expected = {l: v for l, v in op[1]}
                max_label = max(_labels(op[1]))
            if r[0] == "ok":
                fitted = True
        elif k in ("upd", "ups", "up") and op[1]:
            if max_label is not None and op[1][-1][0] < max_label:
                in_order = False
            applied = fitted and not (r[0] == "E" and r[1] in ("E:notfitted",))
            if k == "ups" and r[0] == "E" and (op[2] is None and prev_fh_now == "none"):
                applied = False          # rejected by the horizon check before any data were merged
            if k == "ups" and r[0] == "E" and c["mode"] == "r" and op[2] is not None:
                applied = False
            if k == "up":
                # update_predict feeds the windows its splitter yields: only those observations are remembered
                applied = False
                if fitted and r[0] in ("S", "F") and expected is not None:
                    fed = _fed_by_update_predict(op, st)
                    if fed is None:
                        expected = None
                        continue
                    for l, v in op[1]:
                        if l in fed and (v is not None or l not in expected):
                            expected[l] = v
                    max_label = max(max_label, max(fed)) if fed else max_label
                elif fitted:
                    expected = None  # partially applied on error: not specified
            if applied and expected is not None:
                if k == "ups" and r[0] == "E" and r[1] != "E:value":
                    pass
                for l, v in op[1]:
                    if v is not None or l not in expected:
                        expected[l] = v
                max_label = max(max_label, max(_labels(op[1]))) if max_label is not None else max(_labels(op[1]))
    if not opq and in_order and expected is not None and ys is not None and fitted:
        got = {l: v for l, v in ys}
        if sorted(got) != sorted(expected):
            fails.append((site + ":remembered-labels", "remembers labels %r, expected %r" % (sorted(got), sorted(expected))))
        else:
            for l in got:
                a, b = got[l], expected[l]
                b = None if b is None else Fraction(b)
                if a != b:
                    fails.append((site + ":remembered-values", "label %r remembered as %r, expected %r" % (l, a, b)))
                    break
        if [l for l, _ in ys] != sorted(l for l, _ in ys):
            fails.append((site + ":remembered-unsorted", repr(ys)))
    # ---- composites: every component forecaster must remember what the composite was given
    if opq and in_order and fitted:
        bad = _components_remember(c)
        if bad:
            fails.append((site + ":component-does-not-remember-update", bad))
    # ---- composites: after every successful call every component forecaster, at any depth, stands at the composite's cutoff
    if opq and fitted:
        bad = _components_cutoff(c)
        if bad:
            fails.append((site + ":component-cutoff-differs", bad))
    # ---- pipelines: what the final forecaster remembers of the last batch is that batch as its (fitted) transformers map it
    if opq and fitted:
        bad = _pipeline_memory(c)
        if bad:
            fails.append((site + ":pipeline-final-forecaster-remembers-untransformed-data", bad))
    # ---- per-op clauses on twins
    prev = (False, None, 0, "none")
    for i, (op, (r, st)) in enumerate(zip(c["ops"], res)):
        k = op[0]
        # (d) update_predict leaves the cutoff where it was
        if k == "up" and prev[0]:
            if st[1] != prev[1]:
                fails.append((site + ":update-predict-moves-cutoff", "cutoff %r before, %r after update_predict" % (prev[1], st[1])))
            if r[0] in ("S", "F") and in_order and not opq:
                bad = _check_update_predict(c, i, r)
                if bad:
                    fails.append((site + ":update-predict-differs-from-single-steps", bad))
            if r[0] in ("S", "F") and in_order and opq and op[2] is not None:
                bad = _check_update_predict_opaque(c, i)
                if bad:
                    fails.append((site + ":update-predict-differs-from-single-steps", bad))
        # (b) refit-on-update == fresh fit on the union, (c) no-refit update keeps parameters
        if k == "upd" and r[0] == "ok" and op[1] and in_order and prev[0] and (c["mode"] == "o" or opq) and (not opq or (op[2] and _refit_comparable(c, i))):
            bad = _check_update_equiv(c, i, op[2])
            if bad:
                fails.append((site + (":refit-update-differs-from-fresh-fit" if op[2] else ":no-refit-update-changed-forecast"), bad))
        # (a') remembering the union: re-stating known observations unchanged next to the new ones changes nothing
        #      (without refit for every forecaster; with refit for those whose update is a refit of the whole forecaster)
        if k == "upd" and r[0] == "ok" and op[1] and in_order and prev[0] and (c["mode"] == "o" or opq) \
                and c["core"].split(":")[-1] not in PER_CALL_STATISTICS and (not op[2] or not opq or _refit_comparable(c, i)):
            bad = _check_restated_idempotent(c, i)
            if bad:
                fails.append((site + ":restated-observations-change-forecasts", bad))
        # (c'') statsmodels-backed forecasters keep the fitted model when parameter updating is disabled: forecasts "from the
        #       new cutoff" are then that model carried on to the new time points -- what was forecast for step k+h before k
        #       new observations arrived is what is forecast for step h afterwards
        if k == "upd" and r[0] == "ok" and op[1] and in_order and opq and prev[0] and not op[2] \
                and c["core"].split(":")[-1] in ADAPTERS and prev[1] is not None and st[1] is not None and st[1] > prev[1]:
            bad = _check_adapter_carries_on(c, i, st[1] - prev[1])
            if bad:
                fails.append((site + ":no-refit-update-forecast-not-from-new-cutoff", bad))
        # (c') ... for every forecaster: with parameter updating disabled the learned parameters (public attributes
        #      ending in "_" of the forecaster and of every component) are those of the last fit
        if k == "upd" and r[0] == "ok" and op[1] and in_order and opq and prev[0] and not op[2]:
            bad = _check_params_kept(c, i)
            if bad:
                fails.append((site + ":no-refit-update-changed-parameters", bad))
        prev = st
    return fails


ADAPTERS = {"expsmooth", "expsmooth_trend", "expsmooth_damped"}


def _check_adapter_carries_on(c, i, k):
    ops = c["ops"]
    steps = [1, 2, 4]
    a_outs, _ = _real_values(_twin(c, ops[:i] + [["pred", ["r", [k + s_ for s_ in steps]]]]))
    b_outs, _ = _real_values(_twin(c, ops[:i + 1] + [["pred", ["r", steps]]]))
    a, b = a_outs[-1], b_outs[-1]
    if isinstance(a, str) or isinstance(b, str):
        return None if isinstance(a, str) else "before the update the forecast for steps %r was made, afterwards steps %r raise %s" % ([k + s_ for s_ in steps], steps, b)
    if list(a.index) != list(b.index):
        return "time points %r before, %r after the update" % ([int(x) for x in a.index], [int(x) for x in b.index])
    if not np.allclose(a.to_numpy(dtype=float), b.to_numpy(dtype=float), rtol=1e-7, atol=1e-9, equal_nan=True):
        return "update(update_params=False) with %d new observations: the forecasts for the same time points %r changed from %r to %r although nothing was re-estimated" % (
            k, [int(x) for x in a.index], [round(float(v), 6) for v in a], [round(float(v), 6) for v in b])
    return None


def _learned(f, path="", out=None, seen=None, depth=0):
    """learned parameters reachable from an estimator: {path: digest}"""
    import pandas as pd
    out = {} if out is None else out
    seen = set() if seen is None else seen
    if id(f) in seen or depth > 6:
        return out
    seen.add(id(f))

    def visit(name, v):
        if hasattr(v, "get_params") and not isinstance(v, type):
            _learned(v, path + name + ".", out, seen, depth + 1)
        elif isinstance(v, (list, tuple)):
            for j, w in enumerate(v):
                visit("%s[%d]" % (name, j), w)
        elif isinstance(v, np.ndarray) and v.dtype.kind in "fiub":
            out[path + name] = ("a", v.shape, v.astype(float).round(9).tolist())
        elif isinstance(v, (pd.Series, pd.DataFrame)):
            out[path + name] = ("p", np.asarray(v, dtype=float).round(9).tolist()) if all(k_ in "fiub" for k_ in np.atleast_1d(v.dtypes).astype(str).tolist() and "f") else ("p", repr(v.shape))
        elif isinstance(v, (int, float, str, bool, np.number)) or v is None:
            out[path + name] = ("s", round(float(v), 9) if isinstance(v, (float, np.floating)) else (int(v) if isinstance(v, (np.integer,)) else v))

    for name, v in sorted(vars(f).items()):
        if (name.endswith("_") and not name.startswith("_")) or name in ("_forecaster",):
            try:
                visit(name, v)
            except Exception:
                pass
    try:      # fitted sub-estimators also sit inside constructor parameters (a scikit-learn Pipeline's steps)
        for name, v in sorted(f.get_params(deep=False).items()):
            if hasattr(v, "get_params") or isinstance(v, (list, tuple)):
                visit("(" + name + ")", v)
    except Exception:
        pass
    return out


def _check_params_kept(c, i):
    ops = c["ops"]
    _, f = _real_values(_twin(c, ops[:i]))
    if not f.is_fitted:
        return None
    before = _learned(f)
    try:
        f.update(M.mk_series(ops[i][1], 0, False), update_params=False)
    except Exception:
        return None
    after = _learned(f)
    for key in sorted(set(before) | set(after)):
        if before.get(key) != after.get(key):
            return "learned parameter %s changed during update(update_params=False): %s -> %s" % (
                key, str(before.get(key))[:80], str(after.get(key))[:80])
    return None


def _check_update_predict_opaque(c, i):
    """update_predict(y, cv) on any forecaster == for each window of cv: update(window); predict(cv's horizon)
    (through the PUBLIC methods, on a twin object brought to the same state)"""
    import pandas as pd, warnings
    warnings.filterwarnings("ignore")
    ops, op = c["ops"], c["ops"][i]
    outs, _ = _real_values(_twin(c, ops[:i + 1]))
    got = outs[-1]
    if isinstance(got, str):
        return None
    _, f = _real_values(_twin(c, ops[:i]))
    y, cv = M.mk_series(op[1], 0, False), M.mk_cv(op[2])
    fh = list(op[2][1])
    preds, cuts = [], []
    try:
        for tr, _ in cv.split(y):
            f.update(y.iloc[tr], update_params=op[3])
            preds.append(f.predict(fh))
            cuts.append(int(f.cutoff))
    except Exception:
        return None
    exp = {}
    for cc, p in zip(cuts, preds):
        for l, v in p.items():
            exp[(int(l), cc)] = float(v)
    gd = {}
    if isinstance(got, pd.Series):
        if len(fh) == 1:
            gd = {(int(l), cc): float(v) for (l, v), cc in zip(got.items(), cuts)}
        else:
            gd = {(int(l), cuts[0] if cuts else None): float(v) for l, v in got.items()}
    else:
        for cc in got.columns:
            for l, v in got[cc].items():
                if v == v:
                    gd[(int(l), int(cc))] = float(v)
    if sorted(gd) != sorted(exp):
        return "update_predict answered for (time point, cutoff) %r, the single updates and predicts for %r" % (sorted(gd)[:6], sorted(exp)[:6])
    for key in gd:
        if abs(gd[key] - exp[key]) > 1e-6 * max(1.0, abs(exp[key])):
            return "value at (time point, cutoff) %r: update_predict %r, single update + predict %r" % (key, gd[key], exp[key])
    return None


def _fed_by_update_predict(op, st):
    """labels of op's batch that its splitter's training windows cover (real splitter = spec here)"""
    from sktime.forecasting.model_selection import SlidingWindowSplitter
    import pandas as pd
    y = M.mk_series(op[1], 0, False)
    cv = M.mk_cv(op[2])
    if cv is None:
        fhs = st[3]
        if fhs == "none" or fhs == "?":
            return set()
        # default splitter: empty window growing by one step; the last cutoff leaves room for max(fh),
        # so the last max(fh) observations of the stretch are never fed
        vals = [int(x) for x in fhs[2:].split(",")] if fhs[2:] != "-" else []
        if fhs[0] == "a":
            return None
        n = len(op[1])
        return set(_labels(op[1])[:max(0, n - max(vals))])
    fed = set()
    try:
        for tr, _ in cv.split(y):
            fed.update(int(y.index[j]) for j in tr)
    except Exception:
        pass
    return fed


def _component_forecasters(f):
    out = []
    for g in (getattr(f, "forecasters_", None) or []):
        out.append(g)
    g = getattr(f, "_forecaster", None)
    if g is not None:
        out.append(g)
    steps = getattr(f, "steps_", None)
    if steps:
        out.append(steps[-1][1])
    g = getattr(f, "best_forecaster_", None)
    if g is not None:
        out.append(g)
    from sktime.forecasting.base._base import BaseForecaster
    res = []
    for g in out:
        if not isinstance(g, BaseForecaster):
            continue          # e.g. the wrapped statsmodels model of an adapter
        res.append(g)
        res.extend(_component_forecasters(g))
    return res


def _components_remember(c):
    """after the history (updates only, data in time order) the labels remembered by each component
    forecaster of a composite must reach the last label the composite itself remembers"""
    if any(o[0] == "up" for o in c["ops"]):
        return None
    _, f = _real_values(c)
    own = getattr(f, "_y", None)
    if own is None or len(own) == 0:
        return None
    last = int(own.index[-1])
    for g in _component_forecasters(f):
        gy = getattr(g, "_y", None)
        if gy is None or not hasattr(gy, "index") or len(gy) == 0:
            continue
        if int(gy.index[-1]) != last or len(gy) != len(own):
            return "%s remembers %d observations up to label %d, the composite %d up to %d" % (
                type(g).__name__, len(gy), int(gy.index[-1]), len(own), last)
    return None


def _pipelines_in(f):
    from sktime.forecasting.compose import TransformedTargetForecaster
    out = [f] if isinstance(f, TransformedTargetForecaster) else []
    for g in _component_forecasters(f):
        if isinstance(g, TransformedTargetForecaster):
            out.append(g)
    return out


def _pipeline_memory(c):
    import warnings
    warnings.filterwarnings("ignore")
    f = M.make_forecaster(c)
    for i, op in enumerate(c["ops"]):
        k = op[0]
        try:
            if k == "fit":
                f.fit(M.mk_series(op[1], 0, False), fh=M.mk_fh(op[2], 0))
            elif k == "pred":
                f.predict(M.mk_fh(op[1], 0))
            elif k == "upd":
                f.update(M.mk_series(op[1], 0, False), update_params=op[2])
            elif k == "up":
                f.update_predict(M.mk_series(op[1], 0, False), cv=M.mk_cv(op[2]), update_params=op[3])
            elif k == "ups":
                f.update_predict_single(M.mk_series(op[1], 0, False), fh=M.mk_fh(op[2], 0), update_params=op[3])
        except Exception:
            return None
        if k not in ("fit", "upd", "ups") or not op[1]:
            continue
        batch = M.mk_series(op[1], 0, False).astype(float)
        for p in _pipelines_in(f):
            steps = getattr(p, "steps_", None)
            if not steps:
                continue
            try:
                z = batch
                for _, t in steps[:-1]:
                    z = t.transform(z)
                mem = steps[-1][1]._y
                got = mem.loc[batch.index].to_numpy(dtype=float)
                want = np.asarray(z, dtype=float).ravel()
            except Exception:
                continue
            if len(got) != len(want) or not np.allclose(got, want, rtol=1e-9, atol=1e-9, equal_nan=True):
                return "after op %d (%s) the final forecaster of the pipeline remembers %r at labels %r, the transformers map the batch to %r" % (
                    i, k, [round(float(v), 6) for v in got], [int(l) for l in batch.index], [round(float(v), 6) for v in want])
    return None


def _components_cutoff(c):
    import warnings
    warnings.filterwarnings("ignore")
    f = M.make_forecaster(c)
    for i, op in enumerate(c["ops"]):
        try:
            k = op[0]
            if k == "fit":
                f.fit(M.mk_series(op[1], 0, False), fh=M.mk_fh(op[2], 0))
            elif k == "pred":
                f.predict(M.mk_fh(op[1], 0))
            elif k == "upd":
                f.update(M.mk_series(op[1], 0, False), update_params=op[2])
            elif k == "up":
                f.update_predict(M.mk_series(op[1], 0, False), cv=M.mk_cv(op[2]), update_params=op[3])
            elif k == "ups":
                f.update_predict_single(M.mk_series(op[1], 0, False), fh=M.mk_fh(op[2], 0), update_params=op[3])
        except Exception:
            return None          # after a failed call the state is not specified here
        try:
            own = f.cutoff
        except Exception:
            continue
        for g in _component_forecasters(f):
            gc = getattr(g, "_cutoff", None)
            if gc is not None and own is not None and int(gc) != int(own):
                return "after op %d (%s): %s stands at cutoff %d, the composite at %d" % (i, op[0], type(g).__name__, int(gc), int(own))
    return None


def _real_values(c):
    """list of per-op real results (Series/DataFrame values as nested lists, or error token)"""
    import warnings, pandas as pd
    warnings.filterwarnings("ignore")
    f = M.make_forecaster(c)
    outs = []
    for op in c["ops"]:
        try:
            k = op[0]
            if k == "fit":
                f.fit(M.mk_series(op[1], 0, False), fh=M.mk_fh(op[2], 0)); outs.append("ok")
            elif k == "pred":
                outs.append(f.predict(M.mk_fh(op[1], 0)))
            elif k == "upd":
                f.update(M.mk_series(op[1], 0, False), update_params=op[2]); outs.append("ok")
            elif k == "up":
                outs.append(f.update_predict(M.mk_series(op[1], 0, False), cv=M.mk_cv(op[2]), update_params=op[3]))
            elif k == "ups":
                outs.append(f.update_predict_single(M.mk_series(op[1], 0, False), fh=M.mk_fh(op[2], 0), update_params=op[3]))
        except Exception as e:
            outs.append("E:" + type(e).__name__)
    return outs, f


def _same(a, b):
    import pandas as pd
    if isinstance(a, str) or isinstance(b, str):
        return isinstance(a, str) and isinstance(b, str)
    if list(a.index) != list(b.index):
        return False
    return np.allclose(a.to_numpy(dtype=float), b.to_numpy(dtype=float), rtol=1e-9, atol=1e-9, equal_nan=True)


PROBE_FH = ["r", [1, 2, 4]]


# "a forecaster that refits on update": update(update_params=True) of these does NOT refit the whole forecaster, by
# their own code -- the stacker leaves its meta-regressor as fitted (it warns that updating it is not implemented), and a
# pipeline whose transformers keep fitted state or per-call statistics (Detrender, Imputer) transforms only the new batch
# with the updated transformer, it does not re-transform what the final forecaster already remembers.  For them the
# statement's refit clause has no subject; their update is checked by the component clauses (memory, cutoff, pipeline
# memory) here and by C09's composition clauses.
# Likewise a tuner's update updates the forecaster it selected and does not search again (C08 states what it must equal),
# and ThetaForecaster has "a custom update_params routine": it keeps the smoothing model of the last fit and only
# recomputes its trend (from the new batch alone when deseasonalize=False -- see DESIGN 11.4, observations).
NOT_A_REFIT = {"stack", "pipeline_detrend", "pipeline_impute", "tuned", "theta"}


# per-call statistics inside a pipeline step (Imputer(method="mean") fills a batch's gaps with THAT batch's mean): a batch that
# re-states known observations is then, by the step's own code, a different input
PER_CALL_STATISTICS = {"pipeline_impute"}


def _check_restated_idempotent(c, i):
    """remembering the UNION: an update batch that re-states observations already known (same labels, same values) next to
    its new ones leaves the forecaster where the new ones alone leave it -- same forecasts afterwards"""
    ops = c["ops"][:i + 1]
    op = ops[-1]
    fit_idx = max(j for j, o in enumerate(ops) if o[0] == "fit")
    known = {}
    for o in ops[fit_idx:i]:
        if o[0] in ("fit", "upd", "ups") and o[1]:
            for l, v in o[1]:
                if v is not None or l not in known:
                    known[l] = v
        elif o[0] == "up":
            return None
    if not known:
        return None
    top = max(known)
    old = [(l, v) for l, v in op[1] if l <= top]
    new = [[l, v] for l, v in op[1] if l > top]
    if not old or not new or any(l not in known or known[l] != v or v is None for l, v in old):
        return None
    probe = PROBE_FH if c["mode"] == "o" else None
    a, _ = _real_values(_twin(c, ops + [["pred", probe]]))
    b, _ = _real_values(_twin(c, ops[:-1] + [[op[0], new] + list(op[2:]), ["pred", probe]]))
    if isinstance(a[-2], str) and a[-2] != "ok" or isinstance(b[-2], str) and b[-2] != "ok":
        return None
    if not _same(a[-1], b[-1]):
        return "update with %s (labels up to %d re-stated unchanged) then forecasts %s; update with the new observations alone then forecasts %s" % (
            M.s_series(op[1]), top, _fmt(a[-1]), _fmt(b[-1]))
    return None



def _refit_comparable(c, i):
    """opaque forecasters: update(update_params=True) is compared with a fresh fit on the union when the history so far
    is fit + plain updates (update_predict feeds only part of its data), no horizon is absolute and the labels handed
    over form a gap-free range (the shrinker must not wander off the domain)"""
    ops = c["ops"][:i + 1]
    if c["core"].split(":")[-1] in NOT_A_REFIT:
        return False
    labels = [l for o in ops if o[0] in ("fit", "upd") for l, _ in o[1]]
    if not labels or len(set(labels)) != max(labels) - min(labels) + 1:
        return False
    if any(o[0] in ("up", "ups") for o in ops):
        return False
    if any(o[0] == "fit" and o[2] is not None and o[2][0] != "r" for o in ops):
        return False
    return True


def _check_update_equiv(c, i, refit):
    """after ops[:i+1] (ending in update), forecasts must equal those of the reference history"""
    ops = c["ops"][:i + 1]
    fit_idx = max(j for j, o in enumerate(ops) if o[0] == "fit")
    fit_op = ops[fit_idx]
    fh_for_fit = fit_op[2]
    probe = PROBE_FH if c["mode"] == "o" else None          # a horizon-dependent forecaster answers with its own horizon
    a_outs, fa = _real_values(_twin(c, ops + [["pred", probe]]))
    # is the horizon given at fit still the stored one (no later call named another, no update_predict in between)?
    stored_ok = probe is not None and fh_for_fit is not None and not any(
        (o[0] == "pred" and o[1] is not None) or (o[0] == "ups" and o[2] is not None) or o[0] == "up" for o in ops[fit_idx + 1:])
    if refit:
        # reference: a fresh forecaster fitted on everything remembered so far (y1 followed by y2)
        merged = {}
        for o in ops[fit_idx:]:
            if o[0] in ("fit", "upd", "ups") and o[1]:
                for l, v in o[1]:
                    if v is not None or l not in merged:
                        merged[l] = v
            elif o[0] == "up":
                return None
        series = [[l, merged[l]] for l in sorted(merged)]
        b_outs, fb = _real_values(_twin(c, [["fit", series, fh_for_fit], ["pred", probe]]))
        if not _same(a_outs[-1], b_outs[-1]):
            return "fit;...;update(refit) forecasts %s, fresh fit on the union forecasts %s" % (_fmt(a_outs[-1]), _fmt(b_outs[-1]))
        if stored_ok:
            # ... and with the horizon the forecaster was GIVEN at fit (relative or absolute), asked for without repeating it
            a2, _ = _real_values(_twin(c, ops + [["pred", None]]))
            b2, _ = _real_values(_twin(c, [["fit", series, fh_for_fit], ["pred", None]]))
            if not _same(a2[-1], b2[-1]):
                return "fit(fh=%s);...;update(refit);predict() forecasts %s, fresh fit on the union forecasts %s" % (M.s_fh(fh_for_fit), _fmt(a2[-1]), _fmt(b2[-1]))
        return None
    # no refit: for the probe core the forecast must be the probe function of the last `window_length` labels at the NEW cutoff
    if c["core"].startswith("probe"):
        w = int(c["core"].split(":")[1])
        y = fa._y
        cutoff = ops[-1][1][-1][0]
        win = [v for l, v in y.items() if cutoff - w + 1 <= l <= cutoff]
        s = float(np.nansum(win)) if len(win) else 0.0
        want = [2 * s + 100 * len(win) + h for h in PROBE_FH[1]]
        got = a_outs[-1]
        if isinstance(got, str) or list(got.index) != [cutoff + h for h in PROBE_FH[1]] or not np.allclose(got.to_numpy(), want):
            return "after update(update_params=False) forecast %s, expected %r from the new cutoff %r" % (_fmt(got), want, cutoff)
        if stored_ok:
            # the horizon given at fit, not repeated: relative steps count from the NEW cutoff, absolute time points stay
            labels = [cutoff + h for h in fh_for_fit[1]] if fh_for_fit[0] == "r" else list(fh_for_fit[1])
            if all(l > cutoff for l in labels):
                a2, _ = _real_values(_twin(c, ops + [["pred", None]]))
                got2 = a2[-1]
                want2 = [2 * s + 100 * len(win) + (l - cutoff) for l in labels]
                if isinstance(got2, str) or list(got2.index) != labels or not np.allclose(got2.to_numpy(), want2):
                    return "fit(fh=%s);...;update(update_params=False);predict() forecast %s, expected %r at %r from the new cutoff %r" % (
                        M.s_fh(fh_for_fit), _fmt(got2), want2, labels, cutoff)
    return None


def _fmt(x):
    if isinstance(x, str):
        return x
    return str(dict(zip([int(i) for i in x.index], [float(v) for v in np.asarray(x.to_numpy(), dtype=float).ravel()])) if x.ndim == 1 else x.to_dict())


def _check_update_predict(c, i, r):
    """update_predict == the corresponding sequence of single updates and predicts, labelled by cutoffs"""
    import pandas as pd, warnings
    warnings.filterwarnings("ignore")
    ops = c["ops"][:i]
    op = c["ops"][i]
    _, f = _real_values(_twin(c, ops))
    if not f.is_fitted:
        return None
    y = M.mk_series(op[1], 0, False)
    cv = M.mk_cv(op[2])
    try:
        if cv is None:
            from sktime.forecasting.model_selection import SlidingWindowSplitter
            cv = SlidingWindowSplitter(f.fh.to_relative(f.cutoff), window_length=f.window_length_, start_with_window=False)
        fh = cv.get_fh()
        preds, cuts = [], []
        f._set_cutoff(int(y.index[0]) - 1)
        for tr, _ in cv.split(y):
            f.update(y.iloc[tr], update_params=op[3])
            preds.append(f.predict(fh) if False else f._predict(fh))
            cuts.append(int(f.cutoff))
    except Exception as e:
        return None
    # compare with what update_predict returned
    if r[0] == "S":
        got = {l: v for l, v in r[1]}
        if len(preds) == 1 and len(preds[0]) > 1:
            exp = {int(l): v for l, v in preds[0].items()}
        else:
            exp = {}
            for p in preds:
                for l, v in p.items():
                    exp[int(l)] = v
    else:
        cols = r[1]
        if cols != cuts:
            return "columns %r are not the cutoffs %r of the single steps" % (cols, cuts)
        got = {(l, cc): v for l, row in r[2] for cc, v in zip(cols, row)}
        exp = {}
        labels = sorted({int(l) for p in preds for l in p.index})
        for l in labels:
            for cc, p in zip(cuts, preds):
                exp[(l, cc)] = p.get(l, float("nan"))
    if sorted(map(str, got)) != sorted(map(str, exp)):
        return "labels %r differ from the single steps' %r" % (sorted(map(str, got))[:6], sorted(map(str, exp))[:6])
    for key in got:
        a, b = got[key], exp[key]
        bn = b is None or (isinstance(b, float) and math.isnan(b))
        if (a is None) != bn or (a is not None and abs(float(a) - float(b)) > 1e-9 * max(1.0, abs(float(b)))):
            return "value at %r: update_predict %r, single steps %r" % (key, a, b)
    return None


def nontrivial(c, out):
    if c.get("kind") == "pi":
        return PI.nontrivial(c, out)
    return ("S[" in out or "F[" in out) and any(o[0] in ("upd", "ups", "up") for o in c["ops"])


def features(c, out):
    if c.get("kind") == "pi":
        return PI.features(c, out)
    f = ["core=" + (c["core"] if not c["core"].startswith("opaque") else "opaque"), "mode=" + c["mode"]]
    for op in c["ops"]:
        f.append("op=" + op[0] + (":refit" if op[0] in ("upd",) and op[2] else ""))
    for t in out.split(" "):
        if t.startswith("E:"):
            f.append("err=" + t[:t.index("{")])
    return f


def _cut_batches(rng, series, overlap_p=0.3):
    """cut a series into consecutive / overlapping batches (time ordered)"""
    out, i, n = [], 0, len(series)
    while i < n:
        m = rng.randrange(1, 5)
        j = min(n, i + m)
        st = max(0, i - rng.randrange(1, 3)) if (out and rng.random() < overlap_p) else i
        out.append([list(x) for x in series[st:j]])
        i = j
    return out


def _history(rng, core, mode, long=False):
    opq = core.startswith("opaque")
    nan_p = 0.0 if opq else rng.choice([0, 0, 0, 0.12])
    if core == "opaque:pipeline_impute":
        nan_p = 0.15          # its cleaning step is there for missing values, in the training series and in later batches
    total = rng.randrange(14, 26) if opq else rng.randrange(4, 22)
    start = rng.choice([0, 0, 5, -3])
    series = M.stretch(rng, start, total, nan_p, opq, 0.0)
    n0 = rng.randrange(10, 14) if opq else rng.randrange(1, max(2, min(9, total)))
    y0, rest = series[:n0], series[n0:]
    # overlapping batches re-state some observations with new values (later must win)
    batches = _cut_batches(rng, rest) if rest else []
    for b in batches:
        for o in b:
            if rng.random() < 0.15:
                o[1] = None if (not opq and rng.random() < 0.3) else rng.randrange(1, 80) / 2
    # a batch may END in a missing reading (the cutoff is the batch's last time point all the same)
    if not opq:
        for b in batches:
            if rng.random() < 0.15:
                b[-1][1] = None
    if core == "opaque:pipeline_impute" and batches and not any(o[1] is None for b in batches for o in b):
        b = rng.choice(batches)
        b[rng.randrange(len(b))][1] = None            # at least one missing value arrives in a later batch
    # concrete cores are also given ABSOLUTE horizons at fit (time points that stay put while the cutoff moves on)
    fit_fh = M.rand_fh(rng, "oos", None if opq else y0[-1][0], 3 if opq else 6) if (mode == "r" or opq or rng.random() < 0.7) else None
    ops = [["fit", y0, fit_fh]]
    stored = fit_fh is not None
    cutoff = y0[-1][0]
    bi = 0
    after_up = False
    nmax = 7 if long else 5
    while bi < len(batches) and len(ops) < nmax:
        r = rng.random()
        b = batches[bi]
        if r < 0.2:
            fh = None if ((stored and rng.random() < 0.4) and not after_up) or mode == "r" else M.rand_fh(rng, "oos", None, 3)
            if fh is not None:
                stored = True
            ops.append(["pred", fh])
            continue
        if opq and r >= 0.8:
            # update_predict with an explicit splitter; its horizon is the splitter's, not the one the forecaster holds
            # (a horizon-dependent forecaster can only be asked for the horizon it was fitted with)
            wl = rng.randrange(1, 3)
            fh2 = list(fit_fh[1]) if (mode == "r" or fit_fh[0] != "r") else sorted(rng.sample(range(1, 5), rng.choice([1, 2, 3])))
            glue, k = {}, 0
            while bi + k < len(batches) and len(glue) < wl + max(fh2) + 1:
                for l, v in batches[bi + k]:
                    glue[l] = v
                k += 1
            stretch = [[l, glue[l]] for l in sorted(glue)]
            if len(stretch) >= wl + max(fh2) and mode == "r" or (len(stretch) >= wl + max(fh2) and fit_fh[0] == "r"):
                bi += k
                ops.append(["up", stretch, [rng.choice(["s", "e"]), fh2, wl, 1, None, True], False])
                # the windows fed are positions 0..m-1-max(fh): the rest is handed over again by the next batch
                batches.insert(bi, [list(x) for x in stretch[len(stretch) - max(fh2):]])
                after_up = True      # non-window forecasters now hold the splitter's horizon: ask explicitly from here on
                continue
        if r < 0.6 or opq:
            ops.append(["upd", b, rng.random() < 0.5])
            bi += 1
        elif r < 0.75:
            fh = None if (mode == "r" or (stored and rng.random() < 0.4)) else M.rand_fh(rng, "oos", None, 3)
            if fh is not None:
                stored = True
            ops.append(["ups", b, fh, rng.random() < 0.5])
            bi += 1
        else:
            # update_predict over a longer stretch: several batches glued together (dedup by label, later wins)
            glue = {}
            k = rng.randrange(1, 4)
            for bb in batches[bi:bi + k]:
                for l, v in bb:
                    glue[l] = v
            bi += k
            stretch = [[l, glue[l]] for l in sorted(glue)]
            explicit = [rng.choice(["s", "e"]), sorted(rng.sample(range(1, 4), rng.choice([1, 1, 2]))),
                        rng.randrange(1, 4), rng.randrange(1, 3), None, rng.random() < 0.6]
            cv = explicit if (not stored or rng.random() < 0.5) else None
            ops.append(["up", stretch, cv, rng.random() < 0.4])
        if ops[-1][1]:
            cutoff = ops[-1][1][-1][0]
    if rng.random() < 0.6:
        ops.append(["pred", None if ((stored and rng.random() < 0.5) and not after_up) or mode == "r" else M.rand_fh(rng, "oos", None, 4)])
    return ops


def _restated_history(rng, core, mode):
    """fit, then updates whose batches re-state the last few known observations UNCHANGED next to new ones"""
    opq = core.startswith("opaque")
    total = rng.randrange(18, 26)
    series = M.stretch(rng, rng.choice([0, 0, 5, -3]), total, 0.0, opq, 0.0)
    n0 = rng.randrange(10, 14)
    fit_fh = M.rand_fh(rng, "oos", None, 3)
    ops = [["fit", [list(x) for x in series[:n0]], fit_fh]]
    j = n0
    for _ in range(rng.choice([1, 1, 2])):
        k, m = rng.randrange(1, 4), rng.randrange(1, 4)
        if j + m > total:
            break
        ops.append(["upd", [list(x) for x in series[j - k:j + m]], rng.random() < 0.35])
        j += m
    ops.append(["pred", None if mode == "r" or rng.random() < 0.5 else M.rand_fh(rng, "oos", None, 4)])
    return ops


def gen_cases(tier, rng):
    cases = []
    quick = tier == "quick"
    cores = ["last", "mean:none", "mean:2", "mean:3", "probe:1", "probe:2", "probe:3", "probe:5"]
    nh = 500 if quick else 4000
    for i in range(nh):
        core = rng.choice(cores)
        mode = "r" if core.startswith("probe") and rng.random() < 0.25 else "o"
        cases.append({"prop": PROP, "core": core, "mode": mode, "ops": _history(rng, core, mode, long=not quick),
                      "shift": 0, "range": rng.random() < 0.5})
    # a few out-of-order / malformed histories for the correspondence (oracle skips them)
    import corr.C03 as C03
    for i in range(60 if quick else 500):
        core = rng.choice(cores)
        cases.append({"prop": PROP, "core": core, "mode": "o", "ops": C03._history(rng, core, "o"), "shift": 0, "range": False, "other": rng.random() < 0.3})
    table = M._opaque_table()
    per = 5 if quick else 20
    for name, (mode, _) in sorted(table.items()):
        for j in range(per):
            cases.append({"prop": PROP, "core": "opaque:" + name, "mode": mode, "ops": _history(rng, "opaque:" + name, mode),
                          "shift": 0, "range": rng.random() < 0.5})
    # batches that re-state known observations unchanged, for every forecaster
    for name, (mode, _) in sorted(table.items()):
        for j in range(2 if quick else 8):
            cases.append({"prop": PROP, "core": "opaque:" + name, "mode": mode, "ops": _restated_history(rng, "opaque:" + name, mode),
                          "shift": 0, "range": rng.random() < 0.5, "other": False})
    for j in range(24 if quick else 200):
        core = rng.choice(cores)
        cases.append({"prop": PROP, "core": core, "mode": "o", "ops": _restated_history(rng, core, "o"), "shift": 0, "range": rng.random() < 0.5})
    for cc in cases:
        cc.setdefault("other", rng.random() < 0.3)      # a second object of the same kind is used in between
    # prediction intervals through predict / update_predict_single / update_predict (Model/PredInt.lean)
    cases += PI.gen_cases(tier, rng)
    return cases


def shrink(c):
    if c.get("kind") == "pi":
        yield from PI.shrink(c)
        return
    ops = c["ops"]
    for i in range(len(ops) - 1, 0, -1):
        yield dict(c, ops=ops[:i] + ops[i + 1:])
    for i, op in enumerate(ops):
        if op[0] in ("fit", "upd", "up", "ups") and len(op[1]) > 1:
            yield dict(c, ops=ops[:i] + [[op[0], op[1][1:]] + op[2:]] + ops[i + 1:])
            yield dict(c, ops=ops[:i] + [[op[0], op[1][:-1]] + op[2:]] + ops[i + 1:])
