"""C01 correspondence + oracle: temporal CV splitters and temporal_train_test_split
(sktime/forecasting/model_selection/_split.py).

case kinds:
  win    {"k": "s"|"e", "n", "fh", "wl", "step", "iw", "sww", "origin"}
  single {"n", "fh", "wl", "origin"}
  cutoff {"n", "cutoffs", "fh", "wl", "origin"}
  ttsfh  {"n", "fh", "rel", "origin", "withX"}
  ttssize{"n", "test", "train", "origin", "withX"}     sizes: None | ["i", k] | ["f", num, den]
"""
import itertools
from fractions import Fraction
import numpy as np, pandas as pd
from common import canon_err, show_ints

PROP = "C01"
LEAN_MODULE = "SkVerif.Props.C01"
OBLIGATIONS = [
    "SkVerif.C01.window_fold_shape",
    "SkVerif.C01.train_contiguous_ends_at_cutoff",
    "SkVerif.C01.test_eq_cutoff_add_fh",
    "SkVerif.C01.positions_in_range",
    "SkVerif.C01.train_lt_test",
    "SkVerif.C01.cutoffs_progression",
    "SkVerif.C01.first_cutoff_is_first_feasible",
    "SkVerif.C01.last_cutoff_is_last_feasible",
    "SkVerif.C01.sliding_length_exact",
    "SkVerif.C01.sliding_length_from_empty",
    "SkVerif.C01.expanding_starts_at_zero",
    "SkVerif.C01.initial_window_fold",
    "SkVerif.C01.reported_cutoffs_eq_yielded",
    "SkVerif.C01.n_splits_eq_length",
    "SkVerif.C01.single_window_is_last_feasible",
    "SkVerif.C01.single_window_fold",
    "SkVerif.C01.single_window_rejects_too_long",
    "SkVerif.C01.cutoff_splitter_uses_given_cutoffs",
    "SkVerif.C01.cutoff_splitter_positions_in_range",
    "SkVerif.C01.cutoff_splitter_rejects_past_end",
    "SkVerif.C01.tts_by_fh_partition",
    "SkVerif.C01.tts_by_size_partition",
    "SkVerif.C01.tts_by_size_ints",
    "SkVerif.C01.tts_by_size_test_int",
    "SkVerif.C01.window_rejects_infeasible",
    "SkVerif.C01.window_accepts_feasible",
]
TRUSTED = ["hand-written model SkVerif/Model/Split.lean of _split.py on integer positions",
           "sklearn.model_selection.train_test_split(shuffle=False) is modelled as sklearn documents it (ceil/floor rule)"]
ASSUMPTIONS = ["datetime/period indexes out of scope (positions only, as the property states)",
               "theorems are for out-of-sample horizons; in-sample horizons are covered by the correspondence only"]
RULE = ("exhaustive small scope n<=14, wl<=6, step<=4, initial_window, both start modes, fh subsets of {1..4} plus {2,5},{7} "
        "(quick: seed-rotated slice) + random n<=400 + malformed configurations; distinct by driver line; "
        "non-trivial = at least one fold with non-empty train and test returned")
LEVEL_TEXT = ("Lean 4 theorems, for all n, fh, window/step/initial-window and start modes, about an executable model of _split.py "
              "(fold shape, no leakage, cutoff progression first-to-last feasible, window lengths, reported = yielded, train/test split partition); "
              "the model is tied to the code by a differential correspondence over an exhaustive small scope plus random configurations, "
              "and the property text is evaluated as an oracle on every real output.")
LEVEL_NOTE = ("Trusted: Lean kernel, axioms propext/Classical.choice/Quot.sound, the model's faithfulness as exercised by the correspondence, "
              "sklearn's train_test_split size rule (modelled), harness + compat layer. Positions only; datetime indexes not modelled.")
TECHNIQUE = "Lean 4 proof (induction over Python range / list algebra) + differential correspondence with real splitters"


def is_exhaustive(tier):
    return tier == "thorough"


def _idx(n, origin):
    return pd.Index(np.arange(origin, origin + n, dtype="int64"))


def _folds_str(folds):
    if not folds:
        return "none"
    return ";".join("%s|%s" % (show_ints(tr), show_ints(te)) for tr, te in folds)


def _try(f, show):
    try:
        return show(f())
    except Exception as e:
        return canon_err(e)


def to_line(c):
    k = c["kind"]
    if k == "win":
        return "C01 win %s %d %s %d %d %s %s" % (c["k"], c["n"], show_ints(c["fh"]), c["wl"], c["step"],
                                                "none" if c["iw"] is None else c["iw"], "T" if c["sww"] else "F")
    if k == "single":
        return "C01 single %d %s %s" % (c["n"], show_ints(c["fh"]), "none" if c["wl"] is None else c["wl"])
    if k == "cutoff":
        return "C01 cutoff %d %s %s %d" % (c["n"], show_ints(c["cutoffs"]), show_ints(c["fh"]), c["wl"])
    if k == "ttsfh":
        return "C01 ttsfh %d %s %s" % (c["n"], show_ints(c["fh"]), "T" if c["rel"] else "F")
    if k == "ttssize":
        def sz(s):
            if s is None:
                return "none"
            if s[0] == "i":
                return "i:%d" % s[1]
            return "f:%d/%d" % (s[1], s[2])
        return "C01 ttssize %d %s %s" % (c["n"], sz(c["test"]), sz(c["train"]))
    raise ValueError(k)


FHFORMS = ["list", "array", "int", "fhobj", "index"]


def _fh_arg(c):
    """the horizon in the container form the case asks for (the forms check_fh documents)"""
    fh = c["fh"]
    form = c.get("fhform", "list")
    if form == "int" and len(fh) == 1:
        return int(fh[0])
    if form == "array":
        return np.array(fh, dtype="int64")
    if form == "index":
        return pd.Index(np.array(fh, dtype="int64"))
    if form == "fhobj":
        from sktime.forecasting.base import ForecastingHorizon
        try:
            return ForecastingHorizon(list(fh), is_relative=True)
        except Exception:
            return list(fh)          # malformed horizons: let the splitter see (and reject) the raw values
    return list(fh)


def _fh_snapshot(a):
    try:
        if hasattr(a, "to_numpy"):
            return [int(v) for v in a.to_numpy()], getattr(a, "is_relative", None)
        if isinstance(a, np.ndarray):
            return [int(v) for v in a], None
        if isinstance(a, list):
            return list(a), None
        return a, None
    except Exception:
        return "unreadable", None


def run_real(c):
    from sktime.forecasting.model_selection import (SlidingWindowSplitter, ExpandingWindowSplitter,
                                                    SingleWindowSplitter, CutoffSplitter, temporal_train_test_split)
    from sktime.forecasting.base import ForecastingHorizon
    k = c["kind"]
    n, origin = c["n"], c.get("origin", 0)
    y = pd.Series(np.arange(n, dtype="float64") * 0.5 + 1, index=_idx(n, origin))
    if k in ("win", "single", "cutoff"):
        pos = c.get("posargs", False)      # the documented parameter order, used positionally (pinned from the signatures)
        if k == "win":
            if c["k"] == "s":
                cv = SlidingWindowSplitter(_fh_arg(c), c["wl"], c["step"], c["iw"], c["sww"]) if pos else \
                    SlidingWindowSplitter(fh=_fh_arg(c), window_length=c["wl"], step_length=c["step"],
                                          initial_window=c["iw"], start_with_window=c["sww"])
            else:
                cv = ExpandingWindowSplitter(_fh_arg(c), c["wl"], c["step"], c["sww"]) if pos else \
                    ExpandingWindowSplitter(fh=_fh_arg(c), initial_window=c["wl"], step_length=c["step"],
                                            start_with_window=c["sww"])
        elif k == "single":
            cv = SingleWindowSplitter(_fh_arg(c), c["wl"]) if pos else SingleWindowSplitter(fh=_fh_arg(c), window_length=c["wl"])
        else:
            cv = CutoffSplitter(np.array(c["cutoffs"], dtype="int64"), _fh_arg(c), c["wl"]) if pos else \
                CutoffSplitter(cutoffs=np.array(c["cutoffs"], dtype="int64"), fh=_fh_arg(c), window_length=c["wl"])
        arg = y if c.get("pass", "series") == "series" else y.index
        fh_arg, y0 = cv.fh, y.copy()
        snap = _fh_snapshot(fh_arg)
        calls = {"s": lambda: _try(lambda: [(list(tr), list(te)) for tr, te in cv.split(arg)], _folds_str),
                 "c": lambda: _try(lambda: list(cv.get_cutoffs(arg)), show_ints),
                 "n": lambda: _try(lambda: cv.get_n_splits(arg), lambda v: str(int(v)))}
        order = c.get("calls", "scn")
        first = {}
        for ch in order:                      # every query once, in the case's order ...
            first[ch] = calls[ch]()
        if c.get("other"):                    # another splitter of the same class, other horizon, other series, in between
            try:
                cv2 = type(cv)(**dict(cv.get_params() if hasattr(cv, "get_params") else {}, fh=[2, 5])) if hasattr(cv, "get_params") else None
                if cv2 is None:
                    import copy
                    cv2 = copy.deepcopy(cv); cv2.fh = [2, 5]
                list(cv2.split(pd.Series(np.arange(23.0))))
                cv2.get_cutoffs(pd.Series(np.arange(23.0)))
            except Exception:
                pass
        rep = ""
        for ch in order[::-1]:                # ... and once more: a splitter is a description, not a cursor
            again = calls[ch]()
            if again != first[ch] and not rep:
                rep = "REPEAT:%s:%s->%s" % (ch, first[ch][:60], again[:60])
        if _fh_snapshot(fh_arg) != snap and not rep:
            rep = "FHARG:%s->%s" % (snap[0], _fh_snapshot(fh_arg)[0])
        if not (y.equals(y0) and y.index.equals(y0.index)) and not rep:
            rep = "DATA"
        return "split=%s cut=%s ns=%s%s" % (first["s"], first["c"], first["n"], (" rep=" + rep.replace(" ", "")) if rep else "")
    X = None
    if c.get("withX"):
        X = pd.DataFrame({"a": np.arange(n) * 2.0, "b": np.arange(n) * -1.0}, index=y.index)

    def pos(s):
        return [int(v) for v in y.index.get_indexer(s.index)]

    y0, X0 = y.copy(), (None if X is None else X.copy())

    def run():
        if k == "ttsfh":
            if c["rel"]:
                fh = _fh_arg(c)
            else:
                fh = ForecastingHorizon(np.array(c["fh"], dtype="int64") + origin, is_relative=False)
            snap = _fh_snapshot(fh)
            out = temporal_train_test_split(y, X, fh=fh)
            if _fh_snapshot(fh) != snap:
                return "tts=ARGCHANGED"
        else:
            def sz(s):
                if s is None:
                    return None
                if s[0] == "i":
                    return int(s[1])
                return s[1] / s[2]
            out = temporal_train_test_split(y, X, test_size=sz(c["test"]), train_size=sz(c["train"]))
        if X is None:
            ytr, yte = out
        else:
            if k == "ttsfh":
                ytr, yte, Xtr, Xte = out
            else:
                ytr, yte, Xtr, Xte = out
            # X parts must be aligned with y parts (train always; test: same labels for size-split)
            if list(Xtr.index) != list(ytr.index):
                return "tts=XMISALIGNED"
            if k == "ttssize" and list(Xte.index) != list(yte.index):
                return "tts=XMISALIGNED"
        # values must be the original observations at those labels, and the caller's data untouched
        if not y.equals(y0) or (X is not None and not X.equals(X0)):
            return "tts=ARGCHANGED"
        for part in (ytr, yte):
            if not np.array_equal(part.to_numpy(), y0.loc[part.index].to_numpy()):
                return "tts=VALUESCHANGED"
        return "tts=%s|%s" % (show_ints(pos(ytr)), show_ints(pos(yte)))
    try:
        return run()
    except Exception as e:
        return "tts=" + canon_err(e)


def _parse_folds(s):
    if s.startswith("E:"):
        return None
    if s == "none":
        return []
    out = []
    for f in s.split(";"):
        a, b = f.split("|")
        out.append(([] if a == "-" else [int(x) for x in a.split(",")], [] if b == "-" else [int(x) for x in b.split(",")]))
    return out


def _fields(out):
    d = {}
    for tok in out.split(" "):
        k, v = tok.split("=", 1)
        d[k] = v
    return d


def _valid_fh(fh):
    return len(fh) > 0 and all(h > 0 for h in fh) and len(set(fh)) == len(fh)


def oracle(c, out):
    """Clauses of the C01 statement evaluated on the real output."""
    fails = []
    k = c["kind"]
    d = _fields(out)
    n = c["n"]
    if k in ("win", "single", "cutoff"):
        site = {"win": "Sliding" if c.get("k") == "s" else "Expanding", "single": "SingleWindow", "cutoff": "Cutoff"}[k] + "Splitter"
        fh = sorted(c["fh"])
        if not _valid_fh(fh):
            return fails  # property quantifies over out-of-sample duplicate-free horizons
        if "rep" in d:
            kind = d["rep"].split(":")[0]
            key = {"REPEAT": ":second-query-differs", "FHARG": ":caller-horizon-modified", "DATA": ":caller-data-modified"}[kind]
            fails.append((site + key, d["rep"]))
        folds = _parse_folds(d["split"])
        fhmax = fh[-1]
        # ---- which configurations are valid choices (must be accepted)
        if k == "win":
            wl, step, iw, sww = c["wl"], c["step"], c["iw"], c["sww"]
            if c["k"] == "e":
                iw = None
            valid = wl >= 1 and step >= 1 and wl + fhmax <= n and (iw is None or (sww and iw > wl and iw + fhmax <= n))
        elif k == "single":
            wl = c["wl"]
            valid = (wl is None or wl >= 1) and fhmax <= n - 1 and (wl is None or wl + fhmax <= n)
        else:
            wl = c["wl"]
            cs = sorted(c["cutoffs"])
            valid = wl >= 1 and len(cs) > 0 and all(0 <= x for x in cs) and cs[-1] + fhmax <= n - 1
        if folds is None:
            if valid:
                fails.append((site + ":valid-rejected", "valid configuration rejected: %s" % d["split"]))
            return fails
        # ---- whatever is yielded must be well-formed
        cutoffs = []
        for (tr, te) in folds:
            if any(p < 0 or p >= n for p in tr + te):
                fails.append((site + ":position-outside-series", "fold %r has a position outside [0,%d)" % ((tr, te), n)))
                break
            if tr and tr != list(range(tr[0], tr[-1] + 1)):
                fails.append((site + ":train-not-contiguous", repr(tr)))
                break
            if tr and te and max(tr) >= min(te):
                fails.append((site + ":train-not-before-test", repr((tr, te))))
                break
        if not valid:
            return fails
        # cutoffs of the yielded folds: test = cutoff + fh
        for (tr, te) in folds:
            if len(te) != len(fh):
                fails.append((site + ":test-length", "test %r for fh %r" % (te, fh)))
                return fails
            cu = te[0] - fh[0]
            if te != [cu + h for h in fh]:
                fails.append((site + ":test-not-cutoff-plus-fh", "test %r fh %r" % (te, fh)))
                return fails
            if tr and tr[-1] != cu:
                fails.append((site + ":train-does-not-end-at-cutoff", "train %r cutoff %d" % (tr, cu)))
                return fails
            cutoffs.append(cu)
        # reported = yielded
        if d["cut"] != show_ints(cutoffs):
            fails.append((site + ":reported-cutoffs-differ", "get_cutoffs=%s yielded=%s" % (d["cut"], show_ints(cutoffs))))
        if d["ns"] != str(len(folds)):
            fails.append((site + ":n-splits-differ", "get_n_splits=%s yielded=%d" % (d["ns"], len(folds))))
        if k == "win":
            first = (iw - 1) if iw is not None else (wl - 1 if sww else -1)
            if not cutoffs or cutoffs[0] != first:
                fails.append((site + ":first-cutoff", "first cutoff %r expected %d" % (cutoffs[:1], first)))
            # successive cutoffs advance by step (the step after an initial window is also `step`)
            for a, b in zip(cutoffs, cutoffs[1:]):
                if b - a != step:
                    fails.append((site + ":cutoff-step", "cutoffs %r step %d" % (cutoffs, step)))
                    break
            if cutoffs:
                last = cutoffs[-1]
                if not (last + fhmax <= n - 1 and last + step + fhmax > n - 1):
                    fails.append((site + ":last-cutoff-not-last-feasible", "last %d n %d fhmax %d step %d" % (last, n, fhmax, step)))
            for j, ((tr, te), cu) in enumerate(zip(folds, cutoffs)):
                if c["k"] == "s":
                    want = iw if (iw is not None and j == 0) else (wl if sww else min(wl, cu + 1))
                    if len(tr) != want:
                        fails.append((site + ":sliding-window-length", "train %r expected length %d" % (tr, want)))
                        break
                else:
                    if (tr[:1] != [0]) and not (not sww and cu < 0):
                        fails.append((site + ":expanding-not-from-start", repr(tr)))
                        break
                    if len(tr) != cu + 1:
                        fails.append((site + ":expanding-window-length", repr(tr)))
                        break
        elif k == "single":
            if len(folds) != 1 or cutoffs != [n - 1 - fhmax]:
                fails.append((site + ":not-last-feasible-cutoff", "cutoffs %r" % cutoffs))
            elif len(folds[0][0]) != (cutoffs[0] + 1 if wl is None else wl):
                fails.append((site + ":window-length", repr(folds[0][0])))
        else:
            if cutoffs != cs:
                fails.append((site + ":cutoffs-not-the-given-ones", "%r vs %r" % (cutoffs, cs)))
            for (tr, te), cu in zip(folds, cutoffs):
                if len(tr) != min(wl, cu + 1):
                    fails.append((site + ":window-length", repr(tr)))
                    break
        return fails
    # ---- temporal_train_test_split
    site = "temporal_train_test_split"
    v = d["tts"]
    if v in ("XMISALIGNED", "VALUESCHANGED", "ARGCHANGED"):
        return [(site + ":" + v.lower(), v)]
    if k == "ttsfh":
        fh = sorted(c["fh"])
        if c["rel"]:
            if not _valid_fh(fh) or fh[-1] > n - 1:
                return fails
            m = fh[-1]
            exp = (list(range(0, n - m)), [n - m + h - 1 for h in fh])
        else:
            if len(fh) == 0 or len(set(fh)) != len(fh) or fh[0] < 1 or fh[-1] > n - 1:
                return fails
            exp = (list(range(0, fh[0])), fh)
        if v.startswith("E:"):
            fails.append((site + ":valid-fh-rejected", v))
        else:
            a, b = v.split("|")
            got = ([] if a == "-" else [int(x) for x in a.split(",")], [] if b == "-" else [int(x) for x in b.split(",")])
            if got != exp:
                fails.append((site + ":by-fh-wrong-parts", "got %r expected %r" % (got, exp)))
        return fails
    # by size: train = first k positions, test = the next m, in order, disjoint; exact sizes for ints
    if v.startswith("E:"):
        te, tr = c["test"], c["train"]
        ok_int = lambda s: s is None or s[0] != "i" or 0 < s[1] < n
        ok_fr = lambda s: s is None or s[0] != "f" or 0 < Fraction(s[1], s[2]) < 1
        if n >= 2 and ok_int(te) and ok_int(tr) and ok_fr(te) and ok_fr(tr) and (te is None or te[0] == "i") and (tr is None or tr[0] == "i"):
            a = tr[1] if tr else None
            b = te[1] if te else None
            if (a is None or b is None or a + b <= n):
                if not (a is None and b is None and n < 2):
                    fails.append((site + ":valid-sizes-rejected", "%r" % ((te, tr),)))
        return fails
    a, b = v.split("|")
    trp = [] if a == "-" else [int(x) for x in a.split(",")]
    tep = [] if b == "-" else [int(x) for x in b.split(",")]
    if trp != list(range(len(trp))):
        fails.append((site + ":train-not-prefix", repr(trp)))
    if tep != list(range(len(trp), len(trp) + len(tep))):
        fails.append((site + ":test-not-following-train", repr((trp, tep))))
    te, tr = c["test"], c["train"]
    if te is not None and te[0] == "i" and len(tep) != te[1]:
        fails.append((site + ":test-size", repr((te, len(tep)))))
    if tr is not None and tr[0] == "i" and len(trp) != tr[1]:
        fails.append((site + ":train-size", repr((tr, len(trp)))))
    if te is None and tr is not None and len(trp) + len(tep) != n:
        fails.append((site + ":complement", repr((trp, tep))))
    if tr is None and te is not None and len(trp) + len(tep) != n:
        fails.append((site + ":complement", repr((trp, tep))))
    return fails


def nontrivial(c, out):
    if c["kind"] in ("ttsfh", "ttssize"):
        return not out.startswith("tts=E:") and "|" in out and not out.endswith("|-")
    d = _fields(out)
    f = _parse_folds(d["split"])
    return bool(f) and any(tr and te for tr, te in f)


def features(c, out):
    f = ["kind=" + c["kind"] + (":" + c["k"] if c["kind"] == "win" else "")]
    if c["kind"] in ("win", "single", "cutoff"):
        d = _fields(out)
        if d["split"].startswith("E:"):
            f.append("split=" + d["split"])
        else:
            nf = len(_parse_folds(d["split"]))
            f.append("folds=%s" % ("0" if nf == 0 else "1" if nf == 1 else "2-5" if nf <= 5 else "6+"))
        if c["kind"] == "win":
            f.append("sww=%s" % c["sww"]); f.append("iw=%s" % ("none" if c["iw"] is None else "set"))
        f.append("fh=%s" % ("oos" if _valid_fh(c["fh"]) else "other"))
    else:
        f.append("tts=" + ("err" if out.startswith("tts=E:") else "ok"))
    f.append("n=%s" % ("<=14" if c["n"] <= 14 else "<=100" if c["n"] <= 100 else ">100"))
    return f


CALLS = ["scn", "scn", "csn", "ncs", "snc", "cns"]       # order of split / get_cutoffs / get_n_splits on one splitter object
FHS = [list(s) for r in range(1, 5) for s in itertools.combinations([1, 2, 3, 4], r)] + [[2, 5], [7]]


def gen_cases(tier, rng):
    cases = []
    quick = tier == "quick"
    # ---- exhaustive small scope (fixed order); quick takes a seed-rotated 1/12 slice
    cnt = 0
    rot = rng.randrange(12)
    for n in range(1, 15):
        for fh in FHS:
            for wl in range(1, 7):
                for step in range(1, 5):
                    for sww in (True, False):
                        for kk in ("s", "e"):
                            iws = [None] + (list(range(wl, wl + 5)) if kk == "s" else [])
                            for iw in iws:
                                cnt += 1
                                if quick and cnt % 12 != rot:
                                    continue
                                cases.append({"kind": "win", "k": kk, "n": n, "fh": fh, "wl": wl, "step": step, "iw": iw,
                                              "sww": sww, "origin": rng.choice([0, 0, 5, -3, 1000]),
                                              "fhform": rng.choice(FHFORMS), "pass": rng.choice(["series", "index"]),
                                              "calls": rng.choice(CALLS)})
    for n in range(1, 15):
        for fh in FHS:
            for wl in [None] + list(range(1, 9)):
                cnt += 1
                if quick and cnt % 4 != rot % 4:
                    continue
                cases.append({"kind": "single", "n": n, "fh": fh, "wl": wl, "origin": rng.choice([0, 7]), "fhform": rng.choice(FHFORMS),
                               "calls": rng.choice(CALLS)})
    # cutoff sets: subsets of {0..n-1} of size <= 3
    for n in range(1, 11):
        for r in (1, 2, 3):
            for cs in itertools.combinations(range(n), r):
                for fh in ([1], [1, 2], [2], [3], [1, 3]):
                    cnt += 1
                    if quick and cnt % 12 != rot:
                        continue
                    cs2 = list(cs)
                    rng.shuffle(cs2)
                    cases.append({"kind": "cutoff", "n": n, "cutoffs": cs2, "fh": fh, "wl": rng.randrange(1, 6), "origin": rng.choice([0, 3]),
                                  "fhform": rng.choice(FHFORMS), "calls": rng.choice(CALLS)})
    # tts exhaustive small
    for n in range(1, 13):
        for fh in FHS:
            cases.append({"kind": "ttsfh", "n": n, "fh": fh, "rel": True, "origin": rng.choice([0, 4, -2]), "withX": rng.random() < 0.3,
                          "fhform": rng.choice(FHFORMS)})
            if not quick or rng.random() < 0.3:
                cases.append({"kind": "ttsfh", "n": n, "fh": [h + rng.randrange(0, max(1, n - 3)) for h in fh], "rel": False,
                              "origin": rng.choice([0, 4, -2]), "withX": rng.random() < 0.3})
        sizes = [None] + [["i", k] for k in range(0, n + 2)] + [["f", 1, 4], ["f", 1, 2], ["f", 3, 4], ["f", 1, 8], ["f", 5, 8], ["f", 0, 1], ["f", 1, 1]]
        for te in sizes:
            for tr in sizes:
                cnt += 1
                if quick and cnt % 6 != rot % 6:
                    continue
                cases.append({"kind": "ttssize", "n": n, "test": te, "train": tr, "origin": rng.choice([0, 9]), "withX": rng.random() < 0.2})
    # ---- random larger
    nr = 1500 if quick else 12000
    for _ in range(nr):
        n = int(min(400, max(1, rng.lognormvariate(3.2, 1.0))))
        nf = rng.choice([1, 1, 2, 3, 5])
        fh = sorted(rng.sample(range(1, max(2, min(n, 30)) + 1), min(nf, max(1, min(n, 30)))))
        wl = rng.randrange(1, max(2, n // 2 + 2))
        step = rng.choice([1, 1, 2, 3, 7, rng.randrange(1, max(2, n // 3 + 1))])
        kk = rng.choice(["s", "e"])
        iw = rng.choice([None, None, wl + rng.randrange(0, 6)]) if kk == "s" else None
        kind = rng.random()
        if kind < 0.6:
            cases.append({"kind": "win", "k": kk, "n": n, "fh": fh, "wl": wl, "step": step, "iw": iw,
                          "sww": rng.random() < 0.75, "origin": rng.choice([0, 11, -40]), "fhform": rng.choice(FHFORMS),
                          "pass": rng.choice(["series", "index"]), "calls": rng.choice(CALLS)})
        elif kind < 0.7:
            cases.append({"kind": "single", "n": n, "fh": fh, "wl": rng.choice([None, wl]), "origin": 0, "fhform": rng.choice(FHFORMS), "calls": rng.choice(CALLS)})
        elif kind < 0.8:
            cs = rng.sample(range(n), min(n, rng.randrange(1, 6)))
            cases.append({"kind": "cutoff", "n": n, "cutoffs": cs, "fh": fh, "wl": wl, "origin": 0, "fhform": rng.choice(FHFORMS), "calls": rng.choice(CALLS)})
        elif kind < 0.9:
            cases.append({"kind": "ttsfh", "n": n, "fh": fh, "rel": rng.random() < 0.6, "origin": rng.choice([0, 50]), "withX": rng.random() < 0.3,
                          "fhform": rng.choice(FHFORMS)})
        else:
            def rs():
                r = rng.random()
                if r < 0.3:
                    return None
                if r < 0.7:
                    return ["i", rng.randrange(0, n + 2)]
                den = rng.choice([2, 4, 8, 16])
                return ["f", rng.randrange(0, den + 1), den]
            cases.append({"kind": "ttssize", "n": n, "test": rs(), "train": rs(), "origin": 0, "withX": rng.random() < 0.3})
    # ---- malformed / in-sample stream (correspondence only for in-sample)
    for n in (5, 9):
        for fh in ([], [1, 1], [0], [-1, 1], [-2, -1], [0, 1, 2], [-3]):
            for kk in ("s", "e"):
                for sww in (True, False):
                    cases.append({"kind": "win", "k": kk, "n": n, "fh": fh, "wl": 2, "step": 1, "iw": None, "sww": sww, "origin": 0, "fhform": "list", "pass": "series"})
            cases.append({"kind": "single", "n": n, "fh": fh, "wl": 2, "origin": 0, "fhform": "list"})
            cases.append({"kind": "ttsfh", "n": n, "fh": fh, "rel": True, "origin": 0, "withX": False})
        for wl, step, iw in ((0, 1, None), (-1, 1, None), (2, 0, None), (2, -1, None), (2, 1, 0), (2, 1, 2), (2, 1, 1)):
            cases.append({"kind": "win", "k": "s", "n": n, "fh": [1], "wl": wl, "step": step, "iw": iw, "sww": True, "origin": 0, "fhform": "list", "pass": "series"})
        cases.append({"kind": "cutoff", "n": n, "cutoffs": [], "fh": [1], "wl": 2, "origin": 0})
        cases.append({"kind": "cutoff", "n": n, "cutoffs": [n], "fh": [1], "wl": 2, "origin": 0})
        cases.append({"kind": "cutoff", "n": n, "cutoffs": [n - 1], "fh": [1], "wl": 2, "origin": 0})
        cases.append({"kind": "cutoff", "n": n, "cutoffs": [n - 2], "fh": [2], "wl": 2, "origin": 0})
        cases.append({"kind": "cutoff", "n": n, "cutoffs": [n - 2], "fh": [1], "wl": 0, "origin": 0})
    for cc in cases:
        if cc["kind"] in ("win", "single", "cutoff"):
            cc.setdefault("other", rng.random() < 0.3)  # another splitter object is used in between
            cc.setdefault("posargs", rng.random() < 0.3)
    return cases


def shrink(c):
    if c["n"] > 1:
        yield dict(c, n=c["n"] - 1)
        yield dict(c, n=c["n"] // 2)
    if "fh" in c and len(c["fh"]) > 1:
        for i in range(len(c["fh"])):
            yield dict(c, fh=c["fh"][:i] + c["fh"][i + 1:])
    for key in ("wl", "step"):
        if c.get(key) and c[key] > 1:
            yield dict(c, **{key: c[key] - 1})
    if c.get("iw"):
        yield dict(c, iw=None)
    if c.get("origin"):
        yield dict(c, origin=0)
    if c["kind"] == "cutoff" and len(c["cutoffs"]) > 1:
        for i in range(len(c["cutoffs"])):
            yield dict(c, cutoffs=c["cutoffs"][:i] + c["cutoffs"][i + 1:])
