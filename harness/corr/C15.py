"""C15 correspondence + oracle: panel container conversions
(sktime/utils/data_processing.py, sktime/utils/validation/panel.py check_X).

case = {"op": "path", "start": <rep>, "hops": [<hop>...], "direct": <hop>|None, "panel": {"vals": n x c x t, "names": [...]|None}|None}
     | {"op": "pred", "start": <rep N>}
     | {"op": "chk",  "start": <rep>, "flags": [uni, minInst, minCols, toNumpy, toPandas], "panel": ...}
rep  = {"k":"A","v":[[[..]]]} | {"k":"T","labels":[..]|None,"rows":[[..]]} | {"k":"N","names":[..],"cols":[[cell..]..],"snames":mode?}
     | {"k":"M","inst":s,"time":s,"names":[..],"rows":[[i,t,[v..]]..]} | {"k":"L","inst":s,"time":s,"dim":s,"rows":[[i,t,name,v]..]} | {"k":"O"}
cell = ["S",[v..]] | ["R",[v..]] | ["P",v]
hop  = ["n3"] | ["3n",names,kind] | ["3m",inst,time,names] | ["m3",inst,time] | ["nm",inst,time] | ["mn",inst,kind]
     | ["nl",inst,time,dim] | ["ln",inst,time,dim,names] | ["n2","np"|"pd"] | ["32"] | ["2n",cols,kind]
`panel` is the abstract panel the start container was built from (None: malformed / outside the property's quantifier).
"""
import itertools, warnings
import numpy as np, pandas as pd
from common import canon_err, show_rat, show_bool

warnings.filterwarnings("ignore")

PROP = "C15"
LEAN_MODULE = "SkVerif.Props.C15"
OBLIGATIONS = [
    "SkVerif.C15.nestedOf_injective",
    "SkVerif.C15.miOf_injective",
    "SkVerif.C15.arr3_nested_arr3",
    "SkVerif.C15.arr3_nested_arr3_default",
    "SkVerif.C15.nested_arr3_nested",
    "SkVerif.C15.nested_to_arr3_eq_panel",
    "SkVerif.C15.arr3_mi_arr3",
    "SkVerif.C15.mi_arr3_mi",
    "SkVerif.C15.nested_mi_nested",
    "SkVerif.C15.mi_nested_mi",
    "SkVerif.C15.path_preserves_panel",
    "SkVerif.C15.path_independence",
    "SkVerif.C15.nested_mi_arr3_eq_direct",
    "SkVerif.C15.arr3_nested_mi_eq_direct",
    "SkVerif.C15.nested_arr3_mi_defaults_names",
    "SkVerif.C15.nested_predicates_iff",
    "SkVerif.C15.are_columns_nested_iff",
    "SkVerif.C15.are_columns_nested_length",
    "SkVerif.C15.cell_isNested_iff",
    "SkVerif.C15.checkX_coerce_numpy",
    "SkVerif.C15.checkX_coerce_pandas",
    "SkVerif.C15.checkX_identity_arr3",
    "SkVerif.C15.checkX_rejects",
    "SkVerif.C15.checkX_pandas_numpy_roundtrip",
    "SkVerif.C15.nested_to_tab2",
    "SkVerif.C15.arr3_nested_tab2_eq_direct",
    "SkVerif.C15.nested_arr3_tab2_eq_direct",
    "SkVerif.C15.tab2_to_nested",
    "SkVerif.C15.arr3_tab2_nested_arr3_univariate",
    "SkVerif.C15.arr3_tab2_nested_concat",
    "SkVerif.C15.tab2_to_nested_array_cells_witness",
    "SkVerif.C15.nested_to_long",
    "SkVerif.C15.long_rows_complete",
    "SkVerif.C15.sortVars_spec",
    "SkVerif.C15.nested_long_nested",
    "SkVerif.C15.nested_long_nested_identity",
    "SkVerif.C15.nested_long_nested_renamed",
    "SkVerif.C15.long_roundtrip_keeps_names_witness",
    "SkVerif.C15.long_roundtrip_default_names_witness",
    "SkVerif.C15.long_row_order_irrelevant",
    "SkVerif.C15.nested_to_long_reserved_name_rejected",
    "SkVerif.C15.nested_to_long_reserved_witness",
    "SkVerif.C15.arr3_nested_duplicate_names_drop_columns",
    "SkVerif.C15.nested_mi_nested_any_ids",
    "SkVerif.C15.mi_to_nested_keeps_instance_order",
    "SkVerif.C15.mi_to_arr3_keeps_instance_order",
    "SkVerif.C15.mi_keys_spec",
    "SkVerif.C15.mi_columns_spec",
    "SkVerif.C15.long_rows_keys_nodup",
    "SkVerif.C15.path5_preserves_panel",
    "SkVerif.C15.path5_independence",
    "SkVerif.C15.nested_mi_keeps_time_order",
    "SkVerif.C15.nested_mi_arr3_any_time_labels",
    "SkVerif.C15.mi_to_nested_row_order_irrelevant",
    "SkVerif.C15.mi_to_arr3_row_order_irrelevant",
    "SkVerif.C15.mi_any_row_order_nested_arr3_eq_direct",
]
TRUSTED = [
    "hand-written model SkVerif/Model/Panel.lean of data_processing.py / check_X: pandas and numpy primitives (np.stack, reshape, swapaxes, "
    "flatten, unstack, concat, melt, pivot, xs, df[name]=col) are modelled by their positional meaning on nested lists",
    "the harness-side canonicaliser (corr/C15.py canon) that turns real DataFrames / arrays into the driver's tokens",
]
ASSUMPTIONS = [
    "state a converter could leave behind outside sktime/utils/data_processing.py (pandas / numpy global options, other modules) is shared by the current-state and the fresh-state run and is not detected; check_X cases are not re-run in a fresh state",
    "instance identifiers (row labels of a start nested frame, instance level of a multi-index frame, instance column of a long table) are pairwise distinct ints or strings in ANY order; "
    "strings are mapped order-preservingly to integers for the model (it only compares and sorts identifiers). Every frame RETURNED by a converter must carry the default RangeIndex "
    "(a pandas 2-D table may carry the start frame's row labels) and Series cells the default time index 0..t-1: the canonicaliser flags anything else, so a deviation shows as a disagreement",
    "a long table is keyed by instance identifier, not by position: the oracle expects the instances back from from_long_to_nested in ascending identifier order (what pivot does), "
    "exactly as the text says for variables; with non-ascending identifiers this is a re-ordering of the rows relative to the original nested frame (observation, not reported as a defect)",
    "values are finite numbers (dyadic rationals; whole numbers where a cell / column / array is integer-typed); no NaN; conversions never inspect values (the model is polymorphic in the value type); "
    "dtypes are not part of the tokens: promotion to a common dtype is invisible, a changed number is a values failure",
    "column names are python str or int, pairwise distinct, not mixed within one frame (duplicate / reserved names only in the malformed stream)",
    "frames that would contain NaN after pd.concat / pivot (unequal series lengths inside from_nested_to_multi_index, incomplete long tables) are outside the model (E:unmodelled, never generated)",
    "time labels (index of the Series cells of a start nested frame, time level of a start multi-index frame, time column of a start long table) are pairwise distinct ints in ANY order "
    "(countdown, shuffled, gapped / negative), the same for every series of the panel; the panel's time order is the order of the readings in the cells / of an instance's rows, not the order of the labels. "
    "Like instances and variables, a long table is keyed by time label: from_long_to_nested returns the readings in ascending label order (what pivot does; observation, not reported as a defect). "
    "The model's nested frame has no time index: cases in which a converter reads the labels of Series cells anywhere but in the first hop (after multi-index -> nested, or pandas 2-D labels) are judged by the oracle alone (to_line = None)",
    "a multi-index frame denotes its panel by LABEL: instance order = order of first appearance, every instance's series = its rows in order of appearance; start frames whose rows are not grouped by instance "
    "(time-major, woven) keep every instance's rows in time order and the first appearances in the panel's instance order; the index levels may come in the order (time, instance) (levels are addressed by name; same model line)",
    "the name attribute of the Series in the cells is irrelevant to every converter (since 89ac2e4); the stream includes cells named by column, by instance and in permuted order, sent to the same model line as unnamed cells",
]
RULE = ("row order and time labels: about 1/2 of the multi-index start frames have rows NOT grouped by instance (time-major / randomly woven, 1/4 with the levels in the order (time, instance)); about 1/2 of the nested (Series cells) / "
        "multi-index / long start containers with t >= 2 carry time labels that are not 0..t-1 ascending (countdown, shuffled, gapped); plus a dedicated stream: every path of length <= 2 (thorough: <= 3) from such containers; "
        "clauses <hop>:time-order (rows / readings of a series in another time order), <hop>:values; "
        "order independence: a fixed perturbing call sequence runs before the first case; conversion cases are evaluated in the current module state and in a fresh copy of the module "
        "(always when the module's state fingerprint deviates from a fresh copy's, every 4th case otherwise); call histories of 3-6 calls with changing optional arguments, each call compared "
        "with the same call in a fresh state; cell dtypes: start containers are float64 or (about 2/3 of the cases) carry int64 / int32 / float32 cells, columns or instances (first-only, last-only, per-column mixes, uniform); "
        "values are compared as numbers; conversion after a selection: every converter and every path of length <= 2 on sub-panels OBTAINED from a bigger container by .loc list / boolean mask / .iloc / reversal "
        "of the instances, a column subset, a time prefix (stale MultiIndex levels, non-default row labels, numpy views) and on Fortran / transposed-view / strided 3-D and 2-D arrays, "
        "with the clause convert(select(P)) == select(convert(P)); "
        "exhaustive small scope: shapes (1..3)x(1..3)x(1..4) x name sets (default / str / str-unsorted / int) x start container (5 kinds; for nested / multi-index / long starts the instance "
        "identifiers are default or, in 2/3 of the cases, shuffled / gapped / descending ints or strings that do not sort in row order) x every type-correct "
        "conversion path of length <= 3 with seeded options (quick: seed-rotated 1/6 slice; thorough: all, two draws of the options each); random larger panels (up to 8 x 13 x 12, paths <= 4); "
        "mixed primitive frames; malformed stream (2-D arrays, wrong / missing level names, wrong-length / duplicate / reserved names, shuffled / duplicated / "
        "wrong-named long tables, ragged cells); check_X flag grid. distinct by driver line; non-trivial = at least one conversion returned a container")
LEVEL_TEXT = "proof"
LEVEL_NOTE = ("Proved for the model, for all shapes n,c>=1 (t>=1 where a multi-index frame / long table is involved), all value types and all pairwise distinct names: "
              "every single converter maps the canonical container of a panel to the canonical container of the panel the property predicts; hence all round trips, "
              "path independence for paths of ANY length over all five containers (path5_preserves_panel / path5_independence), the name rule (kept while every container "
              "carries names, var_i after a 3-D array), the long table's sort-by-identifier with every identifier keeping its name and data (nested_long_nested, full strength "
              "since fix e35dbc7), row-order independence of from_long_to_nested, Series and array cells from a 2-D table (since fix 9d494a8), the nestedness predicates, check_X coercions. "
              "Time labels / row order: from_nested_to_multi_index keeps the cells' reading order and keys the rows by the cells' own labels for ANY label list, and nested -> multi-index -> 3-D array is the panel for any "
              "distinct labels (nested_mi_keeps_time_order, nested_mi_arr3_any_time_labels); from_multi_index_to_nested depends on the rows only through each instance's own rows in order and the order of first "
              "appearance, not on how instances are interleaved (mi_to_nested_row_order_irrelevant), and since fix 319b294 (rows grouped per instance before the reshape; model groupRows) neither does "
              "from_multi_index_to_3d_numpy (mi_to_arr3_row_order_irrelevant); for every re-interleaving of a panel's canonical frame the direct conversion and multi-index -> nested -> 3-D array both give the panel "
              "(mi_any_row_order_nested_arr3_eq_direct). "
              "Recorded findings kept in the model and proved as such: reserved names (index/time_index/value) break from_nested_to_long, duplicate names drop columns in "
              "from_3d_numpy_to_nested. "
              "Only observed by the correspondence (no theorem): the mixed primitive/nested branch (ffill) of from_nested_to_multi_index / from_nested_to_3d_numpy, error kinds on "
              "malformed arguments, 2-D numpy input to the 3-D converters, irrelevance of the cells' Series names (fix 89ac2e4). Not modelled: non-default "
              "row / time indexes, NaN-producing ragged frames, duplicate instance labels.")
TECHNIQUE = "Lean 4 theorems about an executable model + differential correspondence with the real converters + property oracle"

OUT = {"n3": "A", "3n": "N", "3m": "M", "m3": "A", "nm": "M", "mn": "N", "nl": "L", "ln": "N", "n2": "T", "32": "T", "2n": "N"}
IN = {"n3": "N", "3n": "A", "3m": "A", "m3": "M", "nm": "N", "mn": "M", "nl": "N", "ln": "L", "n2": "N", "32": "A", "2n": "T"}


def is_exhaustive(tier):
    return tier == "thorough"


# ------------------------------------------------------------------ token encoding (same as Drv/C15.lean)
def enc_name(x):
    if isinstance(x, str):
        return ".".join(["s"] + [str(ord(ch)) for ch in x])
    if isinstance(x, (bool, np.bool_)):
        return "x.bool"
    if isinstance(x, (int, np.integer)):
        return "i.%d" % int(x)
    return "x." + type(x).__name__


def dec_name(s):
    p = s.split(".")
    if p[0] == "i":
        return int(p[1])
    if p[0] == "s":
        return "".join(chr(int(q)) for q in p[1:])
    return ("?", s)


def enc_names(l):
    if l is None:
        return "none"
    l = list(l)
    return "-" if not l else ",".join(enc_name(x) for x in l)


def dec_names(s):
    return [] if s == "-" else [dec_name(x) for x in s.split(",")]


def enc_vals(l):
    l = list(l)
    return "-" if not l else ",".join(show_rat(float(v)) for v in l)


def enc_list(sep, l):
    l = list(l)
    return "-" if not l else sep.join(l)


def opt(s):
    return "none" if s is None else str(s)


def enc_cell(c):
    if c[0] == "P":
        return "P" + show_rat(float(c[1]))
    return c[0] + enc_vals(c[1])


def rep_labels(r):
    """instance identifiers that appear in a start container (row labels of a nested frame, instance level of a
    multi-index frame, instance column of a long table)"""
    k = r["k"]
    if k == "N":
        return list(r.get("index") or [])
    if k in ("M", "L"):
        return [row[0] for row in r["rows"]]
    return []


def lab_map(r):
    """order-preserving injection of the instance identifiers into the integers (the model only compares and sorts them):
    identity for ints, rank in sorted order for strings"""
    labs = rep_labels(r)
    if any(isinstance(x, str) for x in labs):
        return {x: i for i, x in enumerate(sorted(set(labs)))}
    return None


def lab_int(x, m):
    if m is None:
        return int(x)
    return m[x]


def enc_rep(r, m=None):
    k = r["k"]
    if k == "A":
        v = r["v"]
        n, c, t = len(v), len(v[0]), len(v[0][0])
        return "A:%d,%d,%d:%s" % (n, c, t, enc_vals([x for a in v for b in a for x in b]))
    if k == "T":
        return "T:%s:%s" % ("np" if r["labels"] is None else enc_names(r["labels"]), enc_list(";", [enc_vals(row) for row in r["rows"]]))
    if k == "N":
        tok = "N:%s:%s" % (enc_names(r["names"]), enc_list("|", [enc_list(";", [enc_cell(c) for c in col]) for col in r["cols"]]))
        if r.get("index") is not None:
            tok += ":" + ",".join(str(lab_int(x, m)) for x in r["index"])
        if r.get("tidx") is not None:
            tok += ("" if r.get("index") is not None else ":none") + ":" + ",".join(str(int(x)) for x in r["tidx"])
        return tok
    if k == "M":
        return "M:%s:%s:%s:%s" % (r["inst"], r["time"], enc_names(r["names"]),
                                  enc_list(";", [",".join([str(lab_int(i, m)), str(t)] + [show_rat(float(x)) for x in vs]) for i, t, vs in r["rows"]]))
    if k == "L":
        return "L:%s:%s:%s:%s" % (r["inst"], r["time"], r["dim"],
                                  enc_list(";", [",".join([str(lab_int(i, m)), str(t), enc_name(nm), show_rat(float(v))]) for i, t, nm, v in r["rows"]]))
    if k == "O":
        return "O"
    raise ValueError(k)


def enc_hop(h):
    op = h[0]
    if op in ("n3", "32"):
        return op
    if op == "3n" or op == "2n":
        return "%s:%s:%s" % (op, enc_names(h[1]), h[2])
    if op == "3m":
        return "3m:%s:%s:%s" % (opt(h[1]), opt(h[2]), enc_names(h[3]))
    if op in ("m3", "nm"):
        return "%s:%s:%s" % (op, opt(h[1]), opt(h[2]))
    if op == "mn":
        return "mn:%s:%s" % (opt(h[1]), h[2])
    if op == "nl":
        return "nl:%s:%s:%s" % (opt(h[1]), opt(h[2]), opt(h[3]))
    if op == "ln":
        return "ln:%s:%s:%s:%s" % (h[1], h[2], h[3], enc_names(h[4]))
    if op == "n2":
        return "n2:" + h[1]
    raise ValueError(op)


def model_faithful(c):
    """The model's nested frame has no time index.  A case whose start container carries non-default time labels is sent to the
    model when no converter that READS the labels of Series cells (to the multi-index frame / long table, pandas 2-D labels) is
    applied to a nested frame that still carries them, except as the first hop from the start frame (modelled: the labels are the
    5th field of the N token).  The other cases are judged by the oracle alone."""
    if not c.get("tl"):
        return True
    for hops in [c["hops"]] + ([[c["direct"]]] if c.get("direct") else []):
        kind, lab = c["start"]["k"], True
        for hi, h in enumerate(hops):
            op = h[0]
            if IN[op] != kind:
                break
            if kind == "N" and lab and (op == "n2" and h[1] == "pd"):
                return False
            if kind == "N" and lab and op in ("nm", "nl") and hi > 0:
                return False
            if op in ("nm", "nl", "ln") or (op == "mn" and h[2] == "S"):
                pass
            else:
                lab = False
            kind = OUT[op]
    return True


def to_line(c):
    if c["op"] == "path" and not model_faithful(c):
        return None
    if c["op"] == "path":
        r = c["start"]
        m = lab_map(r)
        if c.get("direct"):
            return "C15 pathd %s %s %s" % (enc_rep(r, m), enc_hop(c["direct"]), " ".join(enc_hop(h) for h in c["hops"]))
        return ("C15 path %s %s" % (enc_rep(r, m), " ".join(enc_hop(h) for h in c["hops"]))).rstrip()
    if c["op"] == "hist":
        return "C15 hist " + " ".join(enc_rep(x["start"], lab_map(x["start"])) + " " + enc_hop(x["hop"]) for x in c["calls"])
    if c["op"] == "pred":
        return "C15 pred " + enc_rep(c["start"])
    if c["op"] == "chk":
        f = c["flags"]
        return "C15 chk %s %s %d %d %s %s" % (enc_rep(c["start"]), show_bool(f[0]), f[1], f[2], show_bool(f[3]), show_bool(f[4]))
    raise ValueError(c["op"])


# ------------------------------------------------------------------ real objects
def _mk_cell(c, sname=None, dtype="float64", tidx=None):
    if c[0] == "S":
        if tidx is not None and len(tidx) == len(c[1]):
            return pd.Series(np.array(c[1], dtype=dtype), index=list(tidx), name=sname)
        return pd.Series(np.array(c[1], dtype=dtype), name=sname)
    if c[0] == "R":
        return np.array(c[1], dtype=dtype)
    return float(c[1])


def build(r):
    k = r["k"]
    dt = r.get("dt")          # cell / column / array dtypes (default float64 everywhere); the values are the same numbers
    if k == "A":
        return np.array(r["v"], dtype=dt or "float64")
    if k == "T":
        a = np.array(r["rows"], dtype=(dt if isinstance(dt, str) else "float64"))
        if r["labels"] is None:
            return a
        df = pd.DataFrame(a, columns=list(r["labels"]))
        if isinstance(dt, list):
            for j, d in enumerate(dt):
                df.isetitem(j, df.iloc[:, j].astype(d))
        return df
    if k == "N":
        mode = r.get("snames")
        n = len(r["cols"][0]) if r["cols"] else 0
        data = {}
        for j, col in enumerate(r["cols"]):
            cells = []
            for i, c in enumerate(col):
                sname = None
                if mode == "col":
                    sname = r["names"][j]
                elif mode == "inst":
                    sname = i
                elif mode == "perm":
                    sname = "q%d" % ((j + i) % len(r["cols"]))
                cells.append(_mk_cell(c, sname, dt[j][i] if dt else "float64", r.get("tidx")))
            if all(c[0] == "P" for c in col):
                data[j] = pd.Series(cells, dtype=float, index=range(n))
            else:
                a = np.empty(n, dtype=object)          # element-wise, so that length-1 arrays stay arrays
                for i, cell in enumerate(cells):
                    a[i] = cell
                data[j] = pd.Series(a, index=range(n))
        df = pd.DataFrame(data, index=range(n))
        df.columns = list(r["names"])
        if r.get("index") is not None:
            df.index = list(r["index"])
        return df
    if k == "M":
        if r.get("swap"):          # the same frame with the levels in the order (time, instance): levels are addressed by name
            idx = pd.MultiIndex.from_tuples([(t, i) for i, t, _ in r["rows"]], names=[r["time"], r["inst"]])
        else:
            idx = pd.MultiIndex.from_tuples([(i, t) for i, t, _ in r["rows"]], names=[r["inst"], r["time"]])
        df = pd.DataFrame(np.array([vs for _, _, vs in r["rows"]], dtype=float).reshape(len(r["rows"]), len(r["names"])), index=idx)
        if dt:
            for j, d in enumerate(dt):
                df.isetitem(j, df.iloc[:, j].astype(d))
        df.columns = list(r["names"])
        return df
    if k == "L":
        rows = r["rows"]
        return pd.DataFrame({r["inst"]: pd.Series([x[0] for x in rows], dtype=(object if any(isinstance(x[0], str) for x in rows) else "int64")),
                             r["time"]: pd.Series([x[1] for x in rows], dtype="int64"),
                             r["dim"]: pd.Series([x[2] for x in rows], dtype=(object if any(isinstance(x[2], str) for x in rows) else "int64")),
                             "value": pd.Series([x[3] for x in rows], dtype=dt or "float64")})
    if k == "O":
        return [[1.0, 2.0]]
    raise ValueError(k)


def _default_range(idx, n):
    try:
        return len(idx) == n and list(idx) == list(range(n))
    except Exception:
        return False


def _subset(idx, tl):
    try:
        l = [int(v) for v in idx]
        return len(set(l)) == len(l) and set(l) <= set(tl)
    except Exception:
        return False


def canon(x, kind, m=None, index=None, tl=None):
    """canonical token of a real container, read according to the kind the converter is documented to return.
    `m`: the case's injection of instance identifiers into the integers; `index`: the row labels of the start frame
    (a pandas 2-D table inherits them; every other frame must carry the default RangeIndex, anything else is flagged);
    `tl`: the time labels of the case's start container (Series cells may carry these instead of 0..t-1; which values sit
    under which label is judged through the multi-index / long containers, whose tokens carry the labels)."""
    def lab(v):
        # identifiers of the start container go through the case's injection; labels created on the way are positions
        try:
            if m is not None and isinstance(v, str):
                return str(m[v]) if v in m else "?" + v
            return str(int(v))
        except Exception:
            return "?" + str(v)
    if kind == "A" or (kind == "T" and isinstance(x, np.ndarray)):
        if not isinstance(x, np.ndarray):
            return "X:not-array:" + type(x).__name__
        if x.ndim == 3:
            return "A:%d,%d,%d:%s" % (x.shape[0], x.shape[1], x.shape[2], enc_vals(x.flatten().tolist()))
        if x.ndim == 2:
            return "T:np:%s" % enc_list(";", [enc_vals(row) for row in x.tolist()])
        return "X:ndim%d" % x.ndim
    if not isinstance(x, pd.DataFrame):
        return "X:not-frame:" + type(x).__name__
    if kind == "T":
        flag = "" if (_default_range(x.index, x.shape[0]) or (index is not None and list(x.index) == list(index))) else "!idx"
        return "T:%s:%s%s" % (enc_names(list(x.columns)), enc_list(";", [enc_vals(row) for row in x.values.tolist()]), flag)
    if kind == "N":
        flag = "" if _default_range(x.index, x.shape[0]) else "!idx"
        cols = []
        for j in range(x.shape[1]):
            cells = []
            for i in range(x.shape[0]):
                v = x.iloc[i, j]
                if isinstance(v, pd.Series):
                    if not _default_range(v.index, len(v)) and not (tl is not None and _subset(v.index, tl)):
                        flag = "!tidx"
                    cells.append("S" + enc_vals(v.tolist()))
                elif isinstance(v, np.ndarray):
                    cells.append("R" + enc_vals(v.tolist()))
                else:
                    cells.append("P" + show_rat(float(v)))
            cols.append(enc_list(";", cells))
        return "N:%s:%s%s" % (enc_names(list(x.columns)), enc_list("|", cols), flag)
    if kind == "M":
        if x.index.nlevels != 2:
            return "X:nlevels%d" % x.index.nlevels
        rows = [",".join([lab(k[0]), str(int(k[1]))] + [show_rat(float(v)) for v in vs]) for k, vs in zip(x.index.tolist(), x.values.tolist())]
        return "M:%s:%s:%s:%s" % (x.index.names[0], x.index.names[1], enc_names(list(x.columns)), enc_list(";", rows))
    if kind == "L":
        cols = list(x.columns)
        if len(cols) != 4 or cols[3] != "value":
            return "X:long-columns:" + ",".join(map(str, cols))
        rows = [",".join([lab(a), str(int(b)), enc_name(c), show_rat(float(d))])
                for a, b, c, d in zip(x.iloc[:, 0].tolist(), x.iloc[:, 1].tolist(), x.iloc[:, 2].tolist(), x.iloc[:, 3].tolist())]
        flag = "" if _default_range(x.index, x.shape[0]) else "!idx"
        return "L:%s:%s:%s:%s%s" % (cols[0], cols[1], cols[2], enc_list(";", rows), flag)
    raise ValueError(kind)


def fresh_dp():
    """an independent, freshly executed copy of sktime/utils/data_processing.py (from the tree under test): module-level
    state of the copy is what a new process would have.  The imported module itself is never reloaded, so whatever earlier
    calls left behind in it stays there."""
    import importlib.util
    import sktime.utils.data_processing as dp
    spec = importlib.util.spec_from_file_location("_c15_fresh_data_processing", dp.__file__)
    mod = importlib.util.module_from_spec(spec)
    spec.loader.exec_module(mod)
    return mod


def fingerprint(mod):
    """module-level state of a data_processing module: data globals, and for every function its default arguments, attributes
    and lru_cache statistics.  Unchanged fingerprint = the calls so far left nothing behind that these places can hold."""
    import types
    items = []
    for k, v in sorted(vars(mod).items()):
        if k.startswith("__") and k != "__all__":
            continue
        if isinstance(v, types.ModuleType) or isinstance(v, type):
            continue
        if isinstance(v, types.FunctionType) or hasattr(v, "__wrapped__"):
            f = getattr(v, "__wrapped__", v)
            ci = v.cache_info() if hasattr(v, "cache_info") else None
            items.append((k, repr(getattr(f, "__defaults__", None)), repr(getattr(f, "__kwdefaults__", None)),
                          repr(sorted(getattr(v, "__dict__", {}).items(), key=lambda kv: kv[0]) if not hasattr(v, "__wrapped__") else None), repr(ci)))
        elif callable(v):
            continue
        else:
            items.append((k, repr(v)))
    return repr(items)


def get_fresh():
    """a fresh copy of the module; the previous copy is reused as long as its fingerprint is still the virgin one"""
    if _state.get("virgin") is None:
        _state["fresh"] = fresh_dp()
        _state["virgin"] = fingerprint(_state["fresh"])
    elif fingerprint(_state["fresh"]) != _state["virgin"]:
        _state["fresh"] = fresh_dp()
    return _state["fresh"]


PERTURB = [
    ("N", ["nl", "case_id", "reading_id", "dim_id"]), ("N", ["nl", "i", None, "d"]), ("N", ["nm", "who", "when"]),
    ("N", ["n2", "pd"]), ("N", ["n3"]), ("A", ["3n", ["p", "q"], "R"]), ("A", ["3m", "who", "when", ["p", "q"]]),
    ("M", ["m3", "a", "b"]), ("M", ["mn", "a", "R"]), ("L", ["ln", "x", "y", "z", ["p", "q"]]), ("A", ["32"]), ("T", ["2n", ["only"], "S"]),
]
_state = {"perturbed": False, "virgin": None, "fresh": None, "count": 0}
SAMPLE = 4          # every SAMPLE-th conversion case is re-run in a fresh module state even when no state change is visible


def perturb(dp=None):
    """the standard perturbing call sequence: every converter once with NON-default optional arguments (custom id-column /
    level / column names, array cells) on a small panel.  It runs once in the imported module before the first case of a
    process, so no case is ever evaluated in a virgin module: a result that differs from the result in a fresh copy depends
    on earlier calls."""
    import random
    r = random.Random(7)
    vals = [[[1.0, 2.0, 3.0], [4.0, 5.0, 6.0]], [[7.0, 8.0, 9.0], [10.0, 11.0, 12.0]]]
    for kind, hop in PERTURB:
        rep = start_rep(r, kind, vals, ["u", "v"], levels=("a", "b"), longcols=("x", "y", "z"))
        try:
            apply_hop(hop, build(rep), dp)
        except Exception:
            pass


def apply_hop(h, x, dp=None):
    if dp is None:
        import sktime.utils.data_processing as dp
    op = h[0]
    if op == "n3":
        return dp.from_nested_to_3d_numpy(x)
    if op == "3n":
        return dp.from_3d_numpy_to_nested(x, column_names=h[1], cells_as_numpy=(h[2] == "R"))
    if op == "3m":
        return dp.from_3d_numpy_to_multi_index(x, instance_index=h[1], time_index=h[2], column_names=h[3])
    if op == "m3":
        return dp.from_multi_index_to_3d_numpy(x, instance_index=h[1], time_index=h[2])
    if op == "nm":
        return dp.from_nested_to_multi_index(x, instance_index=h[1], time_index=h[2])
    if op == "mn":
        return dp.from_multi_index_to_nested(x, instance_index=h[1], cells_as_numpy=(h[2] == "R"))
    if op == "nl":
        return dp.from_nested_to_long(x, instance_column_name=h[1], time_column_name=h[2], dimension_column_name=h[3])
    if op == "ln":
        return dp.from_long_to_nested(x, instance_column_name=h[1], time_column_name=h[2], dimension_column_name=h[3],
                                      value_column_name="value", column_names=h[4])
    if op == "n2":
        return dp.from_nested_to_2d_array(x, return_numpy=(h[1] == "np"))
    if op == "32":
        return dp.from_3d_numpy_to_2d_array(x)
    if op == "2n":
        return dp.from_2d_array_to_nested(x, columns=h[1], cells_as_numpy=(h[2] == "R"))
    raise ValueError(op)


def _strip_tok(tok):
    """token without flags and without the row labels of a nested frame (for the harness' own self-check)"""
    tok = tok.replace("!idx", "").replace("!tidx", "")
    p = tok.split(":")
    if p[0] == "N" and len(p) == 4:
        tok = ":".join(p[:3])
    if p[0] == "L":
        rows = [] if p[4] == "-" else sorted(p[4].split(";"))
        tok = ":".join(p[:4] + [enc_list(";", rows)])
    return tok


def realize(c):
    """the real start container.  Without `via` it is built directly; with `via` it is OBTAINED from a bigger container by the
    pandas / numpy selections users apply (rows by .loc list / boolean mask / .iloc / reversed, a prefix of the time points, a
    subset of the columns) and / or given another memory layout.  pandas keeps unused MultiIndex levels after a selection and
    numpy returns non-contiguous views: the converters must not care.  The result is checked against the case's own start
    description (a mismatch is a harness error, reported as X:select-mismatch)."""
    r = c["start"]
    via = c.get("via")
    if not via:
        return build(r)
    big = via["big"]
    x = build(big)
    k = big["k"]
    inst, how, tpre, cols, layout = via.get("inst"), via.get("how"), via.get("tpre"), via.get("cols"), via.get("layout")
    if k in ("A", "T") and not isinstance(x, pd.DataFrame):
        if inst is not None:
            if how == "rev":
                x = x[::-1]
            elif how == "mask":
                x = x[np.isin(np.arange(x.shape[0]), inst)]
            elif how == "slice":
                x = x[inst[0]:inst[-1] + 1]
            else:
                x = x[list(inst)]
        if k == "A":
            if cols is not None:
                x = x[:, list(cols), :] if how != "slice" else x[:, cols[0]:cols[-1] + 1, :]
            if tpre is not None:
                x = x[:, :, :tpre]
            if layout == "F":
                x = np.asfortranarray(x)
            elif layout == "T":
                x = np.ascontiguousarray(x.transpose(2, 0, 1)).transpose(1, 2, 0)
            elif layout == "strided":
                buf = np.full((x.shape[0], x.shape[1], 2 * x.shape[2] + 1), -99.0)
                buf[:, :, 1::2] = x
                x = buf[:, :, 1::2]
        else:
            if layout == "F":
                x = np.asfortranarray(x)
            elif layout == "strided":
                buf = np.full((x.shape[0], 2 * x.shape[1] + 1), -99.0)
                buf[:, 1::2] = x
                x = buf[:, 1::2]
    elif k == "T":
        if inst is not None:
            x = x.iloc[list(inst)] if how != "mask" else x[np.isin(np.arange(x.shape[0]), inst)]
    elif k == "N":
        n = x.shape[0]
        labels = list(big.get("index") or range(n))
        if inst is not None:
            if how == "loc":
                x = x.loc[[labels[p] for p in inst]]
            elif how == "mask":
                x = x[np.isin(np.arange(n), inst)]
            elif how == "rev":
                x = x.iloc[::-1]
            else:
                x = x.iloc[list(inst)]
        if cols is not None:
            x = x[[big["names"][j] for j in cols]]
        if tpre is not None:
            y = pd.DataFrame(index=x.index)
            for j, name in enumerate(list(x.columns)):
                a = np.empty(x.shape[0], dtype=object)
                for i in range(x.shape[0]):
                    cell = x.iloc[i, j]
                    a[i] = cell.iloc[:tpre] if isinstance(cell, pd.Series) else cell[:tpre]
                y[j] = pd.Series(a, index=x.index)
            y.columns = list(x.columns)
            x = y
    elif k == "M":
        n_rows = x.shape[0]
        lv0 = x.index.get_level_values(0)
        ids_big = list(pd.unique(lv0))
        if inst is not None:
            labels = [ids_big[p] for p in inst]
            if how == "loc":
                x = x.loc[labels]
            elif how == "mask":
                x = x[lv0.isin(labels)]
            else:
                t = n_rows // len(ids_big)
                x = x.iloc[[p * t + q for p in inst for q in range(t)]]
        if cols is not None:
            x = x[[big["names"][j] for j in cols]]
        if tpre is not None:
            x = x[x.index.get_level_values(1) < tpre]
    elif k == "L":
        if inst is not None:
            ids_big = list(pd.unique(x[big["inst"]]))
            x = x[x[big["inst"]].isin([ids_big[p] for p in inst])]
        if cols is not None:
            nm_big = list(pd.unique(x[big["dim"]]))
            x = x[x[big["dim"]].isin([nm_big[j] for j in cols])]
        if tpre is not None:
            x = x[x[big["time"]] < tpre]
    # self-check of the harness: the selection is the container the case describes
    m = lab_map(r)
    kind = r["k"]
    got = canon(x, kind, m, list(x.index) if isinstance(x, pd.DataFrame) else None)
    if _strip_tok(got) != _strip_tok(enc_rep(r, m)):
        raise AssertionError("select-mismatch: %s vs %s" % (got[:200], enc_rep(r, m)[:200]))
    if kind == "N" and list(x.index) != list(r.get("index") or range(x.shape[0])):
        raise AssertionError("select-mismatch: row labels %r" % (list(x.index),))
    return x


def select3(v, via):
    """the selection applied to a panel given as values[i][j][t]"""
    inst, tpre, cols = via.get("inst"), via.get("tpre"), via.get("cols")
    if inst is not None:
        v = [v[p] for p in inst]
    if cols is not None:
        v = [[row[j] for j in cols] for row in v]
    if tpre is not None:
        v = [[col[:tpre] for col in row] for row in v]
    return v


def _run_path(c, dp):
    outs = []
    try:
        x = realize(c)
    except Exception as e:          # harness cannot even build the container: visible, not silent
        return "X:build:" + type(e).__name__ + ":" + str(e)[:120].replace(" ", "_")
    m = lab_map(c["start"])
    index = c["start"].get("index")
    tl = c.get("tl")
    for h in c["hops"]:
        try:
            x = apply_hop(h, x, dp)
            outs.append(canon(x, OUT[h[0]], m, index, tl))
        except Exception as e:
            outs.append(canon_err(e))
            break
    s = enc_list(" > ", outs)
    if c.get("direct"):
        try:
            d = canon(apply_hop(c["direct"], realize(c), dp), OUT[c["direct"][0]], m, index, tl)
        except Exception as e:
            d = canon_err(e)
        s += " || " + d
    return s


def _run_hist(c, dp_shared):
    """every call of the history: in the shared module (state accumulates) and, when dp_shared is None, each in its own fresh copy"""
    outs = []
    for call in c["calls"]:
        dp = dp_shared if dp_shared is not None else get_fresh()
        try:
            x = apply_hop(call["hop"], build(call["start"]), dp)
            outs.append(canon(x, OUT[call["hop"][0]], lab_map(call["start"]), call["start"].get("index")))
        except Exception as e:
            outs.append(canon_err(e))
    return enc_list(" ; ", outs)


def run_real(c):
    import sktime.utils.data_processing as dp
    if not _state["perturbed"]:
        _state["perturbed"] = True
        perturb()
    if c["op"] == "hist":
        seq = _run_hist(c, fresh_dp())             # one process state for the whole history
        alone = _run_hist(c, None)                 # every call in a fresh state
        return seq if seq == alone else seq + " %% " + alone
    if c["op"] == "path":
        s = _run_path(c, dp)                       # in the state all earlier calls of this process left behind
        if s.startswith("X:build"):
            return s
        # in the state of a new process: always when the imported module visibly carries state that a fresh copy does not,
        # and for every SAMPLE-th case otherwise (state kept somewhere the fingerprint cannot see)
        _state["count"] += 1
        fresh = get_fresh()
        if fingerprint(dp) != _state["virgin"] or _state["count"] % SAMPLE == 1:
            f = _run_path(c, fresh)
        else:
            f = s
        via = c.get("via")
        if via and c["hops"] and any(via.get(f_) is not None for f_ in ("inst", "tpre", "cols")):
            # the same first converter on the WHOLE container: convert(select(P)) must be select(convert(P))
            h0 = c["hops"][0]
            try:
                b = canon(apply_hop(h0, build(via["big"])), OUT[h0[0]], lab_map(via["big"]), via["big"].get("index"))
            except Exception as e:
                b = canon_err(e)
            s += " ## " + b
        if f != s.split(" ## ")[0]:
            s += " %% " + f
        return s
    if c["op"] == "pred":
        x = build(c["start"])
        try:
            a = dp.is_nested_dataframe(x)
            b = dp.are_columns_nested(x)
            return "isn=%s acn=%s" % (show_bool(bool(a)), enc_list(",", [show_bool(bool(v)) for v in b]))
        except Exception as e:
            return canon_err(e)
    if c["op"] == "chk":
        from sktime.utils.validation.panel import check_X
        f = c["flags"]
        x = build(c["start"])
        try:
            y = check_X(x, enforce_univariate=f[0], enforce_min_instances=f[1], enforce_min_columns=f[2],
                        coerce_to_numpy=f[3], coerce_to_pandas=f[4])
            return canon(y, "A" if isinstance(y, np.ndarray) else "N")
        except Exception as e:
            return canon_err(e)
    raise ValueError(c["op"])


# ------------------------------------------------------------------ oracle (the property text on real observations)
def _pv(s):
    from fractions import Fraction
    return [] if s == "-" else [float(Fraction(x)) for x in s.split(",")]


def denote(tok, labels=None, tl=None):
    """token -> (kind, names|None, vals[i][j][t] | rows, meta) read WITHOUT the model: what panel does this container hold?
    `labels`: the instance identifiers (as integers) the container must carry, in the panel's instance order
    (None = positions 0..n-1; "any" = whatever it carries, in order of appearance).
    `tl`: the time labels the rows of a multi-index frame / long table must carry, in the panel's time order
    (None = 0..t-1; "any" = whatever they carry, in order of appearance).
    Returns None when the container is not a well-formed container of its kind (other identifiers, time labels not 0..t-1 in
    order, ragged, flags)."""
    p = tok.split(":")
    k = p[0]
    try:
        if k == "A":
            n, c, t = [int(x) for x in p[1].split(",")]
            v = _pv(p[2])
            return ("A", None, [[[v[(i * c + j) * t + q] for q in range(t)] for j in range(c)] for i in range(n)], {})
        if k == "T":
            if "!" in p[2]:
                return None
            rows = [_pv(r) for r in ([] if p[2] == "-" else p[2].split(";"))]
            return ("T", None if p[1] == "np" else dec_names(p[1]), rows, {})
        if k == "N":
            if "!" in p[2]:
                return None
            names = dec_names(p[1])
            cols = [] if p[2] == "-" else [cl.split(";") for cl in p[2].split("|")]
            if any(cell[0] == "P" for cl in cols for cell in cl):
                return None
            n = len(cols[0])
            return ("N", names, [[_pv(cols[j][i][1:]) for j in range(len(cols))] for i in range(n)],
                    {"kinds": sorted({cell[0] for cl in cols for cell in cl})})
        if k == "M":
            names = dec_names(p[3])
            rows = [] if p[4] == "-" else [r.split(",") for r in p[4].split(";")]
            keys = [(int(r[0]), int(r[1])) for r in rows]
            seen = []
            for a, _ in keys:
                if a not in seen:
                    seen.append(a)
            n = len(seen)
            tseen = []
            for _, b in keys:
                if b not in tseen:
                    tseen.append(b)
            t = len(tseen)
            want = seen if labels == "any" else list(range(n)) if labels is None else list(labels)
            tw = tseen if tl == "any" else list(range(t)) if tl is None else list(tl)
            if keys != [(i, q) for i in want for q in tw]:
                # same identifiers, rows of the instances in another order: reported by the caller as instance order
                if labels != "any" and sorted(keys) == sorted((i, q) for i in want for q in tw) and \
                        keys == [(i, q) for i in seen for q in tw]:
                    c = len(names)
                    byid = {i: [[_pv(",".join(rows[si * t + q][2:]))[j] for q in range(t)] for j in range(c)] for si, i in enumerate(seen)}
                    return ("M", names, [byid[i] for i in seen], {"inst": p[1], "time": p[2], "order": seen, "want": want})
                # the right instances in the right order, the rows of an instance in another time order
                if tl != "any" and len(tw) == t and sorted(keys) == sorted((i, q) for i in want for q in tw) and \
                        [a for a, _ in keys] == [i for i in want for _ in tw]:
                    return ("M", names, [], {"inst": p[1], "time": p[2], "torder": [b for _, b in keys[:t]], "twant": tw})
                return None
            c = len(names)
            return ("M", names, [[[_pv(",".join(rows[i * t + q][2:]))[j] for q in range(t)] for j in range(c)] for i in range(n)],
                    {"inst": p[1], "time": p[2]})
        if k == "L":
            if "!" in p[4]:
                return None
            rows = [] if p[4] == "-" else [r.split(",") for r in p[4].split(";")]
            names = []
            d = {}
            for r in rows:
                nm = dec_name(r[2])
                if nm not in names:
                    names.append(nm)
                key = (int(r[0]), int(r[1]), nm)
                if key in d:
                    return None
                d[key] = _pv(r[3])[0]
            ids = sorted({a for a, _, _ in d})
            n = len(ids)
            t = len({b for _, b, _ in d})
            if len(d) != n * t * len(names):
                return None
            want = ids if labels == "any" else list(range(n)) if labels is None else list(labels)
            if sorted(want) != ids:
                return None
            pos = {lab_: i for i, lab_ in enumerate(want)}      # a long table is keyed by identifier: read it by identifier
            if tl is not None and tl != "any":
                if sorted({b for _, b, _ in d}) != sorted(tl):
                    return None
                tpos = {lab_: q for q, lab_ in enumerate(tl)}   # ... and by time label
                d = {(a, tpos[b], nm): v for (a, b, nm), v in d.items()}
            d = {(pos[a], b, nm): v for (a, b, nm), v in d.items()}
            return ("L", names, d, {"inst": p[1], "time": p[2], "dim": p[3], "n": n, "t": t})
    except Exception:
        return None
    return None


def _distinct(l):
    try:
        return len(set(l)) == len(l)
    except TypeError:
        return False


def _walk(c, toks, fails):
    """Property text, hop by hop.  State: expected values (in the expected variable order), expected names when every
    container so far carried names."""
    panel = c["panel"]
    vals = panel["vals"]
    n, ncol, t = len(vals), len(vals[0]), len(vals[0][0])
    start = c["start"]
    kind = start["k"]
    names = list(panel["names"]) if (panel.get("names") is not None and kind in ("N", "M", "L")) else None
    exp = vals                                       # expected values [i][j][t] of the current container
    meta = {}
    m = lab_map(start)
    ids = panel.get("ids")
    labels = [lab_int(x, m) for x in ids] if (ids is not None and kind in ("N", "M", "L")) else None
    # time labels the current container carries (None: the default 0..t-1)
    ptl = panel.get("tl")
    tl = list(ptl) if (ptl is not None and (kind in ("M", "L") or (kind == "N" and start.get("tidx") is not None))) else None
    if kind == "M":
        meta = {"inst": start["inst"], "time": start["time"]}
    if kind == "L":
        meta = {"inst": start["inst"], "time": start["time"], "dim": start["dim"]}
    if kind == "T":
        exp = [[[x for col in inst for x in col]] for inst in vals]   # a 2-D table has one long series per instance
        if start["labels"] is not None:
            kind = "Tpd"
    for hi, h in enumerate(c["hops"]):
        op = h[0]
        site = op
        if IN[op] != kind[0]:
            return                                   # ill-typed path: nothing demanded
        ncur = len(exp[0])
        # ---- are the arguments well-formed for this container (else the text demands nothing)
        if op == "m3" and (h[1] != meta.get("inst") or h[2] != meta.get("time") or h[1] == h[2]):
            return
        if op == "mn" and (h[1] != meta.get("inst") or meta.get("inst") == meta.get("time")):
            return
        if op == "ln" and (h[1] != meta.get("inst") or h[2] != meta.get("time") or h[3] != meta.get("dim") or len({h[1], h[2], h[3], "value"}) != 4):
            return
        if op in ("nm", "3m") and (h[1] or "i") == (h[2] or "t"):
            return
        if op == "nl" and len({h[1] or "index", h[2] or "time_index", h[3] or "column", "value"}) != 4:
            return
        pnames = h[1] if op in ("3n", "2n") else h[3] if op == "3m" else h[4] if op == "ln" else None
        if pnames is not None:
            want = 1 if op == "2n" else ncur
            if len(pnames) != want:
                return
            if not _distinct(pnames):
                # duplicate names: the text still asks for a lossless conversion; judged at the silent-loss site only
                if op != "3n":
                    return
        if hi >= len(toks):
            return
        tok = toks[hi]
        named = start["k"] == "N" and start.get("snames") in ("inst", "perm") and hi == 0 and op in ("nm", "nl")
        if tok.startswith("E:") or tok.startswith("X:"):
            if named:
                fails.append((op + ":named-series-cells:rejected", "Series cells carrying a name (%s): %s raised %s" % (start["snames"], op, tok)))
            elif op == "nl" and tok == "E:value" and names is not None and any(x in ("index", "time_index", "value") for x in names):
                which = [x for x in ("index", "time_index", "value") if x in names][0]
                fails.append(("nl:reserved-name-rejected:" + which, "nested frame with a column named %r cannot be converted to long: %s" % (names, tok)))
            elif op == "2n" and h[2] == "R" and tok == "E:type":
                fails.append(("2n:array-cells-rejected", "from_2d_array_to_nested(cells_as_numpy=True) raised %s" % tok))
            else:
                fails.append((site + ":valid-rejected", "hop %d %r on a valid %s container raised %s" % (hi, h, kind, tok)))
            return
        carries_ids = op in ("nm", "nl")           # containers that keep the instance identifiers of their input
        d = denote(tok, labels if carries_ids else None, tl if carries_ids else None)
        if d is None:
            fails.append((site + ":malformed-output", "hop %d %r returned a container that is not a canonical %s: %s" % (hi, h, OUT[op], tok[:200])))
            return
        okind, onames, ovals, ometa = d
        if okind == "M" and "order" in ometa:
            fails.append((site + ":instance-order", "hop %d %r: instances come out in the order %r, the panel's instance order is %r" % (hi, h, ometa["order"], ometa["want"])))
            return
        if okind == "M" and "torder" in ometa:
            fails.append((site + ":time-order", "hop %d %r: the rows of every instance come out in the time order %r, the cells' time order is %r" % (hi, h, ometa["torder"], ometa["twant"])))
            return
        tl_in = tl
        if op == "ln" and tl is not None:
            # a long table is keyed by time label as well: the readings come back in ascending label order
            order_t = sorted(range(len(tl)), key=lambda q: tl[q])
            exp = [[[col[q] for q in order_t] for col in inst] for inst in exp]
            tl = sorted(tl)
        elif not (op in ("nm", "nl") or (op == "mn" and h[2] == "S")):
            tl = None                                # arrays, array cells and 2-D tables carry no time labels
        # ---- expected values after this hop
        if op == "ln" and labels is not None:
            # a long table is keyed by instance identifier, not by position: its instances come back in identifier order
            order_i = sorted(range(len(exp)), key=lambda i: labels[i])
            exp = [exp[i] for i in order_i]
        if not carries_ids:
            labels = None
        if op == "ln":
            ids = names if names is not None else None
            if ids is None:
                return
            order = sorted(range(ncur), key=lambda j: ids[j])       # the long table orders variables by their identifier
            exp = [[inst[j] for j in order] for inst in exp]
            names = [ids[j] for j in order]
        if okind == "T":
            want_rows = [[x for col in inst for x in col] for inst in exp]
            if ovals != want_rows:
                fails.append((site + ":values", "hop %d %r: 2-D table rows %r, expected %r" % (hi, h, ovals[:3], want_rows[:3])))
                return
            if onames is not None and names is not None and op == "n2":
                wl = ["%s__%d" % (nm, tl_in[q] if tl_in is not None else q) for nm, col in zip(names, exp[0]) for q in range(len(col))]
                if onames != wl:
                    fails.append((site + ":names-not-preserved", "hop %d %r: labels %r, expected %r" % (hi, h, onames[:6], wl[:6])))
            exp = [[row] for row in want_rows]
            names = None
            kind = "T" if onames is None else "Tpd"
            meta = {}
            continue
        if okind == "L":
            # a long table holds one row per (instance, time, variable); the order of its rows is not part of the property
            wshape = (len(exp), len(exp[0]), len(exp[0][0]))
            if names is None or len(names) != wshape[1]:
                return
            want = {(i, q, names[j]): exp[i][j][q] for i in range(wshape[0]) for j in range(wshape[1]) for q in range(wshape[2])}
            if set(onames) != set(names) and set(k3[2] for k3 in ovals) != set(names):
                fails.append((site + ":names-not-preserved", "hop %d %r: variable identifiers %r, expected %r" % (hi, h, onames, names)))
                return
            if (ometa["n"], len(onames), ometa["t"]) != wshape:
                fails.append((site + ":shape", "hop %d %r: long table of %d instances x %d variables x %d time points, expected %r" % (hi, h, ometa["n"], len(onames), ometa["t"], wshape)))
                return
            if ovals != want and named:
                fails.append((op + ":named-series-cells:values", "Series cells carrying a name (%s): %s moved values between variables" % (start["snames"], op)))
                return
            if ovals != want:
                bad = [k3 for k3 in want if ovals.get(k3) != want[k3]][:3]
                fails.append((site + ":values", "hop %d %r: long table entries differ from the original panel at %r" % (hi, h, bad)))
                return
            kind = "L"
            meta = ometa
            continue
        shape = (len(ovals), len(ovals[0]) if ovals else 0, len(ovals[0][0]) if ovals and ovals[0] else 0)
        wshape = (len(exp), len(exp[0]), len(exp[0][0]))
        if shape != wshape and op == "3n" and pnames is not None and not _distinct(pnames):
            fails.append(("3n:duplicate-names-drop-columns", "from_3d_numpy_to_nested with column_names=%r returned shape %r for an array of shape %r" % (pnames, shape, wshape)))
            return
        if pnames is not None and not _distinct(pnames):
            return
        if shape != wshape:
            fails.append((site + ":shape", "hop %d %r: shape %r, expected %r" % (hi, h, shape, wshape)))
            return
        if ovals != exp and named:
            fails.append((op + ":named-series-cells:values", "Series cells carrying a name (%s): %s moved values between columns: got %r expected %r" % (start["snames"], op, ovals[:2], exp[:2])))
            return
        if ovals != exp and sorted(map(repr, ovals)) == sorted(map(repr, exp)):
            fails.append((site + ":instance-order", "hop %d %r: the instances are the original ones in another order: got %r expected %r" % (hi, h, ovals[:4], exp[:4])))
            return
        if ovals != exp and all(len(ro) == len(re_) and all(sorted(a) == sorted(b) for a, b in zip(ro, re_)) for ro, re_ in zip(ovals, exp)):
            fails.append((site + ":time-order", "hop %d %r: every series holds its own values in another time order: got %r expected %r" % (hi, h, ovals[:2], exp[:2])))
            return
        if ovals != exp:
            fails.append((site + ":values", "hop %d %r: values/order differ from the original panel: got %r expected %r" % (hi, h, ovals[:2], exp[:2])))
            return
        if okind == "N" and op in ("3n", "mn", "2n") and ometa.get("kinds") != [h[2]]:
            fails.append((site + ":cell-container", "hop %d %r: cells are %r, the requested container is %r" % (hi, h, ometa.get("kinds"), h[2])))
        # ---- names
        if okind in ("N", "M", "L"):
            if len(onames) != wshape[1]:
                fails.append((site + ":shape", "hop %d %r: %d names for %d variables" % (hi, h, len(onames), wshape[1])))
                return
            if names is not None and pnames is None and IN[op] in ("N", "M", "L"):
                if onames != names and op == "ln" and onames == default_names(len(onames)):
                    fails.append(("ln:names-defaulted", "hop %d %r: the long table carried the names %r (in identifier order), the result is labelled %r" % (hi, h, names, onames)))
                elif onames != names:
                    fails.append((site + ":names-not-preserved", "hop %d %r: column names %r, the original (in the expected variable order) are %r" % (hi, h, onames, names)))
            names = list(onames)
        else:
            names = None
        kind = okind
        meta = ometa
    return (kind, names, exp)


def _grouped(rows):
    """are the rows of a multi-index start frame grouped by instance (every instance one contiguous block)?"""
    seen, last = set(), object()
    for r in rows:
        if r[0] != last:
            if r[0] in seen:
                return False
            seen.add(r[0])
            last = r[0]
    return True


def _commutes(c, out, bigtok):
    """convert(select(P)) == select(convert(P)) for the first converter of the path"""
    via = c["via"]
    h0 = c["hops"][0]
    op = h0[0]
    subtok = out.split(" || ")[0].split(" > ")[0]
    if bigtok.startswith("E:") or bigtok.startswith("X:"):
        return []                                  # the whole container is rejected: judged by its own cases
    big = via["big"]
    mb = lab_map(big)
    idsb = [lab_int(x, mb) for x in rep_labels_panel(big)] if big["k"] in ("N", "M", "L") else None
    ids_carried = op in ("nm", "nl")
    db = denote(bigtok, idsb if (ids_carried and idsb) else None)
    if db is None:
        return []
    if subtok.startswith("E:") or subtok.startswith("X:"):
        # arguments that fit the whole container fit the selection
        pn = h0[1] if op in ("3n", "2n") else h0[3] if op == "3m" else h0[4] if op == "ln" else None
        if pn is not None:
            return []
        return [(op + ":selection-commutes", "%r converts the whole container but raises %s on its selection %r" % (h0, subtok, {k: v for k, v in via.items() if k != "big"}))]
    ms = lab_map(c["start"])
    idss = [lab_int(x, ms) for x in rep_labels_panel(c["start"])] if c["start"]["k"] in ("N", "M", "L") else None
    ds = denote(subtok, idss if (ids_carried and idss) else None)
    if ds is None or "order" in ds[3] or "order" in db[3]:
        return []                                  # reported by the walk
    kb, _, vb, _ = db
    ks, _, vs, _ = ds
    if kb == "L":
        # both long tables are read by identifier: position p of the selection is position inst[p] of the whole
        inst = via.get("inst") if via.get("inst") is not None else list(range(db[3]["n"]))
        keep = set(ds[1])
        want = {}
        for (i, q, nm), v in vb.items():
            if i in inst and nm in keep and (via.get("tpre") is None or q < via["tpre"]):
                want[(inst.index(i), q, nm)] = v
        if want != vs:
            return [(op + ":selection-commutes", "%r: the long table of the selection is not the selection of the long table (%r)" % (h0, {k: v for k, v in via.items() if k != "big"}))]
        return []
    if kb == "T":
        inst = via.get("inst")
        wantr = vb if inst is None else [vb[p] for p in inst]
        if via.get("cols") is not None or via.get("tpre") is not None:
            return []                              # a 2-D table has no variable / time structure to select from
        if wantr != vs:
            return [(op + ":selection-commutes", "%r: 2-D table of the selection %r differs from the selection of the 2-D table" % (h0, {k: v for k, v in via.items() if k != "big"}))]
        return []
    via2 = dict(via)
    if op == "ln":
        # the long table hands instances and variables back in identifier order: select in that order
        ids_big = [lab_int(x, mb) for x in rep_labels_panel(big)]
        if via.get("inst") is not None:
            order_big = sorted(range(len(ids_big)), key=lambda i: ids_big[i])
            sel = set(via["inst"])
            via2["inst"] = [r for r, i in enumerate(order_big) if i in sel]
        if via.get("cols") is not None:
            return []
    if op == "2n":
        return []
    want3 = select3(vb, via2)
    if want3 != vs:
        return [(op + ":selection-commutes", "%r: converting the selection %r gives %r, selecting from the converted whole gives %r" % (h0, {k: v for k, v in via.items() if k != "big"}, vs[:2], want3[:2]))]
    return []


def rep_labels_panel(r):
    """instance identifiers of a start container in the panel's instance order"""
    k = r["k"]
    if k == "N":
        n = len(r["cols"][0]) if r["cols"] else 0
        return list(r.get("index") or range(n))
    seen = []
    for row in r["rows"]:
        if row[0] not in seen:
            seen.append(row[0])
    return seen


def oracle(c, out):
    fails = []
    if c["op"] == "pred":
        cols = c["start"]["cols"]
        want_cols = [any(cell[0] in ("S", "R") for cell in col) for col in cols]
        want = "isn=%s acn=%s" % (show_bool(any(want_cols)), enc_list(",", [show_bool(b) for b in want_cols]))
        if out != want:
            fails.append(("pred:nestedness", "predicates report %s, frame holds series-valued cells: %s" % (out, want)))
        return fails
    if c["op"] == "hist":
        seq, _, alone = out.partition(" %% ")
        if alone:
            a, b = seq.split(" ; "), alone.split(" ; ")
            k = next(i for i in range(len(a)) if a[i] != b[i])
            fails.append((c["calls"][k]["hop"][0] + ":result-depends-on-earlier-calls",
                          "call %d %r gives %s after the calls %r but %s in a fresh module state"
                          % (k, c["calls"][k]["hop"], a[k][:160], [x["hop"] for x in c["calls"][:k]], b[k][:160])))
        return fails
    panel = c.get("panel")
    if c["op"] == "path" and " %% " in out and panel is None:
        out2, _, freshtok = out.partition(" %% ")
        fails.append((c["hops"][0][0] + ":result-depends-on-earlier-calls", "current state: %s ; fresh module state: %s" % (out2[:200], freshtok[:200])))
        return fails
    if panel is None:
        return fails
    if c["op"] == "chk":
        f = c["flags"]
        vals = panel["vals"]
        n, ncol = len(vals), len(vals[0])
        should_accept = not (f[3] and f[4]) and ncol >= f[2] and not (f[0] and ncol > 1) and n >= f[1]
        if not should_accept:
            return fails
        if out.startswith("E:") or out.startswith("X:"):
            fails.append(("chk:valid-rejected", "check_X%r rejected a valid %s panel: %s" % (f, c["start"]["k"], out)))
            return fails
        d = denote(out)
        if d is None:
            fails.append(("chk:malformed-output", out[:200]))
            return fails
        want_kind = "A" if (f[3] or (c["start"]["k"] == "A" and not f[4])) else "N"
        if d[0] != want_kind:
            fails.append(("chk:container-kind", "check_X%r returned %s, expected %s" % (f, d[0], want_kind)))
        if d[2] != vals:
            fails.append(("chk:values", "check_X%r changed the values/shape/order" % (f,)))
        if d[0] == "N" and c["start"]["k"] == "N" and d[1] != panel["names"]:
            fails.append(("chk:names-not-preserved", "check_X%r returned names %r" % (f, d[1])))
        return fails
    # path
    out, _, freshtok = out.partition(" %% ")
    if freshtok:
        cur = out.split(" ## ")[0].replace(" || ", " > ").split(" > ")
        fre = freshtok.replace(" || ", " > ").split(" > ")
        hops_ = list(c["hops"]) + ([c["direct"]] if c.get("direct") else [])
        k = next((i for i in range(min(len(cur), len(fre))) if cur[i] != fre[i]), min(len(cur), len(fre)) - 1)
        op = hops_[min(k, len(hops_) - 1)][0]
        fails.append((op + ":result-depends-on-earlier-calls",
                      "%r gives %s after earlier calls in the same process (first of them the perturbing sequence %r) but %s in a fresh module state"
                      % (hops_[min(k, len(hops_) - 1)], cur[k][:160], [h for _, h in PERTURB], fre[k][:160])))
    out, _, bigtok = out.partition(" ## ")
    if out.startswith("X:build"):
        fails.append(("harness:start-container", out))
        return fails
    if bigtok:
        fails.extend(_commutes(c, out, bigtok))
    parts = out.split(" || ")
    toks = [] if parts[0] == "-" else parts[0].split(" > ")
    end = _walk(c, toks, fails)
    if fails or end is None or len(parts) < 2 or not c.get("direct"):
        return fails
    # every path yields the same result as the direct conversion
    dt = parts[1]
    if dt.startswith("E:") or dt.startswith("X:"):
        return fails        # judged by the direct case itself
    tlc = c.get("tl")

    def carried(hops):
        """does the container at the end of `hops` still carry the time labels of the start container?"""
        lab = True
        for h in hops:
            lab = lab and (h[0] in ("nm", "nl", "ln") or (h[0] == "mn" and h[2] == "S"))
        return lab
    # containers that carry the start container's time labels are read by label, the others by position
    dd = denote(dt, "any", "any" if not tlc else (tlc if carried([c["direct"]]) else None))
    pd_ = denote(toks[-1], "any", "any" if not tlc else (tlc if carried(c["hops"]) else None)) if toks else None
    if dd is None or pd_ is None or "torder" in dd[3] or "torder" in pd_[3]:
        return fails
    via_long = any(h[0] == "ln" for h in c["hops"])
    via_2d = any(OUT[h[0]] == "T" for h in c["hops"][:-1]) and len(c["panel"]["vals"][0]) > 1   # a 2-D table has no column boundaries
    ids_in_result = c["panel"].get("ids") is not None and dd[0] in ("M", "L")
    if not via_long and not via_2d and not ids_in_result:
        if dd[0] == "L" and pd_[0] == "L" and dd[1] is not None and pd_[1] is not None and sorted(map(str, dd[1])) != sorted(map(str, pd_[1])):
            pass        # names not carried on one of the ways: compared below only when carried
        elif dd[2] != pd_[2]:
            fails.append(("path:differs-from-direct", "path %r gives other values than the direct conversion %r" % ([h[0] for h in c["hops"]], c["direct"][0])))
        carried = all(OUT[h[0]] in ("N", "M", "L") for h in c["hops"]) and c["start"]["k"] in ("N", "M", "L") and all(
            (h[1] if h[0] in ("3n", "2n") else h[3] if h[0] == "3m" else h[4] if h[0] == "ln" else None) is None for h in c["hops"])
        if carried and (dd[1] != pd_[1] if dd[0] != "L" else set(dd[1]) != set(pd_[1])):
            fails.append(("path:names-differ-from-direct", "path %r gives names %r, direct conversion %r" % ([h[0] for h in c["hops"]], pd_[1], dd[1])))
    return fails


def compare(real_out, model_out):
    return real_out.split(" %% ")[0].split(" ## ")[0] == model_out


def nontrivial_hist(out):
    return any(not t.startswith("E:") for t in out.split(" %% ")[0].split(" ; "))


def nontrivial(c, out):
    if c["op"] == "hist":
        return nontrivial_hist(out)
    return _nontrivial(c, out)


def _nontrivial(c, out):
    if c["op"] == "path":
        first = out.split(" %% ")[0].split(" ## ")[0].split(" || ")[0].split(" > ")[0]
        return c.get("panel") is not None and not first.startswith("E:") and not first.startswith("X:") and first != "-"
    return not out.startswith("E:")


def features(c, out):
    if c["op"] == "hist":
        return ["op=hist", "calls=%d" % len(c["calls"])] + ["hop=" + x["hop"][0] for x in c["calls"]]
    f = ["op=" + c["op"], "start=" + c["start"]["k"]]
    if c["op"] == "path":
        f.append("len=%d" % len(c["hops"]))
        for h in c["hops"]:
            f.append("hop=" + h[0])
        p = c.get("panel")
        if p is None:
            f.append("panel=none(malformed/mixed)")
        else:
            v = p["vals"]
            f.append("shape=%s,%s,%s" % tuple(str(x) if x <= 4 else "5+" for x in (len(v), len(v[0]), len(v[0][0]))))
            nm = p.get("names")
            f.append("names=" + ("default" if nm is None or nm == default_names(len(nm)) else "int" if nm and isinstance(nm[0], int) else "str"))
        sdt = (c["via"]["big"] if c.get("via") else c["start"]).get("dt")
        if sdt is not None:
            flat = [sdt] if isinstance(sdt, str) else [x for y in sdt for x in (y if isinstance(y, list) else [y])]
            f.append("dtypes=" + ("uniform-" + flat[0] if len(set(flat)) == 1 else "mixed"))
        if c.get("tl"):
            f.append("time-labels=" + ("descending" if c["tl"] == sorted(c["tl"], reverse=True) else "unsorted"))
        if c["start"]["k"] == "M" and not _grouped(c["start"]["rows"]):
            f.append("mi-rows=not-grouped-by-instance")
        if c["start"].get("swap"):
            f.append("mi-levels=(time,instance)")
        if c.get("via"):
            v = c["via"]
            f.append("via=" + "+".join([x for x in (("inst-" + str(v.get("how"))) if v.get("inst") is not None else None,
                                                     "cols" if v.get("cols") is not None else None,
                                                     "time" if v.get("tpre") is not None else None,
                                                     ("layout-" + v["layout"]) if v.get("layout") else None) if x]))
        for tok in out.split(" %% ")[0].split(" ## ")[0].replace(" || ", " > ").split(" > "):
            if tok.startswith("E:") or tok.startswith("X:"):
                f.append("err=" + tok)
    elif out.startswith("E:"):
        f.append("err=" + out)
    return f


# ------------------------------------------------------------------ generators
STR_POOL = ["a", "b", "c", "x1", "dim_0", "B", "Z", "var_3", "", "ü", "a b", "col:1", "1", "10", "2", "var_10", "var_2", "column", "timepoints", "instance"]
LEVELS = [("instances", "timepoints"), ("instance", "timepoints"), ("case", "t"), ("a", "b"), ("index", "time_index")]
LONGCOLS = [("case_id", "reading_id", "dim_id"), ("index", "time_index", "column"), ("i", "t", "d")]
NEXT = {"N": ["n3", "nm", "nl", "n2"], "A": ["3n", "3m", "32"], "M": ["m3", "mn"], "L": ["ln"], "T": ["2n"]}
DIRECT = {("N", "A"): "n3", ("A", "N"): "3n", ("A", "M"): "3m", ("M", "A"): "m3", ("N", "M"): "nm", ("M", "N"): "mn",
          ("N", "L"): "nl", ("L", "N"): "ln", ("N", "T"): "n2", ("A", "T"): "32", ("T", "N"): "2n"}


def default_names(c):
    return ["var_%d" % j for j in range(c)]


def mk_vals(rng, n, c, t, mode="distinct"):
    if mode == "distinct":
        base = list(range(n * c * t))
        rng.shuffle(base)
        off = rng.choice([0, 0, -7, 100])
        den = rng.choice([1, 1, 2, 4])
        it = iter(base)
        return [[[(next(it) + off) / den for _ in range(t)] for _ in range(c)] for _ in range(n)]
    from common import dyadic
    return [[[dyadic(rng) for _ in range(t)] for _ in range(c)] for _ in range(n)]


def mk_names(rng, c, kind):
    if kind == "default":
        return None
    if kind == "int":
        pool = list(range(-3, 31))
        return rng.sample(pool, c)
    pool = list(STR_POOL) + ["n%d" % k for k in range(max(0, c - len(STR_POOL) + 2))]
    nm = rng.sample(pool, c)
    if kind == "str-unsorted" and c > 1 and nm == sorted(nm):
        nm.reverse()
    return nm


DT_MODES = [None, None, None, "all-int64", "all-int32", "all-float32", "first-cell-int", "last-cell-int", "first-col-int", "last-col-int",
            "first-inst-int", "last-inst-int", "cols-mixed", "first-cell-int32", "first-inst-float32"]


def apply_dtypes(rng, kind, vals, mode, pandas2d=False):
    """(values, dt): the panel with whole numbers wherever the container stores integers, and the dtype description of the start
    container.  Nested frames are typed cell by cell, multi-index frames / pandas 2-D tables column by column, arrays and the
    value column of a long table as a whole.  The NUMBERS are what the property speaks about: promotion to a common dtype is
    fine, truncation is not."""
    import math
    if mode is None:
        return vals, None
    n, c, t = len(vals), len(vals[0]), len(vals[0][0])
    mixed = [rng.choice(["int64", "int32", "float32", "float64"]) for _ in range(c)]

    def plan(i, j):
        if mode.startswith("all-"):
            return mode[4:]
        it = "int32" if mode.endswith("int32") else "float32" if mode.endswith("float32") else "int64"
        if mode.startswith("first-cell"):
            return it if (i, j) == (0, 0) else "float64"
        if mode == "last-cell-int":
            return it if (i, j) == (n - 1, c - 1) else "float64"
        if mode == "first-col-int":
            return it if j == 0 else "float64"
        if mode == "last-col-int":
            return it if j == c - 1 else "float64"
        if mode.startswith("first-inst"):
            return it if i == 0 else "float64"
        if mode == "last-inst-int":
            return it if i == n - 1 else "float64"
        return mixed[j]
    if kind == "N":
        cell = [[plan(i, j) for i in range(n)] for j in range(c)]           # dt[j][i]
        eff = lambda i, j: cell[j][i]
        dt = cell
    elif kind == "M" or (kind == "T" and pandas2d):
        col = [plan(0, j) if not mode.startswith(("first-cell", "last-cell", "first-inst", "last-inst")) else "float64" for j in range(c)]
        if kind == "M":
            eff = lambda i, j: col[j]
            dt = col
        else:
            eff = lambda i, j: col[j]
            dt = [col[j] for j in range(c) for _ in range(t)]
    else:
        one = mode[4:] if mode.startswith("all-") else "float64"
        eff = lambda i, j: one
        dt = one
    out = [[[float(math.floor(x)) if eff(i, j).startswith("int") else x for x in vals[i][j]] for j in range(c)] for i in range(n)]
    return out, dt


def mk_ids(rng, n, mode):
    """instance identifiers: the panel's instances are NOT in ascending identifier order"""
    if mode == "perm":
        ids = list(range(n))
        rng.shuffle(ids)
    elif mode == "gap":
        ids = rng.sample(range(-5, 40), n)
    elif mode == "str":
        pool = ["s10", "s2", "s9", "s1", "a", "B", "case 3", "", "z", "s11", "10", "9"]
        ids = rng.sample(pool, n) if n <= len(pool) else ["s%d" % k for k in rng.sample(range(100), n)]
    elif mode == "desc":
        ids = list(range(n - 1, -1, -1))
    else:
        return None
    if n > 1 and ids == sorted(ids):
        ids.reverse()
    return ids


ID_MODES = [None, None, "perm", "gap", "str", "desc"]


def start_rep(rng, kind, vals, names, cellkind="S", levels=None, longcols=None, shuffle=False, pandas2d=False, ids=None, dt=None,
              tl=None, mrow=None, swap=False):
    """`tl`: time labels (distinct ints, any order) of the Series cells / the time level / the time column; `mrow`: order of the rows
    of a multi-index frame ("tmajor": time-major, "weave": a random interleaving of the instances; every instance keeps its own
    time order and the instances first appear in the panel's order); `swap`: index levels in the order (time, instance)."""
    rep = _start_rep(rng, kind, vals, names, cellkind, levels, longcols, shuffle, pandas2d, ids)
    n, t = len(vals), len(vals[0][0])
    if tl is not None and kind in ("M", "L"):
        for row in rep["rows"]:
            row[1] = tl[row[1]]
    if tl is not None and kind == "N" and cellkind == "S":
        rep["tidx"] = list(tl)
    if kind == "M" and mrow is not None and n > 1 and t > 1:
        blocks = [rep["rows"][i * t:(i + 1) * t] for i in range(n)]
        if mrow == "tmajor":
            rows = [blocks[i][q] for q in range(t) for i in range(n)]
        else:
            ptr, started, rows = [0] * n, 0, []
            while len(rows) < n * t:
                cand = [i for i in range(min(started + 1, n)) if ptr[i] < t]
                i = rng.choice(cand)
                if i == started:
                    started += 1
                rows.append(blocks[i][ptr[i]])
                ptr[i] += 1
            if _grouped(rows):
                rows = [blocks[i][q] for q in range(t) for i in range(n)]
        rep["rows"] = rows
    if kind == "M" and swap:
        rep["swap"] = True
    if dt is not None:
        rep["dt"] = dt
    return rep


def mk_tl(rng, t, mode):
    """time labels that are NOT 0..t-1 in ascending order"""
    if mode is None or t < 2:
        return None
    if mode == "desc":
        return list(range(t - 1, -1, -1))
    if mode == "perm":
        tl = list(range(t))
        rng.shuffle(tl)
    else:
        tl = rng.sample(range(-5, 40), t)
    if tl == sorted(tl):
        tl.reverse()
    return tl


TL_MODES = [None, None, None, "desc", "perm", "gap"]
MROW_MODES = [None, None, "tmajor", "weave"]


def _start_rep(rng, kind, vals, names, cellkind="S", levels=None, longcols=None, shuffle=False, pandas2d=False, ids=None):
    n, c, t = len(vals), len(vals[0]), len(vals[0][0])
    nm = names if names is not None else default_names(c)
    il = ids if ids is not None else list(range(n))
    if kind == "A":
        return {"k": "A", "v": vals}
    if kind == "N":
        rep = {"k": "N", "names": nm, "cols": [[[cellkind, vals[i][j]] for i in range(n)] for j in range(c)]}
        if ids is not None:
            rep["index"] = list(ids)
        return rep
    if kind == "M":
        lv = levels or LEVELS[0]
        return {"k": "M", "inst": lv[0], "time": lv[1], "names": nm,
                "rows": [[il[i], q, [vals[i][j][q] for j in range(c)]] for i in range(n) for q in range(t)]}
    if kind == "L":
        lc = longcols or LONGCOLS[0]
        rows = [[il[i], q, nm[j], vals[i][j][q]] for j in range(c) for i in range(n) for q in range(t)]
        if shuffle:
            rng.shuffle(rows)
        return {"k": "L", "inst": lc[0], "time": lc[1], "dim": lc[2], "rows": rows}
    if kind == "T":
        rows = [[x for col in inst for x in col] for inst in vals]
        labels = ["%s__%d" % (nm[j], q) for j in range(c) for q in range(t)] if pandas2d else None
        return {"k": "T", "labels": labels, "rows": rows}
    raise ValueError(kind)


class St:
    """what the generator knows about the current container, to pick (mostly) valid arguments"""

    def __init__(self, kind, c, names, inst=None, time=None, dim=None):
        self.kind, self.c, self.names, self.inst, self.time, self.dim = kind, c, names, inst, time, dim


def pick_hop(rng, op, st, custom_names=None, wild=0.0):
    """returns (hop, new state).  `custom_names(c)` gives explicit column names for hops that accept them."""
    def maybe_names(c):
        if custom_names is not None and rng.random() < 0.5:
            return custom_names(c)
        return None
    k = rng.choice(["S", "R"])
    if op == "n3":
        return ["n3"], St("A", st.c, None)
    if op == "3n":
        nm = maybe_names(st.c)
        return ["3n", nm, k], St("N", st.c, nm or default_names(st.c))
    if op == "3m":
        lv = rng.choice([(None, None), (None, None), ("case", None), (None, "tp"), ("i", "t")])
        nm = maybe_names(st.c)
        return ["3m", lv[0], lv[1], nm], St("M", st.c, nm or default_names(st.c), lv[0] or "instances", lv[1] or "timepoints")
    if op == "m3":
        return ["m3", st.inst, st.time], St("A", st.c, None)
    if op == "nm":
        lv = rng.choice([(None, None), (None, None), ("case", None), (None, "tp"), ("i", "t")])
        return ["nm", lv[0], lv[1]], St("M", st.c, st.names, lv[0] or "instance", lv[1] or "timepoints")
    if op == "mn":
        return ["mn", st.inst, k], St("N", st.c, st.names)
    if op == "nl":
        lc = rng.choice([(None, None, None), (None, None, None), ("case_id", "reading_id", "dim_id"), ("i", None, "d")])
        return ["nl", lc[0], lc[1], lc[2]], St("L", st.c, st.names, lc[0] or "index", lc[1] or "time_index", lc[2] or "column")
    if op == "ln":
        nm = maybe_names(st.c)
        return ["ln", st.inst, st.time, st.dim, nm], St("N", st.c, nm or default_names(st.c))
    if op == "n2":
        m = rng.choice(["np", "pd"])
        return ["n2", m], St("T", 1, None)
    if op == "32":
        return ["32"], St("T", 1, None)
    if op == "2n":
        nm = None
        if custom_names is not None and rng.random() < 0.3:
            nm = custom_names(1)
        return ["2n", nm, "S" if rng.random() < 0.8 else "R"], St("N", 1, nm or [0])
    raise ValueError(op)


def op_paths(kind, maxlen):
    """all type-correct op sequences of length 1..maxlen starting from a container kind"""
    out = []

    def rec(k, acc):
        if acc:
            out.append(list(acc))
        if len(acc) == maxlen:
            return
        for op in NEXT[k]:
            acc.append(op)
            rec(OUT[op], acc)
            acc.pop()
    rec(kind, [])
    return out


def start_state(rep, c):
    k = rep["k"]
    if k == "M":
        return St("M", c, rep["names"], rep["inst"], rep["time"])
    if k == "L":
        return St("L", c, None, rep["inst"], rep["time"], rep["dim"])
    if k == "N":
        return St("N", c, rep["names"])
    return St(k, c if k == "A" else 1, None)


def with_tl(case, tl):
    if tl is not None and (case["start"]["k"] in ("M", "L") or case["start"].get("tidx") is not None):
        case["tl"] = list(tl)
        case["panel"]["tl"] = list(tl)
    return case


def mk_path_case(rng, rep, panel, ops, c, custom_names=None):
    st = start_state(rep, c)
    hops = []
    for op in ops:
        h, st = pick_hop(rng, op, st, custom_names)
        hops.append(h)
    direct = None
    dop = DIRECT.get((rep["k"], OUT[ops[-1]]))
    if len(hops) >= 2 and dop is not None:
        direct, _ = pick_hop(rng, dop, start_state(rep, c), None)
    return {"op": "path", "start": rep, "hops": hops, "direct": direct, "panel": panel}


def gen_small(tier, rng, cases):
    shapes = [(n, c, t) for n in (1, 2, 3) for c in (1, 2, 3) for t in (1, 2, 3, 4)]
    namekinds = ["default", "str", "str-unsorted", "int"]
    starts = ["A", "N", "M", "L", "T"]
    rot = rng.randrange(6)
    idx = 0
    reps = 1 if tier == "quick" else 2          # thorough: two independent draws of the options per path
    for (n, c, t) in shapes:
        for nk in namekinds:
            for sk in starts:
                for ops in op_paths(sk, 3) * reps:
                    idx += 1
                    if tier == "quick" and (idx + rot) % 6 != 0:
                        continue
                    vals = mk_vals(rng, n, c, t)
                    names = mk_names(rng, c, nk)
                    ids = mk_ids(rng, n, rng.choice(ID_MODES)) if sk in ("N", "M", "L") else None
                    p2d = rng.random() < 0.5
                    vals, dt = apply_dtypes(rng, sk, vals, rng.choice(DT_MODES), p2d)
                    tl = mk_tl(rng, t, rng.choice(TL_MODES)) if sk in ("N", "M", "L") else None
                    rep = start_rep(rng, sk, vals, names, cellkind=rng.choice(["S", "R"]), levels=rng.choice(LEVELS),
                                    longcols=rng.choice(LONGCOLS), shuffle=rng.random() < 0.3, pandas2d=p2d, ids=ids, dt=dt,
                                    tl=tl, mrow=rng.choice(MROW_MODES), swap=rng.random() < 0.25)
                    panel = {"vals": vals, "names": names if names is not None else default_names(c)}
                    if ids is not None:
                        panel["ids"] = ids
                    cn = (lambda k, nk=nk: mk_names(rng, k, nk if nk != "default" else "str"))
                    cases.append(with_tl(mk_path_case(rng, rep, panel, ops, c, cn), tl))


def gen_random(tier, rng, cases):
    nr = 400 if tier == "quick" else 5000
    for _ in range(nr):
        n = rng.choice([1, 1, 2, 3, 4, 5, 8])
        c = rng.choice([1, 2, 3, 4, 5, 7, 11, 12, 13])
        t = rng.choice([2, 3, 5, 8, 12])
        if n * c * t > 400:
            t = 2
        nk = rng.choice(["default", "default", "str", "str-unsorted", "int"])
        sk = rng.choice(["A", "N", "N", "M", "L", "T"])
        vals = mk_vals(rng, n, c, t, mode=rng.choice(["distinct", "dyadic"]))
        names = mk_names(rng, c, nk)
        ids = mk_ids(rng, n, rng.choice(ID_MODES)) if sk in ("N", "M", "L") else None
        p2d = rng.random() < 0.5
        vals, dt = apply_dtypes(rng, sk, vals, rng.choice(DT_MODES), p2d)
        tl = mk_tl(rng, t, rng.choice(TL_MODES)) if sk in ("N", "M", "L") else None
        rep = start_rep(rng, sk, vals, names, cellkind=rng.choice(["S", "R"]), levels=rng.choice(LEVELS),
                        longcols=rng.choice(LONGCOLS), shuffle=rng.random() < 0.5, pandas2d=p2d, ids=ids, dt=dt,
                        tl=tl, mrow=rng.choice(MROW_MODES), swap=rng.random() < 0.25)
        ops = rng.choice(op_paths(sk, 4))
        panel = {"vals": vals, "names": names if names is not None else default_names(c)}
        if ids is not None:
            panel["ids"] = ids
        cn = (lambda k, nk=nk: mk_names(rng, k, nk if nk != "default" else "str"))
        case = with_tl(mk_path_case(rng, rep, panel, ops, c, cn), tl)
        if sk == "A" and rng.random() < 0.5:
            case["via"] = {"big": rep, "layout": rng.choice(["F", "T", "strided"])}
        cases.append(case)


def rand_frame(rng, n, c, t, pprim, ragged=False):
    cols = []
    for j in range(c):
        colprim = rng.random() < pprim
        col = []
        for i in range(n):
            if colprim or rng.random() < pprim / 4:
                col.append(["P", float(rng.randrange(-9, 10))])
            else:
                ln = t if not ragged or rng.random() < 0.6 else max(1, t + rng.choice([-1, 1]))
                col.append([rng.choice(["S", "R"]), [float(rng.randrange(-20, 20)) for _ in range(ln)]])
        cols.append(col)
    return cols


def frame_ops(cols):
    """converters whose result on this mixed frame stays inside the modelled domain (no NaN after pd.concat, instance
    frames aligned: no primitive inside a nested column, one cell container per nested column, equal lengths per instance)"""
    n = len(cols[0])
    colnested = [any(cell[0] != "P" for cell in col) for col in cols]
    mi_ok = any(colnested)
    for j, col in enumerate(cols):
        if colnested[j] and len({cell[0] for cell in col}) != 1:
            mi_ok = False
    for i in range(n):
        if len({len(col[i][1]) for col in cols if col[i][0] != "P"}) > 1:
            mi_ok = False
    ops = [["n2"]]
    if all(colnested) or not any(colnested) or mi_ok:
        ops += [["n3"], ["n3", "3n"]]
    if mi_ok or not any(colnested):
        ops += [["nm"], ["nl"], ["nm", "m3"], ["nm", "mn"]]
    return ops


def gen_frames(tier, rng, cases):
    """mixed primitive / nested frames: predicates on all of them, converters on some (no panel: oracle judges predicates only)"""
    # exhaustive: every 1..2 x 1..2 grid of cell kinds {S, R, P}
    for n in (1, 2):
        for c in (1, 2):
            for kinds in itertools.product("SRP", repeat=n * c):
                cols = [[([kinds[j * n + i], [1.0 + i, 2.0 + j]] if kinds[j * n + i] != "P" else ["P", 3.0 + i + j]) for i in range(n)] for j in range(c)]
                rep = {"k": "N", "names": ["a", 7][:c], "cols": cols}
                cases.append({"op": "pred", "start": rep})
                if tier == "thorough" or rng.random() < 0.25:
                    for ops in frame_ops(cols):
                        cases.append(mk_path_case(rng, rep, None, ops, c))
    nr = 60 if tier == "quick" else 600
    for _ in range(nr):
        n, c, t = rng.randrange(1, 5), rng.randrange(1, 5), rng.randrange(2, 5)
        cols = rand_frame(rng, n, c, t, rng.choice([0.0, 0.3, 0.6, 1.0]), ragged=rng.random() < 0.3)
        names = mk_names(rng, c, rng.choice(["str", "int"]))
        rep = {"k": "N", "names": names, "cols": cols}
        cases.append({"op": "pred", "start": rep})
        ops = rng.choice(frame_ops(cols))
        cases.append(mk_path_case(rng, rep, None, ops, c))


def gen_malformed(tier, rng, cases):
    reps = 1 if tier == "quick" else 6
    for _ in range(reps):
        n, c, t = rng.randrange(1, 4), rng.randrange(1, 4), rng.randrange(2, 4)
        vals = mk_vals(rng, n, c, t)
        names = mk_names(rng, c, "str")
        panel = {"vals": vals, "names": names}
        A = start_rep(rng, "A", vals, None)
        N = start_rep(rng, "N", vals, names)
        M = start_rep(rng, "M", vals, names)
        L = start_rep(rng, "L", vals, names)
        B = {"k": "T", "labels": None, "rows": vals[0]}             # a 2-D array given where a 3-D one is expected
        for hops in ([["3n", None, "S"]], [["3m", None, None, None]], [["32"]], [["2n", None, "S"]]):
            cases.append({"op": "path", "start": B, "hops": hops, "direct": None, "panel": None})
        wrong = names + ["extra"]
        dup = [names[0]] * c
        for bad in (wrong, names[:-1], dup):
            cases.append({"op": "path", "start": A, "hops": [["3n", bad, "S"]], "direct": None, "panel": panel})
            cases.append({"op": "path", "start": A, "hops": [["3m", None, None, bad]], "direct": None, "panel": panel})
            cases.append({"op": "path", "start": A, "hops": [["3m", None, None, bad], ["mn", "instances", "S"]], "direct": None, "panel": panel})
            cases.append({"op": "path", "start": L, "hops": [["ln", L["inst"], L["time"], L["dim"], bad]], "direct": None, "panel": panel})
        cases.append({"op": "path", "start": A, "hops": [["32"], ["2n", ["p", "q"], "S"]], "direct": None, "panel": panel})
        cases.append({"op": "path", "start": A, "hops": [["32"], ["2n", None, "R"]], "direct": None, "panel": panel})
        # level / column name arguments
        for hops in ([["m3", None, None]], [["m3", M["inst"], None]], [["m3", "zz", M["time"]]], [["m3", M["time"], M["inst"]]],
                     [["mn", None, "S"]], [["mn", "zz", "S"]], [["mn", M["time"], "S"]]):
            cases.append({"op": "path", "start": M, "hops": hops, "direct": None, "panel": panel})
        for hops in ([["ln", "case_id", "reading_id", "zz", None]], [["ln", "zz", L["time"], L["dim"], None]],
                     [["ln", L["time"], L["inst"], L["dim"], None]]):
            cases.append({"op": "path", "start": L, "hops": hops, "direct": None, "panel": panel})
        cases.append({"op": "path", "start": A, "hops": [["3m", "t", "t", None], ["m3", "t", "t"]], "direct": None, "panel": panel})
        cases.append({"op": "path", "start": N, "hops": [["nm", "t", "t"], ["mn", "t", "S"]], "direct": None, "panel": panel})
        # reserved names on the way to the long table
        for rn in ("index", "time_index", "value"):
            nm2 = list(names)
            nm2[rng.randrange(c)] = rn
            if _distinct(nm2):
                cases.append({"op": "path", "start": start_rep(rng, "N", vals, nm2), "hops": [["nl", None, None, None]], "direct": None,
                              "panel": {"vals": vals, "names": nm2}})
        # long tables: duplicated row, missing row
        Ld = dict(L, rows=L["rows"] + [L["rows"][0]])
        cases.append({"op": "path", "start": Ld, "hops": [["ln", L["inst"], L["time"], L["dim"], None]], "direct": None, "panel": None})
        # multi-index frames whose rows are not grouped by instance (the model follows the code, no property claim)
        Ms = dict(M, rows=list(M["rows"]))
        rng.shuffle(Ms["rows"])
        cases.append({"op": "path", "start": Ms, "hops": [["m3", M["inst"], M["time"]]], "direct": None, "panel": None})
        cases.append({"op": "path", "start": Ms, "hops": [["mn", M["inst"], "R"], ["n3"]], "direct": None, "panel": None})
        # non-contiguous instance / time labels
        Mg = dict(M, rows=[[3 * i + 5, 2 * q - 1, vs] for i, q, vs in M["rows"]])
        cases.append({"op": "path", "start": Mg, "hops": [["m3", M["inst"], M["time"]]], "direct": None, "panel": None})
        cases.append({"op": "path", "start": Mg, "hops": [["mn", M["inst"], "R"], ["n3"]], "direct": None, "panel": None})
    # check_X
    flagsets = [[False, 1, 1, False, False], [False, 1, 1, True, False], [False, 1, 1, False, True], [False, 1, 1, True, True],
                [True, 1, 1, False, False], [True, 1, 1, True, False], [False, 3, 1, False, True], [False, 1, 3, True, False],
                [False, 0, 0, False, False], [True, 2, 2, False, True]]
    shapes = [(1, 1, 2), (2, 1, 3), (2, 2, 2), (3, 3, 2), (1, 3, 4)] if tier == "quick" else [(n, c, t) for n in (1, 2, 3) for c in (1, 2, 3) for t in (1, 2, 4)]
    for (n, c, t) in shapes:
        vals = mk_vals(rng, n, c, t)
        names = mk_names(rng, c, rng.choice(["str", "int", "default"]))
        panel = {"vals": vals, "names": names if names is not None else default_names(c)}
        for f in flagsets:
            cases.append({"op": "chk", "start": start_rep(rng, "A", vals, None), "flags": f, "panel": panel})
            cases.append({"op": "chk", "start": start_rep(rng, "N", vals, names, cellkind=rng.choice(["S", "R"])), "flags": f, "panel": panel})
    for f in flagsets[:5]:
        cases.append({"op": "chk", "start": {"k": "T", "labels": None, "rows": [[1.0, 2.0], [3.0, 4.0]]}, "flags": f, "panel": None})
        cases.append({"op": "chk", "start": {"k": "O"}, "flags": f, "panel": None})
        cases.append({"op": "chk", "start": {"k": "N", "names": ["a"], "cols": [[["P", 1.0], ["P", 2.0]]]}, "flags": f, "panel": None})
        cases.append({"op": "chk", "start": {"k": "N", "names": ["a", "b"], "cols": [[["S", [1.0, 2.0]]], [["P", 2.0]]]}, "flags": f, "panel": None})


def gen_snames(tier, rng, cases):
    """Series cells that carry a `name`: the model ignores names, the real code must too (defect fixed in 89ac2e4)"""
    nr = 20 if tier == "quick" else 200
    for _ in range(nr):
        n, c, t = rng.randrange(1, 4), rng.randrange(1, 4), rng.randrange(2, 4)
        vals = mk_vals(rng, n, c, t)
        names = mk_names(rng, c, "str")
        rep = start_rep(rng, "N", vals, names, cellkind="S")
        rep["snames"] = rng.choice(["col", "inst", "perm"])
        ops = rng.choice([["n3"], ["nm"], ["nm", "m3"], ["nl"], ["n2"]])
        cases.append(mk_path_case(rng, rep, {"vals": vals, "names": names}, ops, c))


def sel_case(rng, kind, big_panel, big_rep, via, ops, meta):
    """case whose start container is a selection (and / or another memory layout) of `big_rep`"""
    vals = select3(big_panel["vals"], via)
    n, c = len(vals), len(vals[0])
    names = big_panel["names"] if via.get("cols") is None else [big_panel["names"][j] for j in via["cols"]]
    ids_big = big_panel.get("ids")
    ids = None
    if kind in ("N", "M", "L"):
        base = ids_big if ids_big is not None else list(range(len(big_panel["vals"])))
        ids = [base[p] for p in via["inst"]] if via.get("inst") is not None else (list(ids_big) if ids_big is not None else None)
    rep = start_rep(rng, kind, vals, names if kind != "A" else None, cellkind=meta.get("cellkind", "S"), levels=meta.get("levels"),
                    longcols=meta.get("longcols"), shuffle=False, pandas2d=meta.get("pandas2d", False), ids=ids)
    if kind == "T" and meta.get("pandas2d"):
        rep["labels"] = big_rep["labels"]
    panel = {"vals": vals, "names": names}
    if ids is not None:
        panel["ids"] = ids
    case = mk_path_case(rng, rep, panel, ops, c, None)
    case["via"] = dict(via, big=big_rep)
    return case


def gen_select(tier, rng, cases):
    """conversion after a selection: every converter is fed sub-panels obtained by row / column / time selections of a bigger
    container (pandas keeps stale MultiIndex levels, numpy hands out views) and arrays in other memory layouts"""
    shapes = [(4, 2, 6), (3, 2, 2), (4, 3, 3), (5, 1, 4), (2, 2, 3)]
    reps = 1 if tier == "quick" else 4
    for _ in range(reps):
        for (n, c, t) in shapes:
            for kind in "ANMLT":
                vals = mk_vals(rng, n, c, t)
                names = mk_names(rng, c, rng.choice(["str", "str-unsorted", "int", "default"])) or default_names(c)
                ids = mk_ids(rng, n, rng.choice([None, None, "perm", "gap", "str"])) if kind in ("N", "M", "L") else None
                meta = {"cellkind": rng.choice(["S", "R"]), "levels": rng.choice(LEVELS), "longcols": rng.choice(LONGCOLS),
                        "pandas2d": kind == "T" and rng.random() < 0.5}
                vals, dt = apply_dtypes(rng, kind, vals, rng.choice(DT_MODES), meta["pandas2d"])
                big_rep = start_rep(rng, kind, vals, names if kind != "A" else None, ids=ids, shuffle=False, dt=dt, **meta)
                big_panel = {"vals": vals, "names": names}
                if ids is not None:
                    big_panel["ids"] = ids
                sels = []
                some = sorted(rng.sample(range(n), max(1, n // 2)))
                allbut = [p for p in range(n) if p != rng.randrange(n)] or [0]
                hows = {"A": ["fancy", "mask", "rev", "slice"], "T": ["fancy", "mask", "rev"], "N": ["loc", "mask", "iloc", "rev"],
                        "M": ["loc", "mask", "iloc"], "L": ["mask"]}[kind]
                for how in hows:
                    for inst in (some, allbut):
                        if how == "rev":
                            inst = list(range(n - 1, -1, -1))
                        if how == "slice":
                            inst = list(range(inst[0], inst[-1] + 1))
                        if how in ("iloc", "fancy") and rng.random() < 0.5:
                            inst = list(reversed(inst))
                        if kind == "M" and how == "rev":
                            continue
                        sels.append({"inst": inst, "how": how})
                if kind != "T":
                    if c > 1:
                        cs = rng.sample(range(c), c - 1) if kind in ("N", "M", "A") else sorted(rng.sample(range(c), c - 1))
                        sels.append({"cols": cs, "how": "fancy"})
                        sels.append({"inst": some, "how": hows[0], "cols": sorted(cs)})
                    if t > 2:
                        sels.append({"tpre": rng.randrange(2, t)})
                        sels.append({"inst": some, "how": hows[0], "tpre": t - 1})
                if kind in ("A", "T") and not meta["pandas2d"]:
                    for lay in (["F", "T", "strided"] if kind == "A" else ["F", "strided"]):
                        sels.append({"layout": lay})
                        sels.append({"inst": some, "how": "fancy", "layout": lay})
                paths = op_paths(kind, 2)
                for via in sels:
                    use = paths if tier == "thorough" else rng.sample(paths, min(len(paths), 3))
                    for ops in use:
                        cases.append(sel_case(rng, kind, big_panel, big_rep, via, ops, meta))
    # the stale-levels case that stays silent: 2 of 4 instances, 6 time points (rows divisible by the old instance count)
    vals = mk_vals(rng, 4, 2, 6)
    big_rep = start_rep(rng, "M", vals, ["b", "a"], levels=("inst", "t"))
    for how in ("loc", "mask", "iloc"):
        for ops in (["m3"], ["mn", "n3"], ["m3", "3n"]):
            cases.append(sel_case(rng, "M", {"vals": vals, "names": ["b", "a"]}, big_rep, {"inst": [1, 3], "how": how}, ops, {"levels": ("inst", "t")}))


def gen_rowtime(tier, rng, cases):
    """row order and time labels: every converter and every path of length <= 2 (thorough: <= 3) from (a) multi-index frames whose
    rows are NOT grouped by instance (time-major, interleaved; levels in either order) and (b) nested frames (Series cells) /
    multi-index frames / long tables whose time labels are not 0..t-1 ascending (countdown, shuffled, gapped / negative)"""
    shapes = [(2, 2, 3), (3, 1, 2), (3, 2, 4), (2, 3, 2)] if tier == "quick" else [(n, c, t) for n in (2, 3, 4) for c in (1, 2) for t in (2, 3, 4)]
    maxlen = 2 if tier == "quick" else 3
    for (n, c, t) in shapes:
        for mrow in ("tmajor", "weave"):
            for swap in (False, True):
                for ops in op_paths("M", maxlen):
                    vals = mk_vals(rng, n, c, t)
                    names = mk_names(rng, c, rng.choice(["str", "str-unsorted", "int"]))
                    ids = mk_ids(rng, n, rng.choice(ID_MODES))
                    rep = start_rep(rng, "M", vals, names, levels=rng.choice(LEVELS), ids=ids, mrow=mrow, swap=swap)
                    panel = {"vals": vals, "names": names}
                    if ids is not None:
                        panel["ids"] = ids
                    cases.append(mk_path_case(rng, rep, panel, ops, c, None))
        for kind in "NML":
            for mode in ("desc", "perm", "gap"):
                for ops in op_paths(kind, maxlen):
                    vals = mk_vals(rng, n, c, t)
                    names = mk_names(rng, c, rng.choice(["str", "str-unsorted", "int"]))
                    ids = mk_ids(rng, n, rng.choice(ID_MODES))
                    tl = mk_tl(rng, t, mode)
                    rep = start_rep(rng, kind, vals, names, cellkind="S", levels=rng.choice(LEVELS), longcols=rng.choice(LONGCOLS),
                                    shuffle=rng.random() < 0.5, ids=ids, tl=tl, mrow=rng.choice([None, None, "tmajor"]))
                    panel = {"vals": vals, "names": names}
                    if ids is not None:
                        panel["ids"] = ids
                    cases.append(with_tl(mk_path_case(rng, rep, panel, ops, c, None), tl))


def gen_hist(tier, rng, cases):
    """call histories: the same converters called several times in one process state with DIFFERENT optional arguments
    (id-column / level / column names given, then omitted, then other ones); every call must give what it gives on its own"""
    nr = 40 if tier == "quick" else 400
    for _ in range(nr):
        calls = []
        for _ in range(rng.randrange(3, 7)):
            n, c, t = rng.randrange(1, 4), rng.randrange(1, 4), rng.randrange(2, 4)
            vals = mk_vals(rng, n, c, t)
            names = mk_names(rng, c, rng.choice(["str", "int", "default"])) or default_names(c)
            kind = rng.choice(["N", "N", "N", "A", "A", "M", "L", "T"])
            lv = rng.choice(LEVELS)
            lc = rng.choice(LONGCOLS)
            rep = start_rep(rng, kind, vals, names if kind != "A" else None, cellkind=rng.choice(["S", "R"]), levels=lv, longcols=lc)
            op = rng.choice(NEXT[kind])
            st = start_state(rep, c)
            cn = (lambda k: mk_names(rng, k, "str"))
            hop, _ = pick_hop(rng, op, st, cn)
            if op == "nl":
                hop = ["nl"] + rng.choice([[None, None, None], ["case_id", "reading_id", "dim_id"], [None, "tt", None], ["ii", None, "dd"], [None, None, None]])
            calls.append({"start": rep, "hop": hop})
        cases.append({"op": "hist", "calls": calls, "start": calls[0]["start"]})


def gen_cases(tier, rng):
    cases = []
    gen_small(tier, rng, cases)
    gen_random(tier, rng, cases)
    gen_frames(tier, rng, cases)
    gen_malformed(tier, rng, cases)
    gen_snames(tier, rng, cases)
    gen_select(tier, rng, cases)
    gen_hist(tier, rng, cases)
    gen_rowtime(tier, rng, cases)
    return cases


def shrink(c):
    if c["op"] == "hist":
        calls = c["calls"]
        for i in range(len(calls)):
            if len(calls) > 1:
                yield dict(c, calls=calls[:i] + calls[i + 1:], start=(calls[:i] + calls[i + 1:])[0]["start"])
        return
    if c["op"] != "path" or c.get("panel") is None:
        return
    hops = c["hops"]
    if len(hops) > 1:
        yield dict(c, hops=hops[:-1], direct=None)
    if c.get("direct"):
        yield dict(c, direct=None)
    start = c["start"]
    p = c["panel"]
    vals = p["vals"]
    n, ncol, t = len(vals), len(vals[0]), len(vals[0][0])
    names = p["names"]

    ids0 = p.get("ids")

    def rebuild(v, nm, ids=ids0):
        import random
        r = random.Random(0)
        k = start["k"]
        tl0 = c.get("tl")
        tlr = list(tl0[:len(v[0][0])]) if tl0 else None
        rep = start_rep(r, k, v, nm, cellkind=(start["cols"][0][0][0] if k == "N" else "S"),
                        levels=(start["inst"], start["time"]) if k == "M" else None,
                        longcols=(start["inst"], start["time"], start["dim"]) if k == "L" else None,
                        pandas2d=(k == "T" and start["labels"] is not None), ids=ids if k in ("N", "M", "L") else None,
                        tl=tlr, mrow=("tmajor" if (k == "M" and not _grouped(start["rows"])) else None), swap=bool(start.get("swap")))
        if k == "N" and start.get("snames"):
            rep["snames"] = start["snames"]
        dt0 = start.get("dt")
        if dt0 is not None and not c.get("via"):
            # keep the dtypes of the cells / columns that survive (values of integer cells stay whole numbers)
            if isinstance(dt0, str):
                rep["dt"] = dt0
            elif k == "N" and len(v) <= len(dt0[0]) and len(v[0]) <= len(dt0) and v == [row[:len(v[0])] for row in vals[:len(v)]]:
                rep["dt"] = [col[:len(v)] for col in dt0[:len(v[0])]]
            elif k == "M" and len(v[0]) == len(dt0):
                rep["dt"] = dt0
        pn = {"vals": v, "names": nm}
        if ids is not None and k in ("N", "M", "L"):
            pn["ids"] = ids
        out = dict(c, start=rep, panel=pn)
        out.pop("tl", None)
        return with_tl(out, tlr)
    if n > 1:
        for i in (range(n) if start.get("dt") is None else [n - 1]):
            yield rebuild(vals[:i] + vals[i + 1:], names, None if ids0 is None else ids0[:i] + ids0[i + 1:])
    if t > 1:
        yield rebuild([[col[:-1] for col in inst] for inst in vals], names)
    if ncol > 1 and not any(((h[1] if h[0] in ("3n", "2n") else h[3] if h[0] == "3m" else h[4] if h[0] == "ln" else None) is not None) for h in hops):
        for j in (range(ncol) if start.get("dt") is None else [ncol - 1]):
            yield rebuild([inst[:j] + inst[j + 1:] for inst in vals], names[:j] + names[j + 1:])
    if start.get("dt") is not None:
        return
    simple = [[[float((i * ncol + j) * t + q) for q in range(t)] for j in range(ncol)] for i in range(n)]
    if simple != vals:
        yield rebuild(simple, names)
