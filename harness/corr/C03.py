"""C03 correspondence + oracle: forecasts are indexed by exactly the requested horizon from the
true cutoff (forecaster base classes in sktime/forecasting/base/_sktime.py and every runnable
forecaster / composite built on them)."""
import math
from fractions import Fraction
import fcmachine as M
import predint as PI
from fcmachine import compare


def to_line(c):
    return PI.to_line(c) if c.get("kind") == "pi" else M.to_line(c)


def run_real(c):
    return PI.run_real(c) if c.get("kind") == "pi" else M.run_real(c)

PROP = "C03"
LEAN_MODULE = "SkVerif.Props.C03"
OBLIGATIONS = [
    "SkVerif.C03.predict_index_relative",
    "SkVerif.C03.predict_index_absolute",
    "SkVerif.C03.predict_length",
    "SkVerif.C03.predict_increasing",
    "SkVerif.C03.predict_finite",
    "SkVerif.C03.cutoff_after_fit",
    "SkVerif.C03.cutoff_after_update",
    "SkVerif.C03.cutoff_after_update_empty",
    "SkVerif.C03.cutoff_after_refit_update_partial",
    "SkVerif.C03.cutoff_after_refit_update_older_batch_witness",
    "SkVerif.C03.update_predict_single_index",
    "SkVerif.C03.shift_equivariance_step",
    "SkVerif.C03.shift_equivariance",
    "SkVerif.C03.refit_forgets_history",
    "SkVerif.C03.refit_forgets_history_required",
    "SkVerif.C10.interval_tables_labelled_like_forecast",
    "SkVerif.C10.point_forecasts_independent_of_interval_arguments",
]
EXTRA_LEAN_MODULES = ["SkVerif.Props.C10"]      # the prediction-interval layer's theorems live with C10 (Model/PredInt.lean)
TRUSTED = ["hand-written model SkVerif/Model/Forecaster.lean + Series.lean of the forecaster base classes",
           "concrete cores (naive last/mean, harness probe forecaster) in Model/Cores.lean; every other forecaster is 'opaque': only its index/cutoff behaviour is compared"]
ASSUMPTIONS = ["integer time index only (RangeIndex / Int64Index)", "values of opaque forecasters (trend, reductions, ensembles, pipelines, stacking, multiplexer, tuner, statsmodels adapters) are not modelled; finiteness is observed by the oracle",
               "private attributes _y/_fh/cutoff are read to observe the state the property speaks about"]
RULE = ("histories fit(fh?) [predict|update|update_predict|update_predict_single]* over concrete cores (values compared exactly) and over "
        "17 opaque forecasters/composites (labels, lengths, cutoffs compared); index origins via label shift; distinct by driver line + shift; "
        "non-trivial = at least one prediction returned")
LEVEL_TEXT = ("Lean 4 theorems over an executable state-machine model of the forecaster base classes (for ANY core returning one value per step): "
              "forecast labels = cutoff + steps / requested labels, length, order, cutoff after fit/update, and label-shift equivariance of whole histories; "
              "tied to the real base classes by differential correspondence on histories run against NaiveForecaster, a probe forecaster built on the real "
              "base classes, and (index-only) every runnable forecaster and composite; the statement is evaluated as an oracle on every real output.")
LEVEL_NOTE = ("Trusted: Lean kernel; axioms propext/Classical.choice/Quot.sound; model faithfulness as exercised; harness + compat layer. "
              "Finite-values clause is proved only for cores that are finite on finite windows (naive last/mean, probe); for other forecasters it is observed.")
TECHNIQUE = "Lean 4 proof (state-machine invariants, simulation under label shift) + differential correspondence on operation histories"


def _last(s):
    return s[-1][0] if s else None


def oracle(c, out):
    if c.get("kind") == "pi":
        return PI.label_oracle(c, out)
    """The C03 statement evaluated on the real observations.  Domain: out-of-sample horizons,
    data arriving in time order (every batch ends at or after every label seen before)."""
    fails = []
    res, ys = M.parse_tokens(out)
    name = c["core"]
    site = name.split(":")[-1] if name.startswith("opaque") else name.split(":")[0]
    finite_data = True
    in_order = True
    max_label = None
    stored_fh = None
    was_fitted = False
    for op, (r, st) in zip(c["ops"], res):
        k = op[0]
        fitted, cut, n, fhs = st
        if k in ("fit", "upd", "up", "ups"):
            if any(v is None for _, v in op[1]):
                finite_data = False
            if k != "fit" and op[1] and max_label is not None and _last(op[1]) < max_label:
                in_order = False
        # which horizon does this op use / store
        given = op[2] if k == "fit" else op[1] if k == "pred" else op[2] if k == "ups" else None
        if k in ("fit", "pred", "ups") and given is not None and not (r[0] == "E" and k != "fit"):
            if not (c["mode"] == "r" and k != "fit"):
                stored_fh = given
        # ---- cutoff clauses
        if k == "fit":
            was_fitted = r[0] == "ok"
            in_order, max_label = True, None          # a (re)fit starts a new series
        if k == "fit" and r[0] == "ok":
            if cut != _last(op[1]):
                fails.append((site + ":cutoff-after-fit", "cutoff %r after fit on series ending at %r" % (cut, _last(op[1]))))
        if k == "upd" and r[0] == "ok" and op[1]:          # "after EVERY update": also for a batch of older / revised data
            if cut != _last(op[1]):
                older = op[2] and max_label is not None and _last(op[1]) < max_label     # refit + batch ending before known data
                fails.append((site + ":cutoff-after-update" + (":refit-with-older-batch" if older else ""),
                              "cutoff %r after update with batch ending at %r" % (cut, _last(op[1]))))
        # ---- prediction clauses
        # (after a REJECTED (re)fit the object is half-replaced -- new data, perhaps new horizon, old parameters; the
        #  statement speaks of fitted forecasters, so the clauses wait for the next successful fit; correspondence goes on)
        if k in ("pred", "ups") and r[0] == "S" and in_order and was_fitted:
            fh = stored_fh
            if fh is not None and cut is not None:
                steps = sorted(fh[1])
                want = [cut + s for s in steps] if fh[0] == "r" else steps
                rel = steps if fh[0] == "r" else [s - cut for s in steps]
                if all(s > 0 for s in rel):          # the statement's out-of-sample horizons
                    labels = [l for l, _ in r[1]]
                    if len(labels) != len(steps):
                        fails.append((site + ":predict-length", "%d values for %d steps" % (len(labels), len(steps))))
                    elif labels != want:
                        fails.append((site + ":predict-index", "labels %r expected %r (cutoff %r, fh %r)" % (labels, want, cut, fh)))
                    if finite_data and not name.startswith("opaque"):
                        for l, v in r[1]:
                            if v is None or (isinstance(v, float) and not math.isfinite(v)):
                                fails.append((site + ":predict-not-finite", "non-finite forecast at %r for finite data" % l))
                                break
        if r[0] == "E" and r[1] == "E:argmod":
            fails.append((site + ":caller-argument-modified", "%s changed a series / horizon object that belongs to the caller" % k))
        # a valid out-of-sample request on a fitted forecaster must be answered
        if k in ("pred", "ups") and r[0] == "E" and in_order and c["mode"] == "o" and was_fitted and stored_fh is not None \
                and stored_fh[0] == "r" and all(s_ > 0 for s_ in stored_fh[1]) and len(set(stored_fh[1])) == len(stored_fh[1]) \
                and not (k == "ups" and any(v is None for _, v in op[1])):
            fails.append((site + ":valid-predict-rejected", "%s with horizon %r on a fitted forecaster raised %s" % (k, stored_fh, r[1])))
        if k in ("fit", "upd", "up", "ups") and op[1]:
            # also after an error: a failed update / update_predict may already have merged its data
            ml = max(l for l, _ in op[1])
            max_label = ml if max_label is None else max(max_label, ml)
    # ---- finiteness for opaque forecasters: observed on the real values
    #      (domain of the opaque part: gap-free label ranges -- a reduction reads its last window by label, so a
    #      missing label is a missing observation; the shrinker must not wander there, see DESIGN 11.4)
    if name.startswith("opaque") and finite_data and _gap_free(c):
        bad = _opaque_nonfinite(c)
        if bad:
            fails.append((site + ":predict-not-finite", bad))
    # ---- shift equivariance, directly on the real code
    if c.get("shift", 0) != 0:
        twin = dict(c, shift=0)
        out0 = run_real(twin)
        if not compare(out, out0):
            fails.append((site + ":shift-equivariance", "history shifted by %d gives a different (unshifted) result" % c["shift"]))
        if name.startswith("opaque"):
            v1, v0 = _opaque_values(c), _opaque_values(twin)
            if len(v1) != len(v0) or any(abs(a - b) > 1e-6 * max(1.0, abs(b)) for a, b in zip(v1, v0)):
                fails.append((site + ":shift-equivariance-values", "forecast values change under a label shift of %d" % c["shift"]))
    return fails


def _gap_free(c):
    """every fit starts a new series: the labels handed over since each fit form a gap-free range"""
    segs = []
    for op in c["ops"]:
        if op[0] == "fit":
            segs.append(set())
        if op[0] in ("fit", "upd", "up", "ups") and segs:
            segs[-1].update(l for l, _ in op[1])
    return bool(segs) and all(sg and len(sg) == max(sg) - min(sg) + 1 for sg in segs)


def _opaque_values(c):
    """forecast values of an opaque forecaster's history (real code), flattened"""
    import numpy as np, pandas as pd, warnings
    warnings.filterwarnings("ignore")
    shift, rng_idx = c.get("shift", 0), c.get("range", False)
    f = M.make_forecaster(c)
    vals = []
    for op in c["ops"]:
        try:
            k = op[0]
            if k == "fit":
                f.fit(M.mk_series(op[1], shift, rng_idx), fh=M.mk_fh(op[2], shift))
            elif k == "pred":
                vals.extend(float(v) for v in f.predict(M.mk_fh(op[1], shift)).to_numpy().ravel())
            elif k == "upd":
                f.update(M.mk_series(op[1], shift, rng_idx), update_params=op[2])
            elif k == "up":
                r = f.update_predict(M.mk_series(op[1], shift, rng_idx), cv=M.mk_cv(op[2]), update_params=op[3])
                vals.extend(float(v) for v in np.asarray(r.to_numpy(), dtype=float).ravel() if not np.isnan(v))
            elif k == "ups":
                vals.extend(float(v) for v in f.update_predict_single(M.mk_series(op[1], shift, rng_idx), fh=M.mk_fh(op[2], shift), update_params=op[3]).to_numpy().ravel())
        except Exception:
            vals.append(float("inf"))
    return vals


def _opaque_nonfinite(c):
    vals = _opaque_values(c)
    res, _ = M.parse_tokens(run_real(c))
    # errors are reported as inf above; only complain about non-finite numbers in successful predictions
    import numpy as np, warnings
    warnings.filterwarnings("ignore")
    shift, rng_idx = c.get("shift", 0), c.get("range", False)
    f = M.make_forecaster(c)
    for op in c["ops"]:
        try:
            k = op[0]
            if k == "fit":
                f.fit(M.mk_series(op[1], shift, rng_idx), fh=M.mk_fh(op[2], shift))
            elif k == "pred":
                p = f.predict(M.mk_fh(op[1], shift))
                if not np.all(np.isfinite(p.to_numpy())):
                    return "non-finite forecast %r for finite data" % list(p.to_numpy())
            elif k == "upd":
                f.update(M.mk_series(op[1], shift, rng_idx), update_params=op[2])
            elif k == "up":
                f.update_predict(M.mk_series(op[1], shift, rng_idx), cv=M.mk_cv(op[2]), update_params=op[3])
            elif k == "ups":
                p = f.update_predict_single(M.mk_series(op[1], shift, rng_idx), fh=M.mk_fh(op[2], shift), update_params=op[3])
                if not np.all(np.isfinite(p.to_numpy())):
                    return "non-finite forecast %r for finite data" % list(p.to_numpy())
        except Exception:
            pass
    return None


def nontrivial(c, out):
    if c.get("kind") == "pi":
        return PI.nontrivial(c, out)
    return "S[" in out or "F[" in out


def features(c, out):
    if c.get("kind") == "pi":
        return PI.features(c, out)
    f = ["core=" + (c["core"] if not c["core"].startswith("opaque") else "opaque"), "mode=" + c["mode"], "shift=%s" % ("0" if not c.get("shift") else "nz")]
    if c["core"].startswith("opaque"):
        f.append("forecaster=" + c["core"].split(":")[1])
    for op in c["ops"]:
        f.append("op=" + op[0])
    for t in out.split(" "):
        if t.startswith("E:"):
            f.append("err=" + t[:t.index("{")])
    return f


def _history(rng, core, mode, long=False):
    """fit(fh?) then random ops.  Concrete cores: batches mostly in time order, sometimes overlapping /
    older, NaNs, gaps, in-sample horizons (correspondence).  Opaque forecasters: positive finite data,
    in-order batches, out-of-sample horizons, horizon given at fit."""
    opq = core.startswith("opaque")
    nan_p = 0.0 if opq else rng.choice([0, 0, 0, 0.15])
    n0 = rng.randrange(10, 17) if opq else rng.randrange(1, 10)
    start = rng.choice([0, 0, 3, -2])
    gap_p = 0.0 if opq else rng.choice([0, 0, 0, 0.2])
    y0 = M.stretch(rng, start, n0, nan_p, opq, gap_p)
    cutoff = y0[-1][0]
    maxh = 3 if opq else 5
    fit_fh = None
    if mode == "r" or opq or rng.random() < 0.5:
        fit_fh = M.rand_fh(rng, "oos", cutoff if (mode == "o" and not opq and rng.random() < 0.3) else None, maxh)
    stored = fit_fh        # the horizon the forecaster will find stored (optional mode: the last one passed)
    ops = [["fit", y0, fit_fh]]
    nops = rng.randrange(1, 7 if long else 5)
    after_up = False     # non-window forecasters store the splitter's horizon during update_predict: ask explicitly afterwards
    for _i in range(nops):
        r = rng.random()
        if r < 0.4:
            if mode == "r":
                fh = None if rng.random() < 0.7 else fit_fh
                if rng.random() < 0.25:
                    # a horizon-dependent forecaster refuses another horizon -- and must then still answer with its own
                    other = M.rand_fh(rng, "oos", None, maxh + 2)
                    if sorted(other[1]) != sorted(fit_fh[1]):
                        ops.append(["pred", other])
                        fh = None
            else:
                kind = "oos" if opq or rng.random() < 0.7 else rng.choice(["mixed", "ins"])
                # opaque forecasters: an absolute horizon only in the last op (it would turn in-sample after updates)
                fh = None if (rng.random() < 0.25 and not (opq and after_up)) else M.rand_fh(rng, kind, cutoff if (not opq or _i == nops - 1) else None, maxh)
                if fh is not None:
                    stored = fh if kind == "oos" else None
            ops.append(["pred", fh])
        elif r < 0.46 and _i > 0:
            # the same object fitted again, on another series (anywhere on the time axis), with or without a horizon:
            # afterwards it must behave like an object fitted on that series only
            n1 = rng.randrange(10, 17) if opq else rng.randrange(1, 10)
            y1 = M.stretch(rng, rng.choice([cutoff + 1, start, cutoff - 4, 40, -30]), n1, nan_p, opq, gap_p)
            fh1 = None
            # (composites hand the fit's own horizon argument to their components: without one the components hold no
            #  horizon and a later update(update_params=True) cannot refit them -- opaque forecasters always get one)
            if mode == "r" or opq or rng.random() < 0.5:
                # (a horizon-dependent forecaster rejects a refit with another horizon, leaving a half-replaced state:
                #  composites are only re-fitted with the horizon they have)
                fh1 = fit_fh if (mode == "r" and (opq or rng.random() < 0.5)) else M.rand_fh(rng, "oos", None, maxh)
            if fh1 is not None:
                fit_fh = fh1 if mode == "r" else fit_fh
                stored = fh1
            ops.append(["fit", y1, fh1])
            cutoff = y1[-1][0]
            after_up = False
        elif r < 0.75 or (opq and (r < 0.88 or mode == "r" or fit_fh is None or fit_fh[0] != "r")):
            ov = rng.random()
            if ov < 0.7 or opq:
                st = cutoff + 1 - (rng.randrange(0, 2) if opq else 0)
            elif ov < 0.9:
                st = cutoff - rng.randrange(0, 3)
            else:
                st = cutoff - rng.randrange(3, 8)
            m = rng.randrange(2 if opq else 0, 5)
            batch = M.stretch(rng, st, m, nan_p, opq, gap_p)
            upd = (rng.random() < 0.4)
            if rng.random() < 0.75:
                ops.append(["upd", batch, upd])
            else:
                fh = None if (mode == "r" or (rng.random() < 0.3 and not (opq and after_up))) else M.rand_fh(rng, "oos", None, maxh)
                if fh is not None:
                    stored = fh
                ops.append(["ups", batch, fh, upd])
            if batch:
                cutoff = max(cutoff, batch[-1][0]) if upd else batch[-1][0]
        else:
            m = rng.randrange(1, 8)
            batch = M.stretch(rng, cutoff + 1, m, nan_p, False, 0.0)
            explicit = [rng.choice(["s", "e"]), sorted(rng.sample(range(1, 4), rng.choice([1, 1, 2]))),
                        rng.randrange(1, 4), rng.randrange(1, 3), None, rng.random() < 0.5]
            # default splitter only while the stored horizon is still ahead of the cutoff (an absolute one falls behind)
            # (the cutoff can be anywhere up to the last label handed over so far: update_predict merges what it fed)
            lastfit = max(i_ for i_, o in enumerate(ops) if o[0] == "fit")
            hi = max([cutoff] + [l for o in ops[lastfit:] if o[0] in ("fit", "upd", "ups", "up") for l, _ in o[1]])
            stored_oos = stored is not None and all(v > (0 if stored[0] == "r" else hi) for v in stored[1])
            cv = explicit if (not stored_oos or rng.random() < 0.5) else None
            if opq:
                # composites: explicit splitter with the horizon they were fitted with, full first window
                # (at least one full window + horizon, else update_predict is rejected and the next batch would leave a gap)
                wl = rng.randrange(1, 3)
                m = rng.randrange(wl + max(fit_fh[1]), wl + max(fit_fh[1]) + 5)
                batch = M.stretch(rng, cutoff + 1, m, 0.0, True, 0.0)
                cv = [rng.choice(["s", "e"]), list(fit_fh[1]), wl, 1, None, True]
                # the windows fed are positions 0..m-1-max(fh): later batches continue right after the last fed label
                cutoff = batch[m - 1 - max(fit_fh[1])][0]
                after_up = True
            ops.append(["up", batch, cv, (rng.random() < 0.3) and not opq])
    if opq and not any(o[0] in ("upd", "ups") for o in ops):
        ops.append(["upd", M.stretch(rng, cutoff + 1, rng.randrange(2, 5), 0.0, True, 0.0), rng.random() < 0.4])
        cutoff = ops[-1][1][-1][0]
    if opq and ops[-1][0] != "pred":
        ops.append(["pred", None if mode == "r" else M.rand_fh(rng, "oos", None, maxh)])
    if mode == "o" and rng.random() < 0.3:
        # the same numbers once as steps and once as time points (both ahead of the cutoff): the kind of a horizon
        # is part of it, a forecaster that has seen one must not answer the other with it
        steps = sorted(rng.sample(range(1, 4), rng.choice([1, 2, 3])))
        vals = [max(cutoff, 0) + s_ for s_ in steps]
        for kd in rng.choice([["r", "a"], ["a", "r"], ["r", "a", "r"], ["a", "r", "a"]]):
            ops.append(["pred", [kd, vals]])
    return ops


def gen_cases(tier, rng):
    cases = []
    quick = tier == "quick"
    cores = ["last", "mean:none", "mean:2", "mean:3", "probe:1", "probe:3", "probe:4"]
    nh = 700 if quick else 6000
    for i in range(nh):
        core = rng.choice(cores)
        mode = "r" if core.startswith("probe") and rng.random() < 0.3 else "o"
        cases.append({"prop": PROP, "core": core, "mode": mode, "ops": _history(rng, core, mode, long=not quick),
                      "shift": rng.choice([0, 0, 5, -3, 1000]), "range": rng.random() < 0.5})
    table = M._opaque_table()
    per = 10 if quick else 40
    for name, (mode, _) in sorted(table.items()):
        for j in range(per):
            cases.append({"prop": PROP, "core": "opaque:" + name, "mode": mode, "ops": _history(rng, "opaque:" + name, mode),
                          "shift": rng.choice([0, 7, 1000]) if j % 2 else 0, "range": rng.random() < 0.5})
    for name, (mode, _) in sorted(table.items()):
        for j in range(2 if quick else 8):
            n0 = rng.randrange(10, 17)
            st = rng.choice([0, 3, -30])
            y0 = M.stretch(rng, st, n0, 0.0, True, 0.0)
            c0 = y0[-1][0]
            steps = sorted(rng.sample(range(2, 7), rng.choice([1, 2, 3])))       # all beyond the label the update brings
            fit_fh = ["a", [c0 + s_ for s_ in steps]]
            ops = [["fit", y0, fit_fh], ["upd", M.stretch(rng, c0 + 1, 1, 0.0, True, 0.0), bool(j % 2)], ["pred", None]]
            if j % 4 == 3:
                ops.insert(1, ["pred", None])
            cases.append({"prop": PROP, "core": "opaque:" + name, "mode": mode, "ops": ops,
                          "shift": rng.choice([0, 7, 1000]) if j % 2 else 0, "range": rng.random() < 0.5})
    for cc in cases:
        cc.setdefault("other", rng.random() < 0.3)      # a second object of the same kind is used in between
    # the interval entry points (return_pred_int / alpha through predict, update_predict_single, update_predict):
    # forecasts and interval tables are labelled by the requested horizon from the current cutoff (Model/PredInt.lean)
    for cc in PI.gen_cases(tier, rng):
        cases.append(dict(cc, prop=PROP, theta=False))
    return cases


def shrink(c):
    if c.get("kind") == "pi":
        yield from PI.shrink(c)
        return
    ops = c["ops"]
    for i in range(len(ops) - 1, 0, -1):
        yield dict(c, ops=ops[:i] + ops[i + 1:])
    for i, op in enumerate(ops):
        if op[0] in ("fit", "upd", "up", "ups") and len(op[1]) > 1:
            yield dict(c, ops=ops[:i] + [[op[0], op[1][1:]] + op[2:]] + ops[i + 1:])
            yield dict(c, ops=ops[:i] + [[op[0], op[1][:-1]] + op[2:]] + ops[i + 1:])
    if c.get("shift"):
        yield dict(c, shift=0)
