"""C14 correspondence + oracle: closed-form transformers compute exactly the function they document.

One case = one transformer configuration + input:  {"op": <name>, ...op specific fields...}
Panels are JSON lists  instances x columns x values  (dyadic floats); "kind" says how the cells are
handed to the real code: "S" nested DataFrame with pd.Series cells, "A" nested DataFrame with
np.ndarray cells, "N" 3-D numpy array (equal lengths only).

Per op there is a small record (`OPS[op]`) with
    line(case)        -> driver line (Lean model)
    real(case)        -> canonical observation of /repo's real code
    oracle(case, out) -> the property text for that transformer, evaluated on the observation
    gen(tier, rng)    -> cases: exhaustive small scope (fixed order; quick = seeded slice),
                         structured random, malformed
The oracle is written from the property statement (Fractions, textbook formulas), never from the model.
"""
import itertools, math, re
from fractions import Fraction as Fr
import numpy as np, pandas as pd
from common import canon_err, show_rat, close, dyadic

PROP = "C14"
LEAN_MODULE = "SkVerif.Props.C14"
OBLIGATIONS = [
    "SkVerif.C14.maxLength_is_longest",
    "SkVerif.C14.pad_eq_spec_requested",
    "SkVerif.C14.pad_eq_spec_longest",
    "SkVerif.C14.pad_cell_is_series_then_fill",
    "SkVerif.C14.pad_rejects_longer",
    "SkVerif.C14.minLength_is_shortest",
    "SkVerif.C14.truncate_eq_spec_shortest",
    "SkVerif.C14.truncate_eq_spec_lower",
    "SkVerif.C14.truncate_eq_spec_range",
    "SkVerif.C14.truncate_rejects_shorter",
    "SkVerif.C14.pad_output_lengths_exact",
    "SkVerif.C14.truncate_output_lengths_exact",
    "SkVerif.C14.pad_rows_preserved_in_order",
    "SkVerif.C14.truncate_rows_preserved_in_order",
    "SkVerif.C14.tabularize_eq_spec",
    "SkVerif.C14.tabularize_column_then_time",
    "SkVerif.C14.tabularize_rejects_ragged",
    "SkVerif.C14.columnConcat_eq_spec",
    "SkVerif.C14.tabularize_rows_preserved_in_order",
    "SkVerif.C14.tabularize_values_ignore_labels",
    "SkVerif.C14.tabularize_names_column_then_time",
    "SkVerif.C14.paa_eq_frame_means_fractional",
    "SkVerif.C14.paa_eq_spec",
    "SkVerif.C14.paa_frame_mean_dividing",
    "SkVerif.C14.paa_output_lengths_exact",
    "SkVerif.C14.paa_rows_preserved_in_order",
    "SkVerif.C14.paa_rejects_bad_num_intervals",
    "SkVerif.C14.interval_segments_concat_eq_input",
    "SkVerif.C14.iseg_count_eq_spec",
    "SkVerif.C14.iseg_count_concat_eq_input",
    "SkVerif.C14.iseg_rows_eq_spec",
    "SkVerif.C14.iseg_rows_tiling_concat_eq_input",
    "SkVerif.C14.iseg_count_rejects_too_many",
    "SkVerif.C14.slidingWindow_eq_spec",
    "SkVerif.C14.slidingWindow_output_lengths_exact",
    "SkVerif.C14.slidingWindow_interior",
    "SkVerif.C14.slidingWindow_rejects_bad_window",
    "SkVerif.C14.interp_is_polyline",
    "SkVerif.C14.polyline_unique",
    "SkVerif.C14.interpolate_eq_spec",
    "SkVerif.C14.interpolate_output_lengths_exact",
    "SkVerif.C14.interpolate_same_length_is_identity",
    "SkVerif.C14.interpolate_keeps_endpoints",
    "SkVerif.C14.interpolate_rows_preserved_in_order",
    "SkVerif.C14.interpolate_rejects_bad_length",
    "SkVerif.C14.ffill_eq_spec",
    "SkVerif.C14.bfill_eq_spec",
    "SkVerif.C14.impute_ffill_eq_spec",
    "SkVerif.C14.impute_bfill_eq_spec",
    "SkVerif.C14.impute_constant_eq_spec",
    "SkVerif.C14.impute_mean_eq_spec",
    "SkVerif.C14.impute_median_eq_spec",
    "SkVerif.C14.median_sort_is_sorted_perm",
    "SkVerif.C14.impute_linear_eq_spec",
    "SkVerif.C14.impute_nearest_eq_spec",
    "SkVerif.C14.impute_keeps_observed_and_length",
    "SkVerif.C14.ffill_then_bfill_eq_spec",
    "SkVerif.C14.impute_drift_eq_spec",
    "SkVerif.C14.drift_trend_is_least_squares",
    "SkVerif.C14.impute_missing_values_eq_spec",
    "SkVerif.C14.impute_rejects_bad_configuration",
    "SkVerif.C14.rife_eq_spec",
    "SkVerif.C14.rife_interval_slice",
    "SkVerif.C14.row_transformers_eq_map",
    "SkVerif.C14.row_transformer_cellwise",
    "SkVerif.C14.acf_eq_spec",
    "SkVerif.C14.acf_lag_zero_is_one",
    "SkVerif.C14.cos_elementwise",
    "SkVerif.C14.adaptor_columnwise",
    "SkVerif.C14.minMax_closed_form",
    "SkVerif.C14.slope_gradient_encoding",
    "SkVerif.C14.slope_roots_are_negative_reciprocals",
    "SkVerif.C14.slope_number_of_segments",
]
TRUSTED = [
    "hand-written models lean/SkVerif/Model/C14{Panel,Labels,PAA,Seg,Interp,Impute,Feat}.lean of the anchored transformers, faithful to the extent this correspondence exercises them",
    "numpy / pandas / scipy / statsmodels / scikit-learn primitives as black boxes with their documented meaning: np.full + slice assignment, Series.iloc[int array], np.hstack, ndarray.reshape, np.array_split, Python slicing, np.pad(mode='edge'), as_strided windows, np.linspace, scipy interp1d(kind='linear'/'nearest'), Series.fillna/mean/median/interpolate/replace, statsmodels acf(fft=False), MinMaxScaler / MaxAbsScaler",
    "np.cos, the wrapped row transformers and the RandomIntervalFeatureExtractor feature callables are parameters of the model (theorems hold for any function); their values enter the correspondence as tables computed by the harness",
    "np.std is compared through its square (the model returns the variance); statsmodels' default n_lags (uses log10) is resolved by the harness",
]
ASSUMPTIONS = [
    "column labels of a data-frame input (panel columns, frame-of-series columns) are varied on the real code for every transformer; the required values depend on a column's position only, so only the Tabularizer / ColumnConcatenator model carries labels (they enter the names of the tabular columns, compared in the correspondence; the oracle does not speak about names)",
    "exact rational arithmetic: theorems say nothing about floating-point rounding (PAA compares floats with == inside its loop; no lost or shifted frame was observed for lengths <= 64)",
    "Imputer: contiguous integer index (method='nearest' then measures distance in positions); methods 'random' and 'forecaster' are not closed-form and are not modelled; DataFrame input is column-wise Series input",
    "TSInterpolator on a one-point series follows the installed scipy (only length 1 can be requested); older scipy rejects it outright",
    "PAA: a later column shorter than num_intervals (only the first column is validated by the code) is outside the property's domain and not sent to the model",
    "RandomIntervalFeatureExtractor: how the random intervals are drawn is not modelled; the fitted intervals are read back from the real object (or set by the harness) and the features of their slices are checked",
    "SlopeTransformer: the square root stays in the harness (the model returns (w, r); compared through sign(m) and m - 1/m = 2w/r); the segment bounds are integer arithmetic (i*n)//k in code (since bef631c) and model alike; not sent to the model: non-constant segments whose covariance with time is exactly zero (the code's float test `r == 0` is then decided by rounding)",
    "row transformers / adaptor are checked with harness-defined and sklearn transformers that act column-wise",
    "cell / series dtype (float64, int64, int32 with integer-valued data, per-column mixed int/float; float32 for the value-moving transformers pad, truncate, tabularize, concatenate, interval / sliding-window segmenters) is varied on the real code for every transformer; the required values do not depend on it, so the model (over Rat, or Option Rat for padding where the fill value / values may be NaN) has no dtype. float32 input to the arithmetic transformers is not generated: their float32 rounding is outside exact arithmetic",
]
OPS = {}


# ----------------------------------------------------------------------------- helpers
def show_cell(vals):
    vals = list(vals)
    return "e" if not vals else ",".join(show_rat(None if v is None else float(v)) for v in vals)


def show_panel(p):
    p = list(p)
    return "_" if not p else "|".join(";".join(show_cell(c) for c in inst) for inst in p)


def show_table(t):
    t = list(t)
    return "_" if not t else "|".join(show_cell(r) for r in t)


def oint(v):
    return "none" if v is None else str(int(v))


def parse_cell(s):
    return [] if s == "e" else [None if x == "nan" else Fr(x) for x in s.split(",")]


def parse_panel(s):
    return [] if s == "_" else [[parse_cell(c) for c in inst.split(";")] for inst in s.split("|")]


def parse_table(s):
    return [] if s == "_" else [parse_cell(r) for r in s.split("|")]


NP_DTYPE = {"f8": "float64", "f4": "float32", "i8": "int64", "i4": "int32"}
# transformers that only move values around: float32 cells must come out exactly; the others do arithmetic,
# which in float32 is outside "exact rational arithmetic" (ASSUMPTIONS)
F4_OPS = ("pad", "trunc", "tab", "concat", "iseg", "slide")
PANEL_OPS = ("pad", "trunc", "tab", "concat", "paa", "iseg", "slide", "interp", "rife", "rowprim", "rowser", "slopet")
SERIES_OPS = ("impute", "imputef", "acf", "cos", "adapt")


def col_dtype(dtype, j):
    """numpy dtype of column j: "mix" alternates int64 / float64 columns"""
    if dtype == "mix":
        return "int64" if j % 2 == 0 else "float64"
    return NP_DTYPE[dtype]


def build(panel, kind, t0=0, names=None, dtype="f8"):
    """the container handed to the real code; `dtype` is the dtype of the cells (integer dtypes are only
    used with integer-valued data, float32 with values exactly representable in float32); `names` are the
    column labels of the nested DataFrame (default dim_0, dim_1, ...; any order, strings or integers: the
    position of a column in the frame, not its label, is what "column" means in the property)"""
    if kind == "N":
        return np.array(panel, dtype=col_dtype(dtype, 0))
    ncol = len(panel[0]) if panel else 0
    names = list(names) if names and len(names) >= ncol else ["dim_%d" % j for j in range(ncol)]
    data = {}
    for j in range(ncol):
        col = []
        for inst in panel:
            v = np.array(inst[j], dtype=col_dtype(dtype, j))
            col.append(pd.Series(v, index=pd.RangeIndex(t0, t0 + len(v))) if kind == "S" else v)
        data[names[j]] = pd.Series(col, dtype=object)
    return pd.DataFrame(data, columns=names[:ncol]) if ncol else pd.DataFrame(index=range(len(panel)))


def nested_out(df):
    """nested DataFrame -> list of instances of cells (row order as returned)"""
    out = []
    for i in range(df.shape[0]):
        out.append([np.asarray(df.iloc[i, j], dtype="float64").ravel().tolist() for j in range(df.shape[1])])
    return out


def guarded(f):
    try:
        return f()
    except Exception as e:  # canonical error kind
        return canon_err(e)


_SPLIT = re.compile(r"([|;, =])")


def compare(real, model):
    """same structure; numbers within 1e-9 relative (float vs exact rational), everything else equal"""
    if real == model:
        return True
    a, b = _SPLIT.split(real), _SPLIT.split(model)
    if len(a) != len(b):
        return False
    for x, y in zip(a, b):
        if x == y:
            continue
        try:
            fx = None if x == "nan" else Fr(x)
            fy = None if y == "nan" else Fr(y)
        except (ValueError, ZeroDivisionError):
            return False
        if fx is None or fy is None:
            return False
        if not close(float(fx), fy):
            return False
    return True


def same_panel(got, want):
    """observed panel (Fractions) equals expected panel (Fractions) up to float tolerance"""
    if len(got) != len(want):
        return False
    for gi, wi in zip(got, want):
        if len(gi) != len(wi):
            return False
        for gc, wc in zip(gi, wi):
            if len(gc) != len(wc):
                return False
            for g, w in zip(gc, wc):
                if (g is None) != (w is None):
                    return False
                if g is not None and not close(float(g), w):
                    return False
    return True


def same_table(got, want):
    return same_panel([got], [want])


def same_list(got, want):
    return same_panel([[got]], [[want]])


def fr_panel(p):
    return [[[Fr(v) for v in c] for c in inst] for inst in p]


def rand_cell(rng, n, small=False):
    return [float(rng.randrange(-9, 10)) if small else dyadic(rng, -16, 16, 2) for _ in range(n)]


def rand_panel(rng, lens):
    """lens: instances x columns lengths"""
    return [[rand_cell(rng, n) for n in inst] for inst in lens]


def slice_quick(items, tier, rng, keep):
    """quick tier: a seed-rotated stratified slice of a fixed-order enumeration"""
    if tier == "thorough" or len(items) <= keep:
        return items
    step = len(items) / float(keep)
    off = rng.random() * step
    return [items[min(len(items) - 1, int(off + i * step))] for i in range(keep)]


def is_rect(panel):
    return len({len(c) for inst in panel for c in inst}) <= 1


# ----------------------------------------------------------------------------- transformer objects and their history
# CT[op] = (class loader, kwargs(case), fit data(case), transform data(case)).  A case may carry "hist": another case
# of the same op.  The object is then NOT fresh: it is constructed with the other case's parameters, fitted on (and
# applied to) the other case's data, re-parameterised with set_params(<this case's parameters>) and only then fitted
# on this case's data.  What it returns must be what a fresh object returns (= the closed form for the NEW
# parameters and panel), so model and oracle never look at the history.
CT = {}


def _panel_arg(key):
    return lambda c: build(c[key], c["kind"], c.get("t0", 0), names=c.get("names"), dtype=c.get("dtype", "f8"))


def obtain(c):
    loader, kw, fitx, trx = CT[c["op"]]
    cls = loader()
    h = c.get("hist")
    if h:
        try:
            t = cls(**kw(h))
        except Exception:
            t = None           # the other parameters are rejected by the constructor: no history possible
        if t is not None:
            try:
                t.fit(fitx(h))
                t.transform(trx(h))
            except Exception:
                pass           # a failed earlier use is a history too
            t.set_params(**kw(c))
            return t
    return cls(**kw(c))


def fit_transform(c):
    """obtain(c).fit(fit data).transform(transform data)"""
    _, _, fitx, trx = CT[c["op"]]
    t = obtain(c)
    t.fit(fitx(c))
    return t.transform(trx(c))


# ----------------------------------------------------------------------------- padding
def pad_line(c):
    return "C14 pad %s %s %s %s %s" % (c["kind"], oint(c["pad_length"]), show_rat(c["fill"]),
                                        show_panel(c["xfit"]), show_panel(c["x"]))


def pad_real(c):
    return guarded(lambda: show_panel(nested_out(fit_transform(c))))


def _cls(mod, name):
    def load():
        import importlib
        return getattr(importlib.import_module(mod), name)
    return load


CT["pad"] = (_cls("sktime.transformations.panel.padder", "PaddingTransformer"),
             lambda c: dict(pad_length=c["pad_length"], fill_value=NAN if c["fill"] is None else c["fill"]),
             _panel_arg("xfit"), _panel_arg("x"))


def pad_oracle(c, out):
    """padding to the requested or longest length with the fill value; one row per instance in
    input order; exactly the requested length even for unequal-length panels"""
    x, xfit = fr_panel(c["x"]), fr_panel(c["xfit"])
    L = c["pad_length"] if c["pad_length"] is not None else max(len(s) for inst in xfit for s in inst)
    longest = max(len(s) for inst in x for s in inst)
    if longest > L:
        return []          # cannot be padded to L: the statement demands nothing
    fill = None if c["fill"] is None else Fr(c["fill"])       # None = NaN
    want = [[s + [fill] * (L - len(s)) for s in inst] for inst in x]
    if out.startswith("E:"):
        if c["kind"] == "A" and out == "E:attr":
            return [("pad:array-cells-rejected", "valid nested DataFrame with ndarray cells rejected: " + out)]
        return [("pad:valid-rejected", "paddable panel rejected: " + out)]
    got = parse_panel(out)
    if [len(i) for i in got] != [len(i) for i in want]:
        return [("pad:rows-or-columns", "shape %r" % [len(i) for i in got])]
    if any(len(s) != L for inst in got for s in inst):
        return [("pad:length", "lengths %r, requested %d" % ([[len(s) for s in i] for i in got], L))]
    if not same_panel(got, want):
        return [("pad:values", "got %s want %s" % (out, show_panel(want)))]
    return []


# fill values: default, integer, negative, fractional, NaN (None)
FILLS = [0.0, 0.0, 7.0, -1.0, -1.5, 0.25, 0.5, None, None]


def pad_gen(tier, rng):
    cases = []
    # exhaustive small scope: shapes (instances, columns) x cell lengths 1..3 x pad choice x fit choice
    scope = []
    for ni, nc in ((1, 1), (2, 1), (1, 2), (2, 2), (3, 1)):
        for lens in itertools.product(range(1, 4), repeat=ni * nc):
            shape = [list(lens[i * nc:(i + 1) * nc]) for i in range(ni)]
            for pl in ("none", -1, 0, 1, 3):       # relative to the longest series
                for fit in ("same", "longer", "shorter"):
                    scope.append((shape, pl, fit))
    for shape, pl, fit in slice_quick(scope, tier, rng, 520):
        x = rand_panel(rng, shape)
        m = max(max(i) for i in shape)
        xfit = x if fit == "same" else rand_panel(rng, [[max(1, n + (1 if fit == "longer" else -1)) for n in i] for i in shape])
        kind = rng.choice(["S", "S", "S", "A", "N"])
        if kind == "N" and not (is_rect(x) and is_rect(xfit)):
            kind = "S"
        cases.append({"op": "pad", "kind": kind, "pad_length": None if pl == "none" else m + pl,
                      "fill": rng.choice(FILLS), "xfit": xfit, "x": x, "t0": rng.choice([0, 0, 4])})
    # structured random: larger
    for _ in range(180 if tier == "quick" else 3600):
        ni, nc = rng.randrange(1, 5), rng.randrange(1, 4)
        equal = rng.random() < 0.3
        n0 = rng.randrange(1, 17)
        shape = [[n0 if equal else rng.randrange(1, 17) for _ in range(nc)] for _ in range(ni)]
        x = rand_panel(rng, shape)
        m = max(max(i) for i in shape)
        pl = rng.choice([None, None, m, m + rng.randrange(0, 6), m + rng.randrange(0, 30), m - 1, 0, -2])
        xfit = x if rng.random() < 0.6 else rand_panel(rng, [[rng.randrange(1, 20) for _ in range(nc)] for _ in range(rng.randrange(1, 4))])
        kind = rng.choice(["S", "S", "S", "A", "N"])
        if kind == "N" and not (is_rect(x) and is_rect(xfit)):
            kind = "S"
        cases.append({"op": "pad", "kind": kind, "pad_length": pl, "fill": rng.choice([dyadic(rng, -8, 8, 2), dyadic(rng, -8, 8, 2), rng.choice(FILLS)]),
                      "xfit": xfit, "x": x, "t0": 0})
    return cases


OPS["pad"] = dict(line=pad_line, real=pad_real, oracle=pad_oracle, gen=pad_gen)


# ----------------------------------------------------------------------------- truncation
def trunc_line(c):
    return "C14 trunc %s %s %s %s %s" % (c["kind"], oint(c["lower"]), oint(c["upper"]),
                                          show_panel(c["xfit"]), show_panel(c["x"]))


def trunc_real(c):
    return guarded(lambda: show_panel(nested_out(fit_transform(c))))


CT["trunc"] = (_cls("sktime.transformations.panel.truncation", "TruncationTransformer"),
               lambda c: dict(lower=c["lower"], upper=c["upper"]), _panel_arg("xfit"), _panel_arg("x"))


def trunc_oracle(c, out):
    """truncation to the shortest length or requested range; exactly the requested lengths even for
    unequal-length panels; rows in input order"""
    x, xfit = fr_panel(c["x"]), fr_panel(c["xfit"])
    shortest = min(len(s) for inst in x for s in inst)
    lo = c["lower"] if c["lower"] is not None else min(len(s) for inst in xfit for s in inst)
    if c["upper"] is None:
        a, b = 0, lo
    else:
        a, b = lo, c["upper"]
    if not (0 <= a <= b <= shortest):
        return []        # the requested range does not exist in every series: nothing demanded
    want = [[s[a:b] for s in inst] for inst in x]
    if out.startswith("E:"):
        if c["kind"] == "A" and out == "E:attr":
            return [("trunc:array-cells-rejected", "valid nested DataFrame with ndarray cells rejected: " + out)]
        return [("trunc:valid-rejected", "range [%d,%d) exists in every series but input rejected: %s" % (a, b, out))]
    got = parse_panel(out)
    if [len(i) for i in got] != [len(i) for i in want]:
        return [("trunc:rows-or-columns", "shape %r" % [len(i) for i in got])]
    if any(len(s) != b - a for inst in got for s in inst):
        return [("trunc:length", "lengths %r, requested %d" % ([[len(s) for s in i] for i in got], b - a))]
    if not same_panel(got, want):
        return [("trunc:values", "got %s want %s" % (out, show_panel(want)))]
    return []


def trunc_gen(tier, rng):
    cases = []
    scope = []
    for ni, nc in ((1, 1), (2, 1), (1, 2), (2, 2)):
        for lens in itertools.product(range(1, 5), repeat=ni * nc):
            shape = [list(lens[i * nc:(i + 1) * nc]) for i in range(ni)]
            m = min(lens)
            bounds = [(None, None)] + [(lo, None) for lo in range(-1, m + 2)] + \
                     [(lo, up) for lo in range(-1, m + 1) for up in range(lo - 1, m + 2)] + [(None, 1), (None, m)]
            for lo, up in bounds:
                scope.append((shape, lo, up))
    for shape, lo, up in slice_quick(scope, tier, rng, 640):
        x = rand_panel(rng, shape)
        fit = rng.choice(["same", "same", "longer", "shorter"])
        xfit = x if fit == "same" else rand_panel(rng, [[max(1, n + (1 if fit == "longer" else -1)) for n in i] for i in shape])
        kind = rng.choice(["S", "S", "S", "A", "N"])
        if kind == "N" and not (is_rect(x) and is_rect(xfit)):
            kind = "S"
        cases.append({"op": "trunc", "kind": kind, "lower": lo, "upper": up, "xfit": xfit, "x": x, "t0": rng.choice([0, 0, 3])})
    for _ in range(180 if tier == "quick" else 3600):
        ni, nc = rng.randrange(1, 5), rng.randrange(1, 4)
        equal = rng.random() < 0.3
        n0 = rng.randrange(1, 17)
        shape = [[n0 if equal else rng.randrange(1, 17) for _ in range(nc)] for _ in range(ni)]
        x = rand_panel(rng, shape)
        m = min(min(i) for i in shape)
        lo = rng.choice([None, None, rng.randrange(0, m + 1), rng.randrange(0, m + 1), m, m + 1, -rng.randrange(1, 4)])
        up = rng.choice([None, None, rng.randrange(0, m + 2), m, m + rng.randrange(1, 4)])
        xfit = x if rng.random() < 0.6 else rand_panel(rng, [[rng.randrange(1, 20) for _ in range(nc)] for _ in range(rng.randrange(1, 4))])
        kind = rng.choice(["S", "S", "S", "A", "N"])
        if kind == "N" and not (is_rect(x) and is_rect(xfit)):
            kind = "S"
        cases.append({"op": "trunc", "kind": kind, "lower": lo, "upper": up, "xfit": xfit, "x": x, "t0": 0})
    return cases


OPS["trunc"] = dict(line=trunc_line, real=trunc_real, oracle=trunc_oracle, gen=trunc_gen)


# ----------------------------------------------------------------------------- tabularizer / column concatenator
def _tab_labels(c):
    nc = len(c["x"][0])
    nm = c.get("names")
    return [str(v) for v in (nm[:nc] if nm and len(nm) >= nc else ["dim_%d" % j for j in range(nc)])]


def tab_line(c):
    if c["kind"] == "N" or not c["x"] or not c["x"][0]:
        return "C14 %s %s" % (c["op"], show_panel(c["x"]))
    # nested data frame: the model gets the column labels (and the first time index) as well and also answers the
    # names of the tabular columns
    if c["op"] == "tab":
        return "C14 tabl %s %s %d %s" % (c["kind"], ",".join(_tab_labels(c)), c.get("t0", 0) if c["kind"] == "S" else 0, show_panel(c["x"]))
    return "C14 concatl %s %s %s" % (c["kind"], ",".join(_tab_labels(c)), show_panel(c["x"]))


def tab_real(c):
    def f():
        r = fit_transform(c)
        if c["op"] == "tab":
            names = ",".join(str(v) for v in r.columns) + "=" if isinstance(r, pd.DataFrame) and c["kind"] != "N" else ""
            return names + show_table(np.asarray(r, dtype="float64").tolist())
        return show_panel(nested_out(r))
    return guarded(f)


CT["tab"] = (_cls("sktime.transformations.panel.reduce", "Tabularizer"), lambda c: {}, _panel_arg("x"), _panel_arg("x"))
CT["concat"] = (_cls("sktime.transformations.panel.compose", "ColumnConcatenator"), lambda c: {}, _panel_arg("x"), _panel_arg("x"))


def tab_oracle(c, out):
    """tabularisation and column concatenation in column-then-time order; one row per instance in
    input order"""
    x = fr_panel(c["x"])
    op = c["op"]
    ncol = len(x[0])
    if any(len({len(inst[j]) for inst in x}) != 1 for j in range(ncol)):
        return []     # a column with unequal-length series has no tabular form: nothing demanded
    rows = [[v for s in inst for v in s] for inst in x]
    if out.startswith("E:"):
        return [(op + ":valid-rejected", "equal-length columns rejected: " + out)]
    out = out.split("=", 1)[1] if "=" in out else out      # names of the tabular columns: not in the statement
    got = parse_table(out) if op == "tab" else [i[0] if len(i) == 1 else None for i in parse_panel(out)]
    if len(got) != len(rows) or any(g is None for g in got):
        return [(op + ":rows-or-columns", "got %s" % out)]
    if not same_table(got, rows):
        return [(op + ":values-order", "got %s want %s" % (out, show_table(rows)))]
    return []


def tab_gen(tier, rng):
    cases = []
    scope = []
    for ni in (1, 2, 3):
        for nc in (1, 2, 3):
            for lens in itertools.product(range(1, 4), repeat=nc):
                for ragged in (False, True):
                    scope.append((ni, list(lens), ragged))
    for op in ("tab", "concat"):
        for ni, lens, ragged in slice_quick(scope, tier, rng, 240):
            shape = [list(lens) for _ in range(ni)]
            if ragged and ni > 1:
                shape[rng.randrange(1, ni)][rng.randrange(len(lens))] += 1
            x = rand_panel(rng, shape)
            kind = rng.choice(["S", "S", "A", "N"])
            if kind == "N" and not is_rect(x):
                kind = "S"
            cases.append({"op": op, "kind": kind, "x": x, "t0": rng.choice([0, 0, 2])})
        for _ in range(120 if tier == "quick" else 2400):
            ni, nc = rng.randrange(1, 6), rng.randrange(1, 5)
            lens = [rng.randrange(1, 17) for _ in range(nc)]
            if rng.random() < 0.3:
                lens = [lens[0]] * nc
            shape = [list(lens) for _ in range(ni)]
            if rng.random() < 0.1 and ni > 1:
                shape[rng.randrange(1, ni)][rng.randrange(nc)] += rng.choice([-1, 1, 2])
                shape = [[max(1, n) for n in i] for i in shape]
            x = rand_panel(rng, shape)
            kind = rng.choice(["S", "S", "A", "N"])
            if kind == "N" and not is_rect(x):
                kind = "S"
            cases.append({"op": op, "kind": kind, "x": x, "t0": 0})
    return cases


OPS["tab"] = dict(line=tab_line, real=tab_real, oracle=tab_oracle, gen=tab_gen)
OPS["concat"] = dict(line=tab_line, real=tab_real, oracle=tab_oracle, gen=lambda tier, rng: [])


# ----------------------------------------------------------------------------- PAA
def iparam(v):
    return str(v) if isinstance(v, int) and not isinstance(v, bool) else "notint"


def paa_line(c):
    k = c["k"]
    if isinstance(k, int) and c["x"] and c["x"][0] and 1 <= k <= len(c["x"][0][0]) and any(len(s) < k for inst in c["x"] for s in inst):
        # a later column shorter than num_intervals is not checked by the code and its result then depends on
        # float rounding of `current_frame_size == frame_length`; outside the property's domain, not modelled
        return None
    return "C14 paa %s %s" % (iparam(c["k"]), show_panel(c["x"]))


def paa_real(c):
    return guarded(lambda: show_panel(nested_out(fit_transform(c))))


CT["paa"] = (_cls("sktime.transformations.panel.dictionary_based._paa", "PAA"), lambda c: dict(num_intervals=c["k"]),
             _panel_arg("x"), _panel_arg("x"))


def frame_means(xs, k):
    """mean of the step function x over each of k equal frames of (possibly fractional) length n/k"""
    n = len(xs)
    fl = Fr(n, k)
    out = []
    for j in range(k):
        a, b = j * fl, (j + 1) * fl
        tot = Fr(0)
        for i, v in enumerate(xs):
            ov = min(b, Fr(i + 1)) - max(a, Fr(i))
            if ov > 0:
                tot += ov * v
        out.append(tot / fl)
    return out


def paa_oracle(c, out):
    """piecewise aggregate means over equal (possibly fractional) frames; exactly k values per series;
    rows and columns kept in order"""
    x = fr_panel(c["x"])
    k = c["k"]
    ncol = len(x[0])
    if not isinstance(k, int) or isinstance(k, bool) or k < 1:
        return []
    if any(len({len(inst[j]) for inst in x}) != 1 for j in range(ncol)):
        return []
    if any(len(s) < k for inst in x for s in inst):
        return []
    if out.startswith("E:"):
        return [("paa:valid-rejected", "1 <= k <= length rejected: " + out)]
    got = parse_panel(out)
    want = [[frame_means(s, k) for s in inst] for inst in x]
    if [len(i) for i in got] != [len(i) for i in want]:
        return [("paa:rows-or-columns", out)]
    if any(len(s) != k for inst in got for s in inst):
        return [("paa:length", "lengths %r, requested %d" % ([[len(s) for s in i] for i in got], k))]
    if not same_panel(got, want):
        return [("paa:values", "got %s want %s" % (out, show_panel(want)))]
    return []


def paa_gen(tier, rng):
    cases = []
    nmax = 20 if tier == "quick" else 64
    for n in range(1, nmax + 1):            # exhaustive in (length, number of intervals)
        for k in range(0, n + 2):
            if tier == "quick" and n > 8 and rng.random() < 0.5:
                continue
            cases.append({"op": "paa", "kind": "S", "k": k, "x": [[rand_cell(rng, n, small=True)]], "t0": 0})
    for _ in range(180 if tier == "quick" else 3200):
        ni, nc = rng.randrange(1, 4), rng.randrange(1, 4)
        lens = [rng.randrange(1, 33) for _ in range(nc)]
        if rng.random() < 0.5:
            lens = [lens[0]] * nc
        shape = [list(lens) for _ in range(ni)]
        if rng.random() < 0.08 and ni > 1:
            shape[1][0] += 1
        x = rand_panel(rng, shape)
        kind = rng.choice(["S", "S", "A", "N"])
        if kind == "N" and not is_rect(x):
            kind = "S"
        k = rng.choice([rng.randrange(1, lens[0] + 1), rng.randrange(1, lens[0] + 1), lens[0], 1, lens[0] + 1, 0, -1, 2.0])
        cases.append({"op": "paa", "kind": kind, "k": k, "x": x, "t0": rng.choice([0, 0, 3])})
    return cases


OPS["paa"] = dict(line=paa_line, real=paa_real, oracle=paa_oracle, gen=paa_gen)


# ----------------------------------------------------------------------------- IntervalSegmenter
def iseg_line(c):
    iv = c["intervals"]
    if isinstance(iv, int) and not isinstance(iv, bool):
        t = "count:%d" % iv
    elif isinstance(iv, list) and c.get("as_array", True):
        t = "rows:" + "/".join(",".join(str(v) for v in r) for r in iv)
    else:
        t = "other"
    return "C14 iseg %s %s %s" % (t, show_panel(c["xfit"]), show_panel(c["x"]))


def _iseg_kw(c):
    iv = c["intervals"]
    if isinstance(iv, list) and c.get("as_array", True):
        iv = np.array(iv, dtype="int64")
    return dict(intervals=iv)


def iseg_real(c):
    return guarded(lambda: show_panel(nested_out(fit_transform(c))))


CT["iseg"] = (_cls("sktime.transformations.panel.segment", "IntervalSegmenter"), _iseg_kw, _panel_arg("xfit"), _panel_arg("x"))


def iseg_oracle(c, out):
    """fixed-interval segmentation: an integer asks for that many consecutive intervals of (nearly) equal
    length that together make up the series; explicit [start, end) rows ask for exactly those slices;
    one row per instance, one column per interval"""
    x, xfit = fr_panel(c["x"]), fr_panel(c["xfit"])
    if len(x[0]) != 1 or len(xfit[0]) != 1 or not is_rect(c["x"]) or not is_rect(c["xfit"]):
        return []
    n, nfit = len(x[0][0]), len(xfit[0][0])
    iv = c["intervals"]
    if isinstance(iv, int) and not isinstance(iv, bool):
        if n != nfit or not (1 <= iv <= n // 2):
            return []
        if out.startswith("E:"):
            return [("iseg:count:valid-rejected", out)]
        got = parse_panel(out)
        if len(got) != len(x) or any(len(i) != iv for i in got):
            return [("iseg:count:rows-or-columns", out)]
        for gi, xi in zip(got, x):
            row = xi[0]
            sizes = [len(s) for s in gi]
            if [v for s in gi for v in s] != row or max(sizes) - min(sizes) > 1:
                # signature of the defect fixed by a79239a: every interval lost exactly its last point
                q, r = divmod(n, iv)
                blocks, pos = [], 0
                for j in range(iv):
                    sz = q + 1 if j < r else q
                    blocks.append(row[pos:pos + sz]); pos += sz
                if gi == [b[:-1] for b in blocks]:
                    return [("iseg:count:last-point-of-each-interval-dropped",
                             "n=%d k=%d: segments %s do not make up the series %s" % (n, iv, show_cell_list(gi), show_cell(row)))]
                return [("iseg:count:values", "n=%d k=%d: segments %s vs series %s" % (n, iv, show_cell_list(gi), show_cell(row)))]
        return []
    if isinstance(iv, list) and c.get("as_array", True):
        if not iv or any(len(r) != 2 or not (0 <= r[0] <= r[1] <= n) for r in iv):
            return []
        if out.startswith("E:"):
            return [("iseg:rows:valid-rejected", out)]
        got = parse_panel(out)
        want = [[xi[0][a:b] for a, b in iv] for xi in x]
        if [len(i) for i in got] != [len(i) for i in want]:
            return [("iseg:rows:rows-or-columns", out)]
        if not same_panel(got, want):
            return [("iseg:rows:values", "got %s want %s" % (out, show_panel(want)))]
    return []


def show_cell_list(cells):
    return ";".join(show_cell(s) for s in cells)


def iseg_gen(tier, rng):
    cases = []
    nmax = 16 if tier == "quick" else 32
    for n in range(1, nmax + 1):             # exhaustive in (length, number of intervals)
        for k in range(-1, n // 2 + 2):
            ni = rng.randrange(1, 4)
            x = rand_panel(rng, [[n]] * ni)
            cases.append({"op": "iseg", "kind": rng.choice(["S", "S", "A", "N"]), "intervals": k, "xfit": x, "x": x, "t0": 0})
    for _ in range(240 if tier == "quick" else 4000):
        n = rng.randrange(1, 17)
        ni = rng.randrange(1, 4)
        x = rand_panel(rng, [[n]] * ni)
        xfit = x if rng.random() < 0.7 else rand_panel(rng, [[rng.choice([n, n, n + 1, max(1, n - 2)])]] * rng.randrange(1, 3))
        r = rng.random()
        if r < 0.55:       # explicit rows, mostly valid
            rows = []
            for _ in range(rng.randrange(1, 5)):
                a = rng.randrange(0, n + 1); b = rng.randrange(a, n + 1)
                if rng.random() < 0.15:
                    a, b = rng.randrange(-n - 2, n + 3), rng.randrange(-n - 2, n + 3)
                rows.append([a, b])
            if rng.random() < 0.2:   # a tiling of [0, n)
                cuts = sorted(set([0, n] + [rng.randrange(0, n + 1) for _ in range(rng.randrange(0, 4))]))
                rows = [[a, b] for a, b in zip(cuts, cuts[1:])] or [[0, n]]
            iv = rows
        elif r < 0.9:
            iv = rng.randrange(1, max(2, n // 2 + 1))
        else:
            iv = rng.choice([0, -2, n, 2.5, "three"])
        c = {"op": "iseg", "kind": rng.choice(["S", "S", "A", "N"]), "intervals": iv, "xfit": xfit, "x": x, "t0": rng.choice([0, 0, 2])}
        if isinstance(iv, list) and rng.random() < 0.05:
            c["as_array"] = False        # a plain list is not accepted
        cases.append(c)
    # malformed panels: two columns, unequal lengths
    for _ in range(18 if tier == "quick" else 160):
        x = rand_panel(rng, [[4, 4], [4, 4]]) if rng.random() < 0.5 else rand_panel(rng, [[4], [5]])
        cases.append({"op": "iseg", "kind": "S", "intervals": 2, "xfit": x, "x": x, "t0": 0})
    return cases


OPS["iseg"] = dict(line=iseg_line, real=iseg_real, oracle=iseg_oracle, gen=iseg_gen)


# ----------------------------------------------------------------------------- SlidingWindowSegmenter
def slide_line(c):
    return "C14 slide %s %s" % (iparam(c["w"]), show_panel(c["x"]))


def slide_real(c):
    return guarded(lambda: show_panel(nested_out(fit_transform(c))))


CT["slide"] = (_cls("sktime.transformations.panel.segment", "SlidingWindowSegmenter"), lambda c: dict(window_length=c["w"]),
               _panel_arg("x"), _panel_arg("x"))


def slide_oracle(c, out):
    """sliding-window segmentation: the series is padded at both ends with floor(w/2) copies of its end
    values and every window of length w (hop 1) is extracted: one window per time point"""
    x = fr_panel(c["x"])
    w = c["w"]
    if not isinstance(w, int) or isinstance(w, bool) or w < 1 or len(x[0]) != 1 or not is_rect(c["x"]):
        return []
    if out.startswith("E:"):
        return [("slide:valid-rejected", out)]
    p = w // 2
    want = []
    for xi in x:
        s = xi[0]
        n = len(s)
        want.append([[s[min(max(j + t - p, 0), n - 1)] for t in range(w)] for j in range(n)])
    got = parse_panel(out)
    if [len(i) for i in got] != [len(i) for i in want]:
        return [("slide:rows-or-windows", "shape %r want %r" % ([len(i) for i in got], [len(i) for i in want]))]
    if any(len(s) != w for inst in got for s in inst):
        return [("slide:length", out)]
    if not same_panel(got, want):
        return [("slide:values", "got %s want %s" % (out, show_panel(want)))]
    return []


def slide_gen(tier, rng):
    cases = []
    nmax, wmax = (9, 12) if tier == "quick" else (16, 34)
    for n in range(1, nmax + 1):
        for w in range(-1, wmax + 1):
            x = rand_panel(rng, [[n]] * rng.randrange(1, 3))
            cases.append({"op": "slide", "kind": rng.choice(["S", "S", "A", "N"]), "w": w, "x": x, "t0": 0})
    for _ in range(90 if tier == "quick" else 1600):
        n = rng.randrange(1, 25)
        x = rand_panel(rng, [[n]] * rng.randrange(1, 5))
        w = rng.choice([rng.randrange(1, 2 * n + 3), rng.randrange(1, 8), 3.0, 0])
        cases.append({"op": "slide", "kind": rng.choice(["S", "S", "A", "N"]), "w": w, "x": x, "t0": rng.choice([0, 5])})
    for _ in range(12 if tier == "quick" else 120):
        x = rand_panel(rng, [[4, 4], [4, 4]]) if rng.random() < 0.5 else rand_panel(rng, [[4], [5]])
        cases.append({"op": "slide", "kind": "S", "w": 3, "x": x, "t0": 0})
    return cases


OPS["slide"] = dict(line=slide_line, real=slide_real, oracle=slide_oracle, gen=slide_gen)


# ----------------------------------------------------------------------------- TSInterpolator
def interp_line(c):
    return "C14 interp %s %s %s" % (c["kind"], iparam(c["length"]), show_panel(c["x"]))


def interp_real(c):
    return guarded(lambda: show_panel(nested_out(fit_transform(c))))


CT["interp"] = (_cls("sktime.transformations.panel.interpolate", "TSInterpolator"), lambda c: dict(length=c["length"]),
                _panel_arg("x"), _panel_arg("x"))


def lin_resample(s, L):
    """the piecewise-linear function through (i/(n-1), s[i]) sampled at j/(L-1), j = 0..L-1"""
    n = len(s)
    out = []
    for j in range(L):
        pos = Fr(j * (n - 1), L - 1) if L > 1 else Fr(0)
        k = min(int(math.floor(pos)), n - 2)
        out.append(s[k] + (pos - k) * (s[k + 1] - s[k]))
    return out


def interp_oracle(c, out):
    """linear interpolation to the requested length: every cell becomes exactly `length` equally spaced
    samples of the piecewise-linear curve through its points; rows and columns unchanged"""
    x = fr_panel(c["x"])
    L = c["length"]
    if not isinstance(L, int) or isinstance(L, bool) or L < 1:
        return []
    if any(len(s) < 2 for inst in x for s in inst):
        return []
    if out.startswith("E:"):
        if c["kind"] == "A" and out == "E:attr":
            return [("interp:array-cells-rejected", "valid nested DataFrame with ndarray cells rejected: " + out)]
        return [("interp:valid-rejected", out)]
    got = parse_panel(out)
    want = [[lin_resample(s, L) for s in inst] for inst in x]
    if [len(i) for i in got] != [len(i) for i in want]:
        return [("interp:rows-or-columns", out)]
    if any(len(s) != L for inst in got for s in inst):
        return [("interp:length", "lengths %r requested %d" % ([[len(s) for s in i] for i in got], L))]
    if not same_panel(got, want):
        return [("interp:values", "got %s want %s" % (out, show_panel(want)))]
    return []


def interp_gen(tier, rng):
    cases = []
    nmax, lmax = (10, 14) if tier == "quick" else (20, 40)
    for n in range(1, nmax + 1):
        for L in range(0, lmax + 1):
            if tier == "quick" and rng.random() < 0.4 and n > 2 and L > 2:
                continue
            x = rand_panel(rng, [[n]])
            cases.append({"op": "interp", "kind": "S", "length": L, "x": x, "t0": 0})
    for _ in range(180 if tier == "quick" else 3200):
        ni, nc = rng.randrange(1, 4), rng.randrange(1, 4)
        equal = rng.random() < 0.4
        n0 = rng.randrange(2, 20)
        shape = [[n0 if equal else rng.randrange(2, 20) for _ in range(nc)] for _ in range(ni)]
        if rng.random() < 0.05:
            shape[0][0] = 1
        x = rand_panel(rng, shape)
        kind = rng.choice(["S", "S", "S", "A", "N"])
        if kind == "N" and not is_rect(x):
            kind = "S"
        L = rng.choice([rng.randrange(1, 40), rng.randrange(1, 12), n0, 2 * n0 - 1, 1, 2, 0, -3, 4.0])
        cases.append({"op": "interp", "kind": kind, "length": L, "x": x, "t0": rng.choice([0, 0, 7])})
    return cases


OPS["interp"] = dict(line=interp_line, real=interp_real, oracle=interp_oracle, gen=interp_gen)


# ----------------------------------------------------------------------------- Imputer
NAN = float("nan")
METHODS = ["ffill", "pad", "bfill", "backfill", "constant", "mean", "median", "linear", "nearest", "drift"]


def show_oseries(z):
    return "-" if not len(z) else ",".join("nan" if (v is None or v != v) else show_rat(float(v)) for v in z)


def onone(v):
    return "none" if v is None else show_rat(float(v))


def impute_line(c):
    m = c["method"] if c["method"] in METHODS else "unknown"
    if "zs" in c:
        return "C14 imputef %s %s %s %s" % (m, onone(c["value"]), onone(c["mv"]), ";".join(show_oseries(col) for col in c["zs"]))
    return "C14 impute %s %s %s %s" % (m, onone(c["value"]), onone(c["mv"]), show_oseries(c["z"]))


def _series(z, i0=0, dtype="f8"):
    if dtype in ("i8", "i4") and all(v is not None for v in z):
        return pd.Series([int(v) for v in z], index=pd.RangeIndex(i0, i0 + len(z)), dtype=NP_DTYPE[dtype])
    return pd.Series([NAN if v is None else float(v) for v in z], index=pd.RangeIndex(i0, i0 + len(z)), dtype="float64")


def _frame_names(names, ncol):
    """column labels of a frame of series (default c0, c1, ...)"""
    return list(names)[:ncol] if names and len(names) >= ncol else ["c%d" % j for j in range(ncol)]


def _impute_data(c):
    if "zs" in c:          # a frame: one column per series
        names = _frame_names(c.get("names"), len(c["zs"]))
        return pd.DataFrame({names[j]: _series(col, c.get("i0", 0), c.get("dtype", "f8")) for j, col in enumerate(c["zs"])},
                            columns=names)
    return _series(c["z"], c.get("i0", 0), c.get("dtype", "f8"))


def impute_real(c):
    def f():
        z = _impute_data(c)
        zt = fit_transform(c)
        pre = "" if list(zt.index) == list(z.index) else "INDEX-CHANGED:"
        if "zs" in c:
            if not isinstance(zt, pd.DataFrame) or zt.shape[1] != len(c["zs"]):
                return "COLUMNS-CHANGED"
            return pre + ";".join(show_oseries(zt.iloc[:, j].tolist()) for j in range(zt.shape[1]))
        return pre + show_oseries(zt.tolist())
    return guarded(f)


CT["impute"] = (_cls("sktime.transformations.series.impute", "Imputer"),
                lambda c: dict(method=c["method"], value=c["value"], missing_values=c["mv"]), _impute_data, _impute_data)
CT["imputef"] = CT["impute"]


def _ols_line(ys):
    n = len(ys)
    xs = [Fr(i) for i in range(n)]
    mx, my = sum(xs) / n, sum(ys) / n
    den = sum((x - mx) ** 2 for x in xs)
    b = sum((x - mx) * (y - my) for x, y in zip(xs, ys)) / den if den else Fr(0)
    return [my + b * (x - mx) for x in xs]


def _ffill(z):
    out, last = [], None
    for v in z:
        last = v if v is not None else last
        out.append(last)
    return out


def impute_oracle(c, out):
    """frames: the rule column by column"""
    if "zs" not in c:
        return impute_oracle1(c, out)
    m, value, mv = c["method"], c["value"], c["mv"]
    if m not in METHODS or (value is not None) != (m == "constant"):
        return []
    if out.startswith("E:") or out.startswith("INDEX") or out.startswith("COLUMNS"):
        if any(all(v is None or (mv is not None and v == mv) for v in col) for col in c["zs"]):
            return []       # a column without any observation: nothing demanded
        return [("impute:frame:rejected-or-reshaped", "%s: %s" % (m, out))]
    outs = out.split(";")
    if len(outs) != len(c["zs"]):
        return [("impute:frame:columns", out)]
    fails = []
    for j, (col, o) in enumerate(zip(c["zs"], outs)):
        for k, msg in impute_oracle1(dict(c, z=col), o):
            fails.append((k, "column %d: %s" % (j, msg)))
    return fails


def impute_oracle1(c, out):
    """for single series the chosen imputation rule: observed values stay, every missing value (NaN and
    every occurrence of `missing_values`) is replaced by what the rule says; a directional or interpolating rule
    fills what it can reach and the values left at an edge are filled from the other side, so the output has no
    missing value as soon as one value is observed"""
    m, value, mv = c["method"], c["value"], c["mv"]
    if m not in METHODS or (value is not None) != (m == "constant") or not c["z"]:
        return []
    z = [None if (v is None or (mv is not None and v == mv)) else Fr(v) for v in c["z"]]
    n = len(z)
    valid = [(i, v) for i, v in enumerate(z) if v is not None]
    if not valid:
        return []
    if out.startswith("E:"):
        return [("impute:valid-rejected", "%s: %s" % (m, out))]
    if out.startswith("INDEX-CHANGED:"):
        return [("impute:index-changed", out)]
    got = parse_cell(out) if out != "-" else []
    if len(got) != n:
        return [("impute:length", "%d values for %d" % (len(got), n))]
    fails = []
    raw = [None if v is None else Fr(v) for v in c["z"]]
    for i, v in enumerate(z):
        if v is not None and (got[i] is None or not close(float(got[i]), v)):
            return [("impute:observed-value-changed", "position %d: %s -> %s" % (i, v, got[i]))]
    want = [None] * n       # None = the rule says nothing here
    if m in ("ffill", "pad"):
        want = _ffill(z)
    elif m in ("bfill", "backfill"):
        want = _ffill(z[::-1])[::-1]
    elif m == "constant":
        want = [Fr(value)] * n
    elif m == "mean":
        want = [sum(v for _, v in valid) / len(valid)] * n
    elif m == "median":
        sv = sorted(v for _, v in valid)
        k = len(sv)
        want = [sv[k // 2] if k % 2 else (sv[k // 2 - 1] + sv[k // 2]) / 2] * n
    elif m in ("linear", "nearest"):
        for i in range(n):
            prev = [(j, v) for j, v in valid if j < i]
            nxt = [(j, v) for j, v in valid if j > i]
            if z[i] is None and prev and nxt:
                (j, a), (k, b) = prev[-1], nxt[0]
                if m == "linear":
                    want[i] = a + (b - a) * Fr(i - j, k - j)
                else:
                    want[i] = a if i - j < k - i else b if i - j > k - i else (a, b)   # tie: either
    if m in ("ffill", "pad", "bfill", "backfill", "linear", "nearest"):
        # the edges the rule cannot reach: before the first observation the first observed value, after the last
        # observation the last observed value
        first_i, first_v = valid[0]
        last_i, last_v = valid[-1]
        for i in range(n):
            if z[i] is None and want[i] is None:
                want[i] = first_v if i < first_i else last_v if i > last_i else None
    elif m == "drift":
        filled = _ffill(z)
        filled = _ffill(filled[::-1])[::-1]
        want = _ols_line(filled)
    for i in range(n):
        if z[i] is None and want[i] is not None:
            alts = want[i] if isinstance(want[i], tuple) else (want[i],)
            if got[i] is None or not any(close(float(got[i]), a) for a in alts):
                # signature of the defect fixed by 16d6ccd: the placeholder 0 was left in place
                if mv == 0 and all(g == 0 for g, r in zip(got, raw) if r == 0) and \
                        all(g is not None and r is not None and close(float(g), r) for g, r in zip(got, raw) if r is not None and r != 0):
                    return [("impute:missing-values-zero-ignored", "missing_values=0: the zeros were not imputed: %s" % out)]
                if m == "drift":
                    hf = _ffill(z); hf = _ffill(hf[::-1])[::-1]
                    if all(g is not None and close(float(g), h) for g, h in zip(got, hf)):
                        return [("impute:drift:no-trend-values", "missing values got ffill/bfill values, not the fitted trend: %s (trend %s)" % (out, show_oseries([float(w) for w in want])))]
                mm = "ffill" if m == "pad" else "bfill" if m == "backfill" else m
                edge = i < valid[0][0] or i > valid[-1][0]
                fails.append(("impute:%s:%s" % (mm, "edge-values" if edge else "values"),
                              "position %d: got %s want %s in %s" % (i, "nan" if got[i] is None else got[i], "/".join(str(a) for a in alts), out)))
                break
    if not fails and any(g is None for g in got):
        fails.append(("impute:%s:missing-value-left" % m, "an observed value exists but the output still has NaN: %s" % out))
    return fails


def impute_gen(tier, rng):
    cases = []
    scope = []
    for n in range(1, 7 if tier == "quick" else 9):   # exhaustive: every missing-value mask up to length 6 (thorough: 8) x every method
        for mask in range(2 ** n):
            for m in METHODS:
                scope.append((n, mask, m))
    for n, mask, m in slice_quick(scope, tier, rng, 840):
        z = [None if (mask >> i) & 1 else float(rng.randrange(-5, 9)) for i in range(n)]
        cases.append({"op": "impute", "method": m, "value": float(rng.randrange(-3, 4)) + 0.5 if m == "constant" else None,
                      "mv": None, "z": z, "i0": rng.choice([0, 0, 10])})
    for _ in range(450 if tier == "quick" else 8000):
        n = rng.randrange(1, 31)
        pm = rng.choice([0.1, 0.3, 0.6, 0.9])
        z = [None if rng.random() < pm else (float(rng.randrange(-4, 5)) if rng.random() < 0.5 else dyadic(rng, -16, 16, 2)) for _ in range(n)]
        m = rng.choice(METHODS)
        mv = None
        if rng.random() < 0.25:
            mv = rng.choice([0, 0.0, -999.0, 3.0, 1.5])
            for i in range(n):
                if rng.random() < 0.2:
                    z[i] = float(mv)
        value = dyadic(rng, -8, 8, 2) if m == "constant" else None
        if rng.random() < 0.04:          # malformed configurations
            m, value = rng.choice([("mean", 1.0), ("constant", None), ("spline9", None), ("ffill", 0.0)])
        cases.append({"op": "impute", "method": m, "value": value, "mv": mv, "z": z, "i0": rng.choice([0, 0, 5, -3])})
    cases.append({"op": "impute", "method": "mean", "value": None, "mv": None, "z": [], "i0": 0})
    # frames: the rule column by column; columns with missing values at different edges, placeholders
    for _ in range(90 if tier == "quick" else 1200):
        n, nc = rng.randrange(1, 13), rng.randrange(2, 4)
        m = rng.choice(METHODS)
        mv = rng.choice([None, None, None, 0.0, -999.0, 3.0])
        zs = []
        for j in range(nc):
            pm = rng.choice([0.2, 0.5, 0.8])
            col = [None if rng.random() < pm else float(rng.randrange(-4, 9)) for _ in range(n)]
            if rng.random() < 0.9 and all(v is None for v in col):
                col[rng.randrange(n)] = float(rng.randrange(1, 5))
            if mv is not None:
                col = [float(mv) if (v is None or rng.random() < 0.1) else v for v in col]
            zs.append(col)
        cases.append({"op": "imputef", "method": m, "value": dyadic(rng, -8, 8, 2) if m == "constant" else None, "mv": mv,
                      "zs": zs, "i0": rng.choice([0, 0, 5])})
    return cases


OPS["impute"] = dict(line=impute_line, real=impute_real, oracle=impute_oracle, gen=impute_gen)
OPS["imputef"] = dict(line=impute_line, real=impute_real, oracle=impute_oracle, gen=lambda tier, rng: [])


# ----------------------------------------------------------------------------- RandomIntervalFeatureExtractor
def _range_feature(x):            # a callable without an `axis` keyword: exercises np.apply_along_axis
    return max(x) - min(x) if len(x) else NAN


def _features(names):
    from sktime.utils.slope_and_trend import _slope
    tbl = {"mean": np.mean, "var": np.std, "min": np.min, "max": np.max, "sum": np.sum, "slope": _slope,
           "range": _range_feature}
    return [tbl[n] for n in names]


def rife_ivs(c):
    return c["ivs"] if c["mode"] == "given" else c.get("ivs_fitted")


def rife_line(c):
    ivs = rife_ivs(c)
    if ivs is None:
        return None
    return "C14 rife %s %s %s" % (",".join(c["feats"]), "/".join("%d:%d" % (a, b) for a, b in ivs) or "-", show_panel(c["x"]))


def rife_real(c):
    def f():
        X = build(c["x"], c["kind"], c.get("t0", 0), names=c.get("names"), dtype=c.get("dtype", "f8"))
        t = obtain(c)
        try:
            t.fit(X)
        except Exception as e:
            c["ivs_fitted"] = None
            raise
        if c["mode"] == "given":
            t.intervals_ = np.array(c["ivs"], dtype="int64").reshape(-1, 2)
        else:
            c["ivs_fitted"] = [[int(a), int(b)] for a, b in np.asarray(t.intervals_)]
        Xt = np.asarray(t.transform(X), dtype="float64")
        nI = len(rife_ivs(c))
        rows = []
        for r in Xt:
            vals = []
            for k, v in enumerate(r):
                if c["feats"][k // nI] == "var" and v == v:
                    v = v * v                      # np.std: compare the radicand
                vals.append(v)
            rows.append(vals)
        return "_" if not rows else "|".join(show_oseries(r) if len(r) else "e" for r in rows)
    return guarded(f)


def _feat_exact(name, xs):
    n = len(xs)
    if name == "sum":
        return sum(xs, Fr(0))
    if n == 0:
        return None
    if name == "mean":
        return sum(xs) / n
    if name == "var":
        m = sum(xs) / n
        return sum((v - m) ** 2 for v in xs) / n
    if name == "min":
        return min(xs)
    if name == "max":
        return max(xs)
    if name == "range":
        return max(xs) - min(xs)
    if name == "slope":      # least-squares slope of x against time 1..n
        ts = [Fr(i + 1) for i in range(n)]
        mt, mx = sum(ts) / n, sum(xs) / n
        den = sum((t - mt) ** 2 for t in ts)
        return None if den == 0 else sum((t - mt) * (v - mx) for t, v in zip(ts, xs)) / den


def rife_oracle(c, out):
    """summary features of the fitted random intervals: the fitted intervals lie inside the series and respect
    the requested number / minimum length; the output has, per instance (rows in order), every feature of
    every interval's slice"""
    x = fr_panel(c["x"])
    if len(x[0]) != 1 or not is_rect(c["x"]):
        return []
    n = len(x[0][0])
    ivs = rife_ivs(c)
    fails = []
    if c["mode"] == "fit":
        ni = c["n_intervals"]
        minl = c.get("min_length") or 2
        maxl = c.get("max_length")
        ok_cfg = ((isinstance(ni, int) and 1 <= ni <= n) or ni in ("sqrt", "log")) and (maxl is None or maxl > minl)
        if not ok_cfg or n < minl:
            return []
        if ivs is None:
            return [("rife:fit:valid-rejected", out)]
        # (with max_length set, the code can draw an end point beyond the series; the slice is then shorter.
        #  The property speaks about the features of the fitted intervals, not about how they are drawn.)
        if any(not (0 <= a < n and a < b) for a, b in ivs):
            fails.append(("rife:fit:interval-not-in-series", "intervals %r n=%d" % (ivs, n)))
        if isinstance(ni, int) and len(ivs) != ni:
            fails.append(("rife:fit:number-of-intervals", "%d intervals for n_intervals=%d" % (len(ivs), ni)))
    else:
        if any(not (0 <= a < b <= n) for a, b in ivs):
            return []
    if out.startswith("E:"):
        return fails + [("rife:valid-rejected", out)]
    want = [[_feat_exact(f, xi[0][a:b]) for f in c["feats"] for a, b in ivs] for xi in x]
    got = [parse_cell(r) for r in out.split("|")] if out != "_" else []
    if len(got) != len(want) or any(len(g) != len(w) for g, w in zip(got, want)):
        return fails + [("rife:rows-or-columns", out)]
    if not same_table(got, want):
        fails.append(("rife:values-order", "got %s want %s" % (out, "|".join(show_oseries([None if v is None else float(v) for v in r]) for r in want))))
    return fails


def rife_gen(tier, rng):
    cases = []
    FE = ["mean", "var", "min", "max", "sum", "slope", "range"]
    # exhaustive: every single interval [a,b) of series of length <= 6, all features at once
    scope = [(n, a, b) for n in range(2, 7) for a in range(0, n) for b in range(a + 1, n + 1)]
    for n, a, b in slice_quick(scope, tier, rng, 80):
        x = rand_panel(rng, [[n]] * rng.randrange(1, 3))
        cases.append({"op": "rife", "kind": "S", "mode": "given", "ivs": [[a, b]], "feats": FE, "n_intervals": 1,
                      "seed": 0, "x": x, "t0": 0})
    for _ in range(240 if tier == "quick" else 3600):
        n = rng.randrange(2, 25)
        x = rand_panel(rng, [[n]] * rng.randrange(1, 5))
        feats = rng.sample(FE, rng.randrange(1, 4))
        kind = rng.choice(["S", "S", "A", "N"])
        if rng.random() < 0.5:
            ivs = []
            for _ in range(rng.randrange(1, 5)):
                a = rng.randrange(0, n); b = rng.randrange(a + 1, n + 1)
                ivs.append([a, b])
            cases.append({"op": "rife", "kind": kind, "mode": "given", "ivs": ivs, "feats": feats, "n_intervals": 1,
                          "seed": 0, "x": x, "t0": 0})
        else:
            ni = rng.choice(["sqrt", "log", rng.randrange(1, n + 1), rng.randrange(1, 5), n + 1, 0, 0.5])
            c = {"op": "rife", "kind": kind, "mode": "fit", "feats": feats, "n_intervals": ni,
                 "seed": rng.randrange(1000), "x": x, "t0": rng.choice([0, 0, 3])}
            if rng.random() < 0.3:
                c["min_length"] = rng.randrange(1, max(2, n // 2))
                if rng.random() < 0.5:
                    c["max_length"] = c["min_length"] + rng.randrange(0, 4)
            cases.append(c)
    for _ in range(9 if tier == "quick" else 80):
        x = rand_panel(rng, [[4, 4], [4, 4]]) if rng.random() < 0.5 else rand_panel(rng, [[4], [5]])
        cases.append({"op": "rife", "kind": "S", "mode": "given", "ivs": [[0, 2]], "feats": ["mean"], "n_intervals": 1,
                      "seed": 0, "x": x, "t0": 0})
    return cases


CT["rife"] = (_cls("sktime.transformations.panel.summarize", "RandomIntervalFeatureExtractor"),
              lambda c: dict(n_intervals=c["n_intervals"], min_length=c.get("min_length"), max_length=c.get("max_length"),
                             features=_features(c["feats"]), random_state=c["seed"]),
              _panel_arg("x"), _panel_arg("x"))
OPS["rife"] = dict(line=rife_line, real=rife_real, oracle=rife_oracle, gen=rife_gen)


# ----------------------------------------------------------------------------- row transformers
_ROW_CLASSES = {}


def _row_transformers():
    """harness-defined series-to-series transformers with a closed form (wrapped by the real row transformer)"""
    if _ROW_CLASSES:
        return _ROW_CLASSES
    from sktime.transformations.base import _SeriesToSeriesTransformer
    from sktime.transformations.series.cos import CosineTransformer

    class Cumsum(_SeriesToSeriesTransformer):
        def transform(self, Z, X=None):
            return np.cumsum(np.asarray(Z), axis=0)

    class Rev(_SeriesToSeriesTransformer):
        def transform(self, Z, X=None):
            return np.asarray(Z)[::-1]

    class Head2(_SeriesToSeriesTransformer):
        def transform(self, Z, X=None):
            return np.asarray(Z)[:2]

    _ROW_CLASSES.update({"cumsum": Cumsum, "rev": Rev, "head2": Head2, "cos": CosineTransformer})
    return _ROW_CLASSES


def _fn_table(vals):
    d = sorted({float(v) for v in vals})
    return ",".join("%s:%s" % (show_rat(v), show_rat(math.cos(v))) for v in d) or "-"


def row_line(c):
    if c["op"] == "rowprim":
        return "C14 rowprim mean %s" % show_panel(c["x"])
    fn = c["fn"]
    if fn == "cos":
        fn = "tbl=" + _fn_table(v for inst in c["x"] for s in inst for v in s)
    return "C14 rowser %s %s" % (fn, show_panel(c["x"]))


def _mean_transformer():
    from sktime.transformations.series.summarize import MeanTransformer
    return MeanTransformer()


def row_real(c):
    def f():
        r = fit_transform(c)
        if c["op"] == "rowprim":
            return show_table(np.asarray(r, dtype="float64").tolist())
        return show_panel(nested_out(r))
    return guarded(f)


CT["rowprim"] = (_cls("sktime.transformations.panel.compose", "SeriesToPrimitivesRowTransformer"),
                 lambda c: dict(transformer=_mean_transformer()), _panel_arg("x"), _panel_arg("x"))
CT["rowser"] = (_cls("sktime.transformations.panel.compose", "SeriesToSeriesRowTransformer"),
                lambda c: dict(transformer=_row_transformers()[c["fn"]]()), _panel_arg("x"), _panel_arg("x"))


def row_oracle(c, out):
    """row-wise application of a wrapped transformer to every cell; one row per instance in input order"""
    x = fr_panel(c["x"])
    if not is_rect(c["x"]):
        return []
    if out.startswith("E:"):
        return [(c["op"] + ":valid-rejected", out)]
    if c["op"] == "rowprim":
        want = [[sum(s) / len(s) for s in inst] for inst in x]
        got = parse_table(out)
        if len(got) != len(want) or not same_table(got, want):
            return [("rowprim:values-order", "got %s want %s" % (out, show_table(want)))]
        return []
    fn = c["fn"]

    def app(s):
        if fn == "cumsum":
            return list(itertools.accumulate(s))
        if fn == "rev":
            return s[::-1]
        if fn == "head2":
            return s[:2]
        return [Fr(math.cos(float(v))) for v in s]
    want = [[app(s) for s in inst] for inst in x]
    got = parse_panel(out)
    if [len(i) for i in got] != [len(i) for i in want]:
        return [("rowser:rows-or-columns", out)]
    if not same_panel(got, want):
        return [("rowser:values-order", "got %s want %s" % (out, show_panel(want)))]
    return []


def row_gen(tier, rng):
    cases = []
    scope = [(ni, nc, n, fn) for ni in (1, 2, 3) for nc in (1, 2, 3) for n in (1, 2, 3, 4)
             for fn in ("prim", "cumsum", "rev", "head2", "cos")]
    for ni, nc, n, fn in slice_quick(scope, tier, rng, 180):
        x = rand_panel(rng, [[n] * nc] * ni)
        kind = rng.choice(["S", "S", "A", "N"])
        cases.append({"op": "rowprim", "kind": kind, "x": x, "t0": 0} if fn == "prim" else
                     {"op": "rowser", "kind": kind, "fn": fn, "x": x, "t0": 0})
    for _ in range(120 if tier == "quick" else 2000):
        ni, nc, n = rng.randrange(1, 6), rng.randrange(1, 4), rng.randrange(1, 17)
        shape = [[n] * nc for _ in range(ni)]
        if rng.random() < 0.08 and ni > 1:
            shape[1][0] += 1
        x = rand_panel(rng, shape)
        kind = rng.choice(["S", "S", "A", "N"])
        if kind == "N" and not is_rect(x):
            kind = "S"
        fn = rng.choice(["prim", "prim", "cumsum", "rev", "head2", "cos"])
        cases.append({"op": "rowprim", "kind": kind, "x": x, "t0": 0} if fn == "prim" else
                     {"op": "rowser", "kind": kind, "fn": fn, "x": x, "t0": rng.choice([0, 4])})
    return cases


OPS["rowprim"] = dict(line=row_line, real=row_real, oracle=row_oracle, gen=row_gen)
OPS["rowser"] = dict(line=row_line, real=row_real, oracle=row_oracle, gen=lambda tier, rng: [])


# ----------------------------------------------------------------------------- ACF
def acf_nlags(c):
    n = len(c["z"])
    if c["n_lags"] is not None:
        return c["n_lags"]
    return min(int(10 * math.log10(n)), n - 1) if n else 0     # statsmodels' default, resolved by the harness


def acf_line(c):
    return "C14 acf %s %d %s" % ("T" if c["adjusted"] else "F", acf_nlags(c), show_cell(c["z"]) if c["z"] else "-")


def _z_arg(c):
    return _series(c["z"], c.get("i0", 0), c.get("dtype", "f8"))


def acf_real(c):
    return guarded(lambda: show_oseries(fit_transform(c).tolist()))


CT["acf"] = (_cls("sktime.transformations.series.acf", "AutoCorrelationTransformer"),
             lambda c: dict(adjusted=c["adjusted"], n_lags=c["n_lags"]), _z_arg, _z_arg)


def acf_oracle(c, out):
    """autocorrelation coefficients: r_k = sum_t (x_t - m)(x_{t+k} - m) / sum_t (x_t - m)^2 for k = 0..n_lags
    (each lag's sum divided by n-k instead of n when adjusted)"""
    z = [Fr(v) for v in c["z"]]
    n = len(z)
    if n < 2:
        return []
    m = sum(z) / n
    d = [v - m for v in z]
    s0 = sum(v * v for v in d)
    nl = acf_nlags(c)
    if s0 == 0 or nl < 0:
        return []
    if out.startswith("E:"):
        return [("acf:valid-rejected", out)]
    want = []
    for k in range(0, min(nl, n - 1) + 1):
        ck = sum(d[t] * d[t + k] for t in range(n - k))
        want.append((ck / (n - k)) / (s0 / n) if c["adjusted"] else ck / s0)
    got = parse_cell(out) if out != "-" else []
    if len(got) != len(want):
        return [("acf:number-of-lags", "%d coefficients, want %d" % (len(got), len(want)))]
    if not same_list(got, want):
        return [("acf:values", "got %s want %s" % (out, show_cell([float(w) for w in want])))]
    return []


def acf_gen(tier, rng):
    cases = []
    for n in range(1, 10 if tier == "quick" else 17):
        for nl in [None] + list(range(-1, n + 2)):
            for adj in (False, True):
                if tier == "quick" and rng.random() < 0.5:
                    continue
                cases.append({"op": "acf", "z": rand_cell(rng, n, small=True), "adjusted": adj, "n_lags": nl, "i0": 0})
    for _ in range(120 if tier == "quick" else 2000):
        n = rng.randrange(2, 41)
        z = rand_cell(rng, n)
        if rng.random() < 0.05:
            z = [z[0]] * n
        cases.append({"op": "acf", "z": z, "adjusted": rng.random() < 0.4,
                      "n_lags": rng.choice([None, rng.randrange(0, n), rng.randrange(0, n), rng.randrange(0, n), n + 3, -rng.randrange(1, n + 3)]), "i0": rng.choice([0, 5])})
    cases.append({"op": "acf", "z": [], "adjusted": False, "n_lags": 2, "i0": 0})
    return cases


OPS["acf"] = dict(line=acf_line, real=acf_real, oracle=acf_oracle, gen=acf_gen)


# ----------------------------------------------------------------------------- cosine, tabular-to-series adaptor
def cos_line(c):
    return "C14 cos %s %s" % (_fn_table(c["z"]), show_cell(c["z"]))


CT["cos"] = (_cls("sktime.transformations.series.cos", "CosineTransformer"), lambda c: {}, _z_arg, _z_arg)


def cos_real(c):
    def f():
        z = _z_arg(c)
        zt = fit_transform(c)
        pre = "" if list(zt.index) == list(z.index) else "INDEX-CHANGED:"
        return pre + show_cell(zt.tolist())
    return guarded(f)


def cos_oracle(c, out):
    """cosine of every value, element by element, same length, order and index"""
    if out.startswith("E:") or out.startswith("INDEX"):
        return [("cos:rejected-or-index", out)]
    got = parse_cell(out)
    want = [Fr(math.cos(v)) for v in c["z"]]
    if len(got) != len(want) or not same_list(got, want):
        return [("cos:values", "got %s" % out)]
    return []


def cos_gen(tier, rng):
    cases = []
    for n in range(1, 7):
        cases.append({"op": "cos", "z": rand_cell(rng, n, small=True), "i0": 0})
    for _ in range(60 if tier == "quick" else 1200):
        cases.append({"op": "cos", "z": rand_cell(rng, rng.randrange(1, 30)), "i0": rng.choice([0, 3, -2])})
    return cases


OPS["cos"] = dict(line=cos_line, real=cos_real, oracle=cos_oracle, gen=cos_gen)


def _frame(cols, i0, dtype="f8", names=None):
    if len(cols) == 1:
        return _series(cols[0], i0, dtype)
    names = _frame_names(names, len(cols))
    return pd.DataFrame({names[j]: np.array(col, dtype=col_dtype(dtype, j)) for j, col in enumerate(cols)},
                        index=pd.RangeIndex(i0, i0 + len(cols[0])), columns=names)


def _sk(t):
    from sklearn.preprocessing import MinMaxScaler, MaxAbsScaler
    return MinMaxScaler() if t == "minmax" else MaxAbsScaler()


def adapt_line(c):
    return "C14 adapt %s %s %s" % (c["t"], ";".join(show_cell(col) for col in c["zfit"]), ";".join(show_cell(col) for col in c["z"]))


CT["adapt"] = (_cls("sktime.transformations.series.adapt", "TabularToSeriesAdaptor"), lambda c: dict(transformer=_sk(c["t"])),
               lambda c: _frame(c["zfit"], c.get("i0", 0), c.get("dtype", "f8"), c.get("names")),
               lambda c: _frame(c["z"], c.get("i0", 0) + 2, c.get("dtype", "f8"), c.get("names")))


def adapt_real(c):
    def f():
        z = CT["adapt"][3](c)
        zt = fit_transform(c)
        pre = "" if list(zt.index) == list(z.index) else "INDEX-CHANGED:"
        cols = [zt.tolist()] if isinstance(zt, pd.Series) else [zt.iloc[:, j].tolist() for j in range(zt.shape[1])]
        return pre + ";".join(show_cell(col) for col in cols)
    return guarded(f)


def adapt_oracle(c, out):
    """column-wise application of a wrapped tabular transformer: column j of the result is the wrapped
    transformer, fitted on column j of the fit data, applied to column j; index unchanged"""
    if len(c["zfit"]) != len(c["z"]):
        return []
    if out.startswith("E:") or out.startswith("INDEX"):
        return [("adapt:rejected-or-index", out)]
    want = []
    for cf, col in zip(c["zfit"], c["z"]):
        t = _sk(c["t"]).fit(np.array(cf, dtype="float64").reshape(-1, 1))
        want.append([Fr(v) for v in t.transform(np.array(col, dtype="float64").reshape(-1, 1)).ravel().tolist()])
    got = [parse_cell(s) for s in out.split(";")]
    if len(got) != len(want) or not same_panel([got], [want]):
        return [("adapt:values", "got %s" % out)]
    return []


def adapt_gen(tier, rng):
    cases = []
    for t in ("minmax", "maxabs"):
        for nc in (1, 2, 3):
            for n in (1, 2, 3, 5):
                zfit = [rand_cell(rng, n, small=True) for _ in range(nc)]
                if rng.random() < 0.2:
                    zfit[0] = [zfit[0][0]] * n
                cases.append({"op": "adapt", "t": t, "zfit": zfit, "z": [rand_cell(rng, rng.randrange(1, 6)) for _ in range(nc)] if False else
                              [rand_cell(rng, n + 1) for _ in range(nc)], "i0": 0})
    for _ in range(90 if tier == "quick" else 1600):
        nc = rng.randrange(1, 4)
        n, k = rng.randrange(1, 20), rng.randrange(1, 20)
        zfit = [rand_cell(rng, n) for _ in range(nc)]
        if rng.random() < 0.1:
            zfit[0] = [0.0] * n
        z = [rand_cell(rng, k) for _ in range(nc if rng.random() < 0.95 else nc + 1)]
        cases.append({"op": "adapt", "t": rng.choice(["minmax", "maxabs"]), "zfit": zfit, "z": z, "i0": rng.choice([0, 7])})
    return cases


OPS["adapt"] = dict(line=adapt_line, real=adapt_real, oracle=adapt_oracle, gen=adapt_gen)


# ----------------------------------------------------------------------------- SlopeTransformer
def _exact_bounds(n, k):
    return [((j * n) // k, ((j + 1) * n) // k) for j in range(k)]


def slope_in_domain(c):
    k = c["k"]
    if not (isinstance(k, int) and not isinstance(k, bool)) or k < 1:
        return True
    # a non-constant segment whose covariance with time is EXACTLY zero: the code's `if r == 0` is then decided by
    # float rounding (gradient 0 or about +-1e16, the line being vertical/undetermined); outside exact arithmetic
    for inst in c["x"]:
        for s in inst:
            if k > len(s):
                continue
            for a, b in _exact_bounds(len(s), k):
                seg = [Fr(v) for v in s[a:b]]
                if len(set(seg)) > 1:
                    mx = Fr(len(seg) + 1, 2)
                    if sum((Fr(i + 1) - mx) * v for i, v in enumerate(seg)) == 0:
                        return False
    return True


def slope_line(c):
    if not slope_in_domain(c):
        return None      # a segment whose `r == 0` test is decided by float rounding: not modelled
    return "C14 slopet %s %s" % (iparam(c["k"]), show_panel(c["x"]))


def slope_real(c):
    def f():
        r = nested_out(fit_transform(c))
        c["_m"] = r
        # (sign m, m - 1/m) per gradient: exact rationals on the model side (2w/r), see Model/C14Slope.lean
        return show_panel([[[u for m in cell for u in ((0.0, 0.0) if m == 0 else (math.copysign(1.0, m), m - 1.0 / m))]
                            for cell in inst] for inst in r])
    c["_m"] = None
    return guarded(f)


CT["slopet"] = (_cls("sktime.transformations.panel.slope", "SlopeTransformer"), lambda c: dict(num_intervals=c["k"]),
                _panel_arg("x"), _panel_arg("x"))


def slope_oracle(c, out):
    """SlopeTransformer: each series is split into num_intervals consecutive segments and each segment is replaced by
    the gradient of its total-least-squares line (the line through the centroid minimising the sum of squared
    perpendicular distances, time axis 1..len): exactly num_intervals gradients per series; rows / columns in place"""
    x = fr_panel(c["x"])
    k = c["k"]
    ncol = len(x[0])
    if not isinstance(k, int) or isinstance(k, bool) or k < 1:
        return []
    if any(len({len(inst[j]) for inst in x}) != 1 for j in range(ncol)) or any(len(s) < k for inst in x for s in inst):
        return []
    if out.startswith("E:"):
        return [("slopet:valid-rejected", out)]
    ms = c.get("_m")
    if ms is None or [len(i) for i in ms] != [len(i) for i in x]:
        return [("slopet:rows-or-columns", out)]
    for inst, minst in zip(x, ms):
        for s, mcell in zip(inst, minst):
            n = len(s)
            if len(mcell) != k:
                return [("slopet:number-of-gradients", "%d gradients for num_intervals=%d (series length %d)" % (len(mcell), k, n))]
            for (a, b), m in zip(_exact_bounds(n, k), mcell):
                seg = s[a:b]
                L = len(seg)
                if L == 0:
                    continue
                mx, my = Fr(L + 1, 2), sum(seg) / L
                dx = [Fr(i + 1) - mx for i in range(L)]
                dy = [v - my for v in seg]
                sxx, syy, sxy = sum(u * u for u in dx), sum(u * u for u in dy), sum(u * v for u, v in zip(dx, dy))
                if sxy == 0:
                    continue      # no unique finite-gradient line (the code returns 0 there)
                # textbook: the minimum of the perpendicular squared distance is the smaller eigenvalue of the scatter matrix
                lam = (float(sxx + syy) - math.sqrt(float((sxx - syy) ** 2 + 4 * sxy * sxy))) / 2
                mm = Fr(m)
                g = float(sum((v - mm * u) ** 2 for u, v in zip(dx, dy)) / (1 + mm * mm))
                scale = max(1.0, float(sxx + syy))
                if not (abs(g - lam) <= 1e-7 * scale) or (m > 0) != (sxy > 0):
                    return [("slopet:gradient-not-total-least-squares",
                             "segment %s: gradient %r has perpendicular squared distance %.9g, the total-least-squares line %.9g"
                             % (show_cell(seg), m, g, lam))]
    return []


def slope_gen(tier, rng):
    cases = []

    def series(n):
        """value scale is a dimension: shallow / steep ramps, raw readings in the hundreds, noisy, mixed in one panel"""
        kind = rng.choice(["small", "ramp", "ramp", "hundreds", "steps", "const"])
        if kind == "small":
            return rand_cell(rng, n)
        if kind == "ramp":
            sl = rng.choice([3.0, 10.0, -5.0, 0.25, -0.5, 1.0, 40.0])
            return [sl * i + rng.choice([0.0, 0.0, 0.5, -1.0]) * rng.randrange(0, 3) for i in range(n)]
        if kind == "hundreds":
            return [float(rng.randrange(100, 900)) + rng.choice([0.0, 0.5]) for _ in range(n)]
        if kind == "steps":
            return [float(rng.choice([0, 0, 50, -20])) + i * rng.choice([0.0, 2.0]) for i in range(n)]
        return [float(rng.randrange(-5, 6))] * n
    nmax = 12 if tier == "quick" else 24
    for n in range(1, nmax + 1):              # exhaustive in (length, num_intervals)
        for k in range(0, n + 2):
            cases.append({"op": "slopet", "kind": "S", "k": k, "x": [[series(n)]], "t0": 0})
    for _ in range(120 if tier == "quick" else 1600):
        ni, nc = rng.randrange(1, 4), rng.randrange(1, 3)
        lens = [rng.randrange(2, 33) for _ in range(nc)]
        if rng.random() < 0.6:
            lens = [lens[0]] * nc
        x = [[series(n) for n in lens] for _ in range(ni)]
        if rng.random() < 0.05 and ni > 1:
            x[1][0] = x[1][0] + [1.0]
        kind = rng.choice(["S", "S", "A", "N"])
        if kind == "N" and not is_rect(x):
            kind = "S"
        k = rng.choice([8, 4, 2, 1, rng.randrange(1, lens[0] + 1), rng.randrange(1, lens[0] + 1), lens[0], lens[0] + 1, 0, 2.0])
        cases.append({"op": "slopet", "kind": kind, "k": k, "x": x, "t0": rng.choice([0, 0, 3])})
    return cases


OPS["slopet"] = dict(line=slope_line, real=slope_real, oracle=slope_oracle, gen=slope_gen)


# ----------------------------------------------------------------------------- runner interface
RULE = ("per transformer: fixed-order exhaustive small scope over shapes / lengths / integer parameters (quick: seed-rotated "
        "stratified slice, thorough: all) + structured random larger panels + malformed configurations; values are random "
        "dyadic rationals; about a third of the cases run on a re-used transformer object (constructed and fitted with another case's parameters and data, then set_params + fit); column labels of every data-frame input varied over default names, named variables in any order, reversed / shuffled default names, integer labels, and more than ten columns (dim_10 sorts before dim_2); cell dtype varied over float64 / int64 / int32 / float32 / mixed columns, pad fill values over integer, negative, fractional, NaN. distinct by driver line; non-trivial = the real code returned a result (no error) with at least one value")
LEVEL_TEXT = "Lean 4 theorems (model = independent spec, lengths, order) about executable models of the closed-form transformers; models tied to /repo by a differential correspondence check and a property oracle on every run."
LEVEL_NOTE = "Trusted: Lean kernel; the models' faithfulness to the extent the correspondence exercises it; harness + compat layer; numpy/pandas/scipy/statsmodels/sklearn as black boxes."
TECHNIQUE = "Lean 4 machine-checked proof over executable models + differential correspondence with the real code + oracle from the property text"


def is_exhaustive(tier):
    return tier == "thorough"


def _to_int_values(v):
    if isinstance(v, list):
        return [_to_int_values(u) for u in v]
    if isinstance(v, float):
        return float(int(round(v)))
    return v


def vary_dtype(rng, c):
    """cell / series dtype is a dimension of EVERY transformer's input space: float64 (most cases), int64, int32
    (integer-valued data: counts, codes), float32 (value-moving transformers only), per-column mixed int/float.
    The values a transformer must return do not depend on the dtype."""
    op = c["op"]
    r = rng.random()
    if r < 0.5:
        dtype = "f8"
    elif r < 0.72:
        dtype = "i8"
    elif r < 0.82:
        dtype = "i4"
    elif r < 0.92:
        dtype = "mix" if op in PANEL_OPS or op == "adapt" else "i8"
    else:
        dtype = "f4" if op in F4_OPS else "f8"
    if op == "impute" and any(v is None for v in c["z"]):
        dtype = "f8"                       # NaN needs a float series
    if op == "imputef":
        dtype = "f8" if any(v is None for col in c["zs"] for v in col) or dtype == "mix" else dtype
    if dtype in ("i8", "i4", "mix"):
        same = "x" in c and c.get("xfit") is c["x"]
        for key in ("x", "xfit", "z", "zfit", "zs"):
            if key in c:
                c[key] = _to_int_values(c[key])
        if same:
            c["xfit"] = c["x"]
        if op in ("impute", "imputef") and isinstance(c.get("mv"), float) and c["mv"] != int(c["mv"]):
            c["mv"] = float(int(c["mv"]))
    c["dtype"] = dtype
    return c


LABEL_POOL = ["temp", "hum", "wind", "b", "a", "Z", "x10", "x2", "y", "dim_1", "dim_0", "var", "0", "acc_z", "acc_x", "B", "m"]
MULTI_COLUMN_OPS = ("pad", "trunc", "tab", "concat", "paa", "interp", "rowprim", "rowser", "slopet")


def _ncols(c):
    if c["op"] in PANEL_OPS:
        return len(c["x"][0]) if c.get("kind") != "N" and c["x"] and isinstance(c["x"][0], list) else 0
    if c["op"] == "imputef":
        return len(c["zs"])
    if c["op"] == "adapt":
        return len(c["z"]) if len(c["z"]) == len(c["zfit"]) and len(c["z"]) > 1 else 0
    return 0


def label_scheme(rng, nc, scheme=None):
    """column labels are a dimension of EVERY transformer that takes a data frame: named variables in any order,
    default names in reverse order, integer labels (descending / arbitrary), digits as strings.  The values a
    transformer must return depend on the POSITION of a column, never on its label."""
    scheme = scheme or rng.choice(["named", "named", "rev", "int-desc", "int-any", "shuffled-default"])
    if scheme == "named":
        return rng.sample(LABEL_POOL, nc) if nc <= len(LABEL_POOL) else ["v%d" % (nc - j) for j in range(nc)]
    if scheme == "rev":
        return ["dim_%d" % (nc - 1 - j) for j in range(nc)]
    if scheme == "int-desc":
        return [nc - 1 - j for j in range(nc)]
    if scheme == "int-any":
        return rng.sample(range(0, 3 * nc + 2), nc)
    names = ["dim_%d" % j for j in range(nc)]
    rng.shuffle(names)
    return names


def vary_names(rng, c, share=0.45):
    nc = _ncols(c)
    if nc >= 1 and "names" not in c and rng.random() < share:
        c["names"] = label_scheme(rng, nc)
    return c


def wide_cases(tier, rng):
    """panels with more than ten columns (default names dim_0 ... dim_10 ...: not in lexicographic order) and wide
    panels with other labels, for every transformer that takes several columns"""
    cases = []
    for _ in range(5 if tier == "quick" else 60):
        for op in MULTI_COLUMN_OPS:
            nc = rng.randrange(11, 14)
            ni = rng.randrange(1, 4)
            n = rng.randrange(2, 5)
            equal = op not in ("pad", "trunc", "interp") or rng.random() < 0.5
            x = rand_panel(rng, [[n if equal else rng.randrange(2, 6) for _ in range(nc)] for _ in range(ni)])
            if op in ("tab", "concat", "paa", "slopet", "rowprim", "rowser") and not equal:
                continue
            c = {"op": op, "kind": rng.choice(["S", "S", "A"]), "x": x, "t0": rng.choice([0, 0, 3])}
            if op == "pad":
                c.update(pad_length=rng.choice([None, 7]), fill=rng.choice(FILLS), xfit=x)
            elif op == "trunc":
                c.update(lower=rng.choice([None, 1]), upper=rng.choice([None, 2]), xfit=x)
            elif op in ("paa", "slopet"):
                c.update(k=rng.randrange(1, n + 1))
            elif op == "interp":
                c.update(length=rng.randrange(2, 8))
            elif op == "rowser":
                c.update(fn=rng.choice(["cumsum", "rev", "head2"]))
            c = vary_dtype(rng, c)
            if rng.random() < 0.4:
                c["names"] = label_scheme(rng, nc)
            cases.append(c)
    # frames of series: imputation and the tabular adaptor column by column, many / unsorted columns
    for _ in range(4 if tier == "quick" else 40):
        nc, n = rng.randrange(11, 14), rng.randrange(2, 6)
        zs = [[None if rng.random() < 0.3 else float(rng.randrange(-4, 9)) for _ in range(n)] for _ in range(nc)]
        for col in zs:
            if all(v is None for v in col):
                col[0] = 1.0
        m = rng.choice([m for m in METHODS if m != "constant"])
        cases.append(vary_dtype(rng, {"op": "imputef", "method": m, "value": None, "mv": None, "zs": zs, "i0": 0}))
        cases.append(vary_dtype(rng, {"op": "adapt", "t": rng.choice(["minmax", "maxabs"]), "zfit": [rand_cell(rng, n) for _ in range(nc)],
                                      "z": [rand_cell(rng, n + 1) for _ in range(nc)], "i0": 0}))
    return cases


def _valid_ctor_params(c):
    """parameters the constructor itself would reject cannot be reached through set_params the same way"""
    if c["op"] == "interp":
        L = c["length"]
        return isinstance(L, int) and not isinstance(L, bool) and L >= 1
    return True


def add_history(rng, cases, share=0.35):
    """object history for every transformer: `hist` = another generated case of the same transformer; the object
    is constructed and used as in that case, then set_params(<this case>) + fit(<this case's data>) (see `obtain`)"""
    by_op = {}
    for c in cases:
        by_op.setdefault(c["op"], []).append(c)
    for c in cases:
        pool = by_op[c["op"]]
        if rng.random() < share and len(pool) > 1 and _valid_ctor_params(c):
            h = pool[rng.randrange(len(pool))]
            if h is not c:
                c["hist"] = {k: v for k, v in h.items() if k not in ("hist", "ivs_fitted", "_m")}
    return cases


def history_cases(tier, rng):
    """aimed at state kept from an earlier fit: same object fitted on a panel with other lengths / other parameters"""
    cases = []
    for _ in range(40 if tier == "quick" else 600):
        nc = rng.randrange(1, 3)
        a, b = rng.randrange(1, 9), rng.randrange(1, 9)
        xa = rand_panel(rng, [[rng.randrange(a, a + 4) for _ in range(nc)] for _ in range(rng.randrange(1, 4))])
        xb = rand_panel(rng, [[rng.randrange(b, b + 4) for _ in range(nc)] for _ in range(rng.randrange(1, 4))])
        ma = min(len(s) for i in xa for s in i)
        mb = min(len(s) for i in xb for s in i)
        lo_h, lo_c = rng.choice([None, None, rng.randrange(0, ma + 1)]), rng.choice([None, None, rng.randrange(0, mb + 1)])
        cases.append({"op": "trunc", "kind": "S", "lower": lo_c, "upper": None, "xfit": xb, "x": xb, "t0": 0,
                      "hist": {"op": "trunc", "kind": "S", "lower": lo_h, "upper": None, "xfit": xa, "x": xa, "t0": 0}})
        pl_h, pl_c = rng.choice([None, None, ma + 5]), rng.choice([None, None, mb + 5 + rng.randrange(0, 3)])
        cases.append({"op": "pad", "kind": "S", "pad_length": pl_c, "fill": rng.choice(FILLS), "xfit": xb, "x": xb, "t0": 0,
                      "hist": {"op": "pad", "kind": "S", "pad_length": pl_h, "fill": 0.0, "xfit": xa, "x": xa, "t0": 0}})
        n1, n2 = rng.randrange(2, 13), rng.randrange(2, 13)
        u1, u2 = rand_panel(rng, [[n1]] * 2), rand_panel(rng, [[n2]] * 2)
        cases.append({"op": "iseg", "kind": "S", "intervals": rng.randrange(1, n2 // 2 + 1), "xfit": u2, "x": u2, "t0": 0,
                      "hist": {"op": "iseg", "kind": "S", "intervals": rng.randrange(1, n1 // 2 + 1), "xfit": u1, "x": u1, "t0": 0}})
    return cases


def gen_cases(tier, rng):
    cases = []
    for op in OPS:
        cases.extend(vary_dtype(rng, c) for c in OPS[op]["gen"](tier, rng))
    cases.extend(wide_cases(tier, rng))
    for c in cases:
        vary_names(rng, c)
    add_history(rng, cases)
    cases.extend(history_cases(tier, rng))
    return cases


def to_line(c):
    return OPS[c["op"]]["line"](c)


def run_real(c):
    return OPS[c["op"]]["real"](c)


def oracle(c, out):
    fails = OPS[c["op"]]["oracle"](c, out) or []
    if c.get("hist"):
        fails = [(k, m + "  [re-used object: built and used as in `hist`, then set_params(this case) + fit; a fresh object must give the same]")
                 for k, m in fails]
    return fails


def nontrivial(c, out):
    return not out.startswith("E:") and any(ch.isdigit() for ch in out)


def features(c, out):
    f = ["op=" + c["op"]]
    if "kind" in c:
        f.append(c["op"] + ":kind=" + c["kind"])
    f.append(c["op"] + ":dtype=" + c.get("dtype", "f8"))
    f.append(c["op"] + (":history" if c.get("hist") else ":fresh"))
    if _ncols(c):
        nm = c.get("names")
        f.append(c["op"] + ":labels=" + ("default" if not nm else "int" if isinstance(nm[0], int) else
                                         "sorted" if nm == sorted(nm) else "unsorted") + (",>10cols" if _ncols(c) > 10 else ""))
    if c["op"] == "pad":
        f.append("pad:fill=" + ("nan" if c["fill"] is None else "int" if c["fill"] == int(c["fill"]) else "frac"))
    f.append(c["op"] + (":" + out if out.startswith("E:") else ":ok"))
    if "x" in c and c["x"] and isinstance(c["x"][0], list):
        f.append("%s:inst=%d,cols=%d" % (c["op"], len(c["x"]), len(c["x"][0])))
    return f


def shrink(c):
    """smaller cases: drop instances, drop columns, shorten cells, simplify numbers"""
    if c.get("hist"):
        yield {k: v for k, v in c.items() if k != "hist"}
    if c.get("dtype") in ("mix", "i4"):
        yield dict(c, dtype="i8")
    if c.get("names"):
        yield {k: v for k, v in c.items() if k != "names"}
    for key in ("x", "xfit"):
        p = c.get(key)
        if not isinstance(p, list) or not p or not isinstance(p[0], list) or not p[0] or not isinstance(p[0][0], list):
            continue
        if len(p) > 1:
            for i in range(len(p)):
                yield dict(c, **{key: p[:i] + p[i + 1:]})
        if len(p[0]) > 1:
            for j in range(len(p[0])):
                d = dict(c, **{key: [inst[:j] + inst[j + 1:] for inst in p]})
                if key == "x" and c.get("names") and c.get("xfit") is None:
                    d["names"] = c["names"][:j] + c["names"][j + 1:]
                yield d
        for i in range(len(p)):
            for j in range(len(p[i])):
                if len(p[i][j]) > 1:
                    q = [[list(cell) for cell in inst] for inst in p]
                    q[i][j] = q[i][j][:-1]
                    yield dict(c, **{key: q})
        if any(v != round(v) or abs(v) > 3 for inst in p for cell in inst for v in cell):
            yield dict(c, **{key: [[[float(int(v) % 4) for v in cell] for cell in inst] for inst in p]})
    if "z" in c and isinstance(c["z"], list) and len(c["z"]) > 1:
        for i in range(len(c["z"])):
            yield dict(c, z=c["z"][:i] + c["z"][i + 1:])
