"""C14 correspondence + oracle: closed-form transformers compute exactly the function they document.

One case = one transformer configuration + input:  {"op": <name>, ...op specific fields...}
Panels are JSON lists  instances x columns x values  (dyadic floats); "kind" says how the cells are
handed to the real code: "S" nested DataFrame with pd.Series cells, "A" nested DataFrame with
np.ndarray cells, "N" 3-D numpy array (equal lengths only).

Per op there is a small record (`OPS[op]`) with
    line(case)        -> driver line (Lean model)
    real(case)        -> canonical observation of /repo's real code
    oracle(case, out) -> the property text for that transformer, evaluated on the observation
    gen(tier, rng)    -> cases: exhaustive small scope (fixed order; quick = seeded slice),
                         structured random, malformed
The oracle is written from the property statement (Fractions, textbook formulas), never from the model.
"""
import itertools, math, re
from fractions import Fraction as Fr
import numpy as np, pandas as pd
from common import canon_err, show_rat, close, dyadic

PROP = "C14"
LEAN_MODULE = "SkVerif.Props.C14"
OBLIGATIONS = []          # filled in below (one list per transformer family)
TRUSTED = []
ASSUMPTIONS = []
OPS = {}


# ----------------------------------------------------------------------------- helpers
def show_cell(vals):
    vals = list(vals)
    return "e" if not vals else ",".join(show_rat(float(v)) for v in vals)


def show_panel(p):
    p = list(p)
    return "0" if not p else "|".join(";".join(show_cell(c) for c in inst) for inst in p)


def show_table(t):
    t = list(t)
    return "0" if not t else "|".join(show_cell(r) for r in t)


def oint(v):
    return "none" if v is None else str(int(v))


def parse_cell(s):
    return [] if s == "e" else [None if x == "nan" else Fr(x) for x in s.split(",")]


def parse_panel(s):
    return [] if s == "0" else [[parse_cell(c) for c in inst.split(";")] for inst in s.split("|")]


def parse_table(s):
    return [] if s == "0" else [parse_cell(r) for r in s.split("|")]


def build(panel, kind, t0=0, names=None):
    """the container handed to the real code"""
    if kind == "N":
        return np.array(panel, dtype="float64")
    ncol = len(panel[0]) if panel else 0
    names = names or ["dim_%d" % j for j in range(ncol)]
    data = {}
    for j in range(ncol):
        col = []
        for inst in panel:
            v = np.array(inst[j], dtype="float64")
            col.append(pd.Series(v, index=pd.RangeIndex(t0, t0 + len(v))) if kind == "S" else v)
        data[names[j]] = pd.Series(col, dtype=object)
    return pd.DataFrame(data) if ncol else pd.DataFrame(index=range(len(panel)))


def nested_out(df):
    """nested DataFrame -> list of instances of cells (row order as returned)"""
    out = []
    for i in range(df.shape[0]):
        out.append([np.asarray(df.iloc[i, j], dtype="float64").ravel().tolist() for j in range(df.shape[1])])
    return out


def guarded(f):
    try:
        return f()
    except Exception as e:  # canonical error kind
        return canon_err(e)


_SPLIT = re.compile(r"([|;, =])")


def compare(real, model):
    """same structure; numbers within 1e-9 relative (float vs exact rational), everything else equal"""
    if real == model:
        return True
    a, b = _SPLIT.split(real), _SPLIT.split(model)
    if len(a) != len(b):
        return False
    for x, y in zip(a, b):
        if x == y:
            continue
        try:
            fx = None if x == "nan" else Fr(x)
            fy = None if y == "nan" else Fr(y)
        except (ValueError, ZeroDivisionError):
            return False
        if fx is None or fy is None:
            return False
        if not close(float(fx), fy):
            return False
    return True


def same_panel(got, want):
    """observed panel (Fractions) equals expected panel (Fractions) up to float tolerance"""
    if len(got) != len(want):
        return False
    for gi, wi in zip(got, want):
        if len(gi) != len(wi):
            return False
        for gc, wc in zip(gi, wi):
            if len(gc) != len(wc):
                return False
            for g, w in zip(gc, wc):
                if (g is None) != (w is None):
                    return False
                if g is not None and not close(float(g), w):
                    return False
    return True


def same_table(got, want):
    return same_panel([got], [want])


def fr_panel(p):
    return [[[Fr(v) for v in c] for c in inst] for inst in p]


def rand_cell(rng, n, small=False):
    return [float(rng.randrange(-9, 10)) if small else dyadic(rng, -16, 16, 2) for _ in range(n)]


def rand_panel(rng, lens):
    """lens: instances x columns lengths"""
    return [[rand_cell(rng, n) for n in inst] for inst in lens]


def slice_quick(items, tier, rng, keep):
    """quick tier: a seed-rotated stratified slice of a fixed-order enumeration"""
    if tier == "thorough" or len(items) <= keep:
        return items
    step = len(items) / float(keep)
    off = rng.random() * step
    return [items[min(len(items) - 1, int(off + i * step))] for i in range(keep)]


def is_rect(panel):
    return len({len(c) for inst in panel for c in inst}) <= 1


# ----------------------------------------------------------------------------- padding
def pad_line(c):
    return "C14 pad %s %s %s %s %s" % (c["kind"], oint(c["pad_length"]), show_rat(c["fill"]),
                                        show_panel(c["xfit"]), show_panel(c["x"]))


def pad_real(c):
    from sktime.transformations.panel.padder import PaddingTransformer

    def f():
        t = PaddingTransformer(pad_length=c["pad_length"], fill_value=c["fill"])
        t.fit(build(c["xfit"], c["kind"], c.get("t0", 0)))
        return show_panel(nested_out(t.transform(build(c["x"], c["kind"], c.get("t0", 0)))))
    return guarded(f)


def pad_oracle(c, out):
    """padding to the requested or longest length with the fill value; one row per instance in
    input order; exactly the requested length even for unequal-length panels"""
    x, xfit = fr_panel(c["x"]), fr_panel(c["xfit"])
    L = c["pad_length"] if c["pad_length"] is not None else max(len(s) for inst in xfit for s in inst)
    longest = max(len(s) for inst in x for s in inst)
    if longest > L:
        return []          # cannot be padded to L: the statement demands nothing
    want = [[s + [Fr(c["fill"])] * (L - len(s)) for s in inst] for inst in x]
    if out.startswith("E:"):
        if c["kind"] == "A":
            return [("pad:array-cells-rejected", "valid nested DataFrame with ndarray cells rejected: " + out)]
        return [("pad:valid-rejected", "paddable panel rejected: " + out)]
    got = parse_panel(out)
    if [len(i) for i in got] != [len(i) for i in want]:
        return [("pad:rows-or-columns", "shape %r" % [len(i) for i in got])]
    if any(len(s) != L for inst in got for s in inst):
        return [("pad:length", "lengths %r, requested %d" % ([[len(s) for s in i] for i in got], L))]
    if not same_panel(got, want):
        return [("pad:values", "got %s want %s" % (out, show_panel(want)))]
    return []


def pad_gen(tier, rng):
    cases = []
    # exhaustive small scope: shapes (instances, columns) x cell lengths 1..3 x pad choice x fit choice
    scope = []
    for ni, nc in ((1, 1), (2, 1), (1, 2), (2, 2), (3, 1)):
        for lens in itertools.product(range(1, 4), repeat=ni * nc):
            shape = [list(lens[i * nc:(i + 1) * nc]) for i in range(ni)]
            for pl in ("none", -1, 0, 1, 3):       # relative to the longest series
                for fit in ("same", "longer", "shorter"):
                    scope.append((shape, pl, fit))
    for shape, pl, fit in slice_quick(scope, tier, rng, 260):
        x = rand_panel(rng, shape)
        m = max(max(i) for i in shape)
        xfit = x if fit == "same" else rand_panel(rng, [[max(1, n + (1 if fit == "longer" else -1)) for n in i] for i in shape])
        kind = rng.choice(["S", "S", "S", "A", "N"])
        if kind == "N" and not (is_rect(x) and is_rect(xfit)):
            kind = "S"
        cases.append({"op": "pad", "kind": kind, "pad_length": None if pl == "none" else m + pl,
                      "fill": rng.choice([0.0, 0.0, -1.5, 7.0, 0.25]), "xfit": xfit, "x": x, "t0": rng.choice([0, 0, 4])})
    # structured random: larger
    for _ in range(60 if tier == "quick" else 900):
        ni, nc = rng.randrange(1, 5), rng.randrange(1, 4)
        equal = rng.random() < 0.3
        n0 = rng.randrange(1, 17)
        shape = [[n0 if equal else rng.randrange(1, 17) for _ in range(nc)] for _ in range(ni)]
        x = rand_panel(rng, shape)
        m = max(max(i) for i in shape)
        pl = rng.choice([None, None, m, m + rng.randrange(0, 6), m + rng.randrange(0, 30), m - 1, 0, -2])
        xfit = x if rng.random() < 0.6 else rand_panel(rng, [[rng.randrange(1, 20) for _ in range(nc)] for _ in range(rng.randrange(1, 4))])
        kind = rng.choice(["S", "S", "S", "A", "N"])
        if kind == "N" and not (is_rect(x) and is_rect(xfit)):
            kind = "S"
        cases.append({"op": "pad", "kind": kind, "pad_length": pl, "fill": dyadic(rng, -8, 8, 2), "xfit": xfit, "x": x, "t0": 0})
    return cases


OPS["pad"] = dict(line=pad_line, real=pad_real, oracle=pad_oracle, gen=pad_gen)


# ----------------------------------------------------------------------------- truncation
def trunc_line(c):
    return "C14 trunc %s %s %s %s %s" % (c["kind"], oint(c["lower"]), oint(c["upper"]),
                                          show_panel(c["xfit"]), show_panel(c["x"]))


def trunc_real(c):
    from sktime.transformations.panel.truncation import TruncationTransformer

    def f():
        t = TruncationTransformer(lower=c["lower"], upper=c["upper"])
        t.fit(build(c["xfit"], c["kind"], c.get("t0", 0)))
        return show_panel(nested_out(t.transform(build(c["x"], c["kind"], c.get("t0", 0)))))
    return guarded(f)


def trunc_oracle(c, out):
    """truncation to the shortest length or requested range; exactly the requested lengths even for
    unequal-length panels; rows in input order"""
    x, xfit = fr_panel(c["x"]), fr_panel(c["xfit"])
    shortest = min(len(s) for inst in x for s in inst)
    lo = c["lower"] if c["lower"] is not None else min(len(s) for inst in xfit for s in inst)
    if c["upper"] is None:
        a, b = 0, lo
    else:
        a, b = lo, c["upper"]
    if not (0 <= a <= b <= shortest):
        return []        # the requested range does not exist in every series: nothing demanded
    want = [[s[a:b] for s in inst] for inst in x]
    if out.startswith("E:"):
        if c["kind"] == "A":
            return [("trunc:array-cells-rejected", "valid nested DataFrame with ndarray cells rejected: " + out)]
        return [("trunc:valid-rejected", "range [%d,%d) exists in every series but input rejected: %s" % (a, b, out))]
    got = parse_panel(out)
    if [len(i) for i in got] != [len(i) for i in want]:
        return [("trunc:rows-or-columns", "shape %r" % [len(i) for i in got])]
    if any(len(s) != b - a for inst in got for s in inst):
        return [("trunc:length", "lengths %r, requested %d" % ([[len(s) for s in i] for i in got], b - a))]
    if not same_panel(got, want):
        return [("trunc:values", "got %s want %s" % (out, show_panel(want)))]
    return []


def trunc_gen(tier, rng):
    cases = []
    scope = []
    for ni, nc in ((1, 1), (2, 1), (1, 2), (2, 2)):
        for lens in itertools.product(range(1, 5), repeat=ni * nc):
            shape = [list(lens[i * nc:(i + 1) * nc]) for i in range(ni)]
            m = min(lens)
            bounds = [(None, None)] + [(lo, None) for lo in range(-1, m + 2)] + \
                     [(lo, up) for lo in range(-1, m + 1) for up in range(lo - 1, m + 2)] + [(None, 1), (None, m)]
            for lo, up in bounds:
                scope.append((shape, lo, up))
    for shape, lo, up in slice_quick(scope, tier, rng, 320):
        x = rand_panel(rng, shape)
        fit = rng.choice(["same", "same", "longer", "shorter"])
        xfit = x if fit == "same" else rand_panel(rng, [[max(1, n + (1 if fit == "longer" else -1)) for n in i] for i in shape])
        kind = rng.choice(["S", "S", "S", "A", "N"])
        if kind == "N" and not (is_rect(x) and is_rect(xfit)):
            kind = "S"
        cases.append({"op": "trunc", "kind": kind, "lower": lo, "upper": up, "xfit": xfit, "x": x, "t0": rng.choice([0, 0, 3])})
    for _ in range(60 if tier == "quick" else 900):
        ni, nc = rng.randrange(1, 5), rng.randrange(1, 4)
        equal = rng.random() < 0.3
        n0 = rng.randrange(1, 17)
        shape = [[n0 if equal else rng.randrange(1, 17) for _ in range(nc)] for _ in range(ni)]
        x = rand_panel(rng, shape)
        m = min(min(i) for i in shape)
        lo = rng.choice([None, None, rng.randrange(0, m + 1), rng.randrange(0, m + 1), m, m + 1, -rng.randrange(1, 4)])
        up = rng.choice([None, None, rng.randrange(0, m + 2), m, m + rng.randrange(1, 4)])
        xfit = x if rng.random() < 0.6 else rand_panel(rng, [[rng.randrange(1, 20) for _ in range(nc)] for _ in range(rng.randrange(1, 4))])
        kind = rng.choice(["S", "S", "S", "A", "N"])
        if kind == "N" and not (is_rect(x) and is_rect(xfit)):
            kind = "S"
        cases.append({"op": "trunc", "kind": kind, "lower": lo, "upper": up, "xfit": xfit, "x": x, "t0": 0})
    return cases


OPS["trunc"] = dict(line=trunc_line, real=trunc_real, oracle=trunc_oracle, gen=trunc_gen)


# ----------------------------------------------------------------------------- tabularizer / column concatenator
def tab_line(c):
    return "C14 %s %s" % (c["op"], show_panel(c["x"]))


def tab_real(c):
    from sktime.transformations.panel.reduce import Tabularizer
    from sktime.transformations.panel.compose import ColumnConcatenator

    def f():
        X = build(c["x"], c["kind"], c.get("t0", 0))
        if c["op"] == "tab":
            r = Tabularizer().fit(X).transform(X)
            return show_table(np.asarray(r, dtype="float64").tolist())
        r = ColumnConcatenator().fit(X).transform(X)
        return show_panel(nested_out(r))
    return guarded(f)


def tab_oracle(c, out):
    """tabularisation and column concatenation in column-then-time order; one row per instance in
    input order"""
    x = fr_panel(c["x"])
    op = c["op"]
    ncol = len(x[0])
    if any(len({len(inst[j]) for inst in x}) != 1 for j in range(ncol)):
        return []     # a column with unequal-length series has no tabular form: nothing demanded
    rows = [[v for s in inst for v in s] for inst in x]
    if out.startswith("E:"):
        return [(op + ":valid-rejected", "equal-length columns rejected: " + out)]
    got = parse_table(out) if op == "tab" else [i[0] if len(i) == 1 else None for i in parse_panel(out)]
    if len(got) != len(rows) or any(g is None for g in got):
        return [(op + ":rows-or-columns", "got %s" % out)]
    if not same_table(got, rows):
        return [(op + ":values-order", "got %s want %s" % (out, show_table(rows)))]
    return []


def tab_gen(tier, rng):
    cases = []
    scope = []
    for ni in (1, 2, 3):
        for nc in (1, 2, 3):
            for lens in itertools.product(range(1, 4), repeat=nc):
                for ragged in (False, True):
                    scope.append((ni, list(lens), ragged))
    for op in ("tab", "concat"):
        for ni, lens, ragged in slice_quick(scope, tier, rng, 120):
            shape = [list(lens) for _ in range(ni)]
            if ragged and ni > 1:
                shape[rng.randrange(1, ni)][rng.randrange(len(lens))] += 1
            x = rand_panel(rng, shape)
            kind = rng.choice(["S", "S", "A", "N"])
            if kind == "N" and not is_rect(x):
                kind = "S"
            cases.append({"op": op, "kind": kind, "x": x, "t0": rng.choice([0, 0, 2])})
        for _ in range(40 if tier == "quick" else 600):
            ni, nc = rng.randrange(1, 6), rng.randrange(1, 5)
            lens = [rng.randrange(1, 17) for _ in range(nc)]
            if rng.random() < 0.3:
                lens = [lens[0]] * nc
            shape = [list(lens) for _ in range(ni)]
            if rng.random() < 0.1 and ni > 1:
                shape[rng.randrange(1, ni)][rng.randrange(nc)] += rng.choice([-1, 1, 2])
                shape = [[max(1, n) for n in i] for i in shape]
            x = rand_panel(rng, shape)
            kind = rng.choice(["S", "S", "A", "N"])
            if kind == "N" and not is_rect(x):
                kind = "S"
            cases.append({"op": op, "kind": kind, "x": x, "t0": 0})
    return cases


OPS["tab"] = dict(line=tab_line, real=tab_real, oracle=tab_oracle, gen=tab_gen)
OPS["concat"] = dict(line=tab_line, real=tab_real, oracle=tab_oracle, gen=lambda tier, rng: [])


# ----------------------------------------------------------------------------- runner interface
RULE = ("per transformer: fixed-order exhaustive small scope over shapes / lengths / integer parameters (quick: seed-rotated "
        "stratified slice, thorough: all) + structured random larger panels + malformed configurations; values are random "
        "dyadic rationals. distinct by driver line; non-trivial = the real code returned a result (no error) with at least one value")
LEVEL_TEXT = "Lean 4 theorems (model = independent spec, lengths, order) about executable models of the closed-form transformers; models tied to /repo by a differential correspondence check and a property oracle on every run."
LEVEL_NOTE = "Trusted: Lean kernel; the models' faithfulness to the extent the correspondence exercises it; harness + compat layer; numpy/pandas/scipy/statsmodels/sklearn as black boxes."
TECHNIQUE = "Lean 4 machine-checked proof over executable models + differential correspondence with the real code + oracle from the property text"


def is_exhaustive(tier):
    return tier == "thorough"


def gen_cases(tier, rng):
    cases = []
    for op in OPS:
        cases.extend(OPS[op]["gen"](tier, rng))
    return cases


def to_line(c):
    return OPS[c["op"]]["line"](c)


def run_real(c):
    return OPS[c["op"]]["real"](c)


def oracle(c, out):
    return OPS[c["op"]]["oracle"](c, out)


def nontrivial(c, out):
    return not out.startswith("E:") and any(ch.isdigit() for ch in out)


def features(c, out):
    f = ["op=" + c["op"]]
    if "kind" in c:
        f.append(c["op"] + ":kind=" + c["kind"])
    f.append(c["op"] + (":" + out if out.startswith("E:") else ":ok"))
    if "x" in c and c["x"] and isinstance(c["x"][0], list):
        f.append("%s:inst=%d,cols=%d" % (c["op"], len(c["x"]), len(c["x"][0])))
    return f


def shrink(c):
    """smaller cases: drop instances, drop columns, shorten cells, simplify numbers"""
    for key in ("x", "xfit"):
        p = c.get(key)
        if not isinstance(p, list) or not p or not isinstance(p[0], list) or not p[0] or not isinstance(p[0][0], list):
            continue
        if len(p) > 1:
            for i in range(len(p)):
                yield dict(c, **{key: p[:i] + p[i + 1:]})
        if len(p[0]) > 1:
            for j in range(len(p[0])):
                yield dict(c, **{key: [inst[:j] + inst[j + 1:] for inst in p]})
        for i in range(len(p)):
            for j in range(len(p[i])):
                if len(p[i][j]) > 1:
                    q = [[list(cell) for cell in inst] for inst in p]
                    q[i][j] = q[i][j][:-1]
                    yield dict(c, **{key: q})
        if any(v != round(v) or abs(v) > 3 for inst in p for cell in inst for v in cell):
            yield dict(c, **{key: [[[float(int(v) % 4) for v in cell] for cell in inst] for inst in p]})
    if "z" in c and isinstance(c["z"], list) and len(c["z"]) > 1:
        for i in range(len(c["z"])):
            yield dict(c, z=c["z"][:i] + c["z"][i + 1:])
