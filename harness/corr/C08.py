"""C08 correspondence + oracle: ForecastingGridSearchCV / ForecastingRandomizedSearchCV
(sktime/forecasting/model_selection/_tune.py).

case = {
  "fc":     base forecaster family: score | ttf | mux (score-controlled recording forecasters, plain / inside a
            TransformedTargetForecaster / inside a MultiplexForecaster) | naive | ttfnaive | muxreal (library forecasters)
  "search": "grid" | "rand";  "grid": [ {name: [values] | "~e" | "~s"}, ... ];  "n_iter", "rs", "rsmode" (rand only:
            random_state = the int rs | None with np.random.seed(rs) | RandomState(rs); for the last two the candidates are
            taken from the real run's rows as data and the oracle judges consistency)
  "cv":     {"k": "s"|"e", "fh": [...], "wl", "step", "iw", "sww"};  "n", "origin", "yseed"
  "metric": ctl (order-insensitive, reads the chosen score off the forecast) | mae | negmae | MAE | mape | none ;
            "gib": greater_is_better declared by the metric;  "strategy": refit|update
  "refit":  bool;  "fitfh": None | [...]
  "ops":    [["F"], ["p", fh|None], ["c"], ["u", k, up], ["s", k, fh, up], ["U", k, up]]   F = tuner.fit(y, fh=fitfh);
            u/s/U = update / update_predict_single / update_predict with the next k observations,
            up = update_params: true | false | null (left to the callee's default); optional trailing  shape, j :
            fresh | re (last j known observations re-stated + k new) | ov (same, known ones REVISED) |
            past (j revised observations ending before the cutoff) | empty   (see `batch`)
            ["m"] = probe of the series the (best) forecaster remembers
  "X":      absent/None | number of exogenous columns: tuner.fit(y, X, fh), evaluate(.., y, X, ..), update-type ops get the
            matching rows of X; the score-controlled forecaster's forecasts (hence CV scores) and the reduction forecaster
            (family `reduce`) depend on the X they were given;  ["x"] = probe of the exogenous data the (best) forecaster remembers
  grid values "#SF.a.b" | "#Sh.c" | "#N.strategy.window_length" | "#P.degree" are ESTIMATOR OBJECTS (whole-component
            replacement, `step=<estimator>`), possibly next to nested `step__param` names of the same component
  "tab":    {"a,b": [score per fold (float | None = NaN), ...]}   chosen scores of the score-controlled forecasters
}
The driver line carries, per distinct parameter set: the per-fold scores of an INDEPENDENT evaluate() run of a
forecaster constructed directly with those parameters, and the results of the same op sequence on such a
forecaster (fitted on all of y at every F / never fitted).  The model adds everything the tuner does.
"""
import itertools, json, random
import numpy as np, pandas as pd
from common import canon_err, show_ints, show_rat, show_bool, parse_rat, close

PROP = "C08"
LEAN_MODULE = "SkVerif.Props.C08"
OBLIGATIONS = [
    "SkVerif.C08.grid_enumerates_every_combination",
    "SkVerif.C08.grid_dict_items_kept",
    "SkVerif.C08.grid_candidate_count",
    "SkVerif.C08.grid_each_combination_once",
    "SkVerif.C08.grid_validation",
    "SkVerif.C08.same_splits_for_all_candidates",
    "SkVerif.C08.cv_row_eq_independent_evaluate",
    "SkVerif.C08.row_mean_is_arithmetic_mean",
    "SkVerif.C08.selection_follows_ranking_direction",
    "SkVerif.C08.best_is_min_for_loss",
    "SkVerif.C08.best_is_max_for_score",
    "SkVerif.C08.best_in_declared_direction",
    "SkVerif.C08.ties_first",
    "SkVerif.C08.best_params_index_score_consistent",
    "SkVerif.C08.fit_refits_best_on_all_data",
    "SkVerif.C08.tuner_call_forwarded_unchanged",
    "SkVerif.C08.refit_delegation_bisim",
    "SkVerif.C08.tuner_call_named",
    "SkVerif.C08.no_refit_raises_NotFitted",
    "SkVerif.C08.unfitted_tuner_raises_NotFitted",
    "SkVerif.C08.failed_fit_leaves_unfitted",
    "SkVerif.C08.replaced_component_receives_nested_params",
    "SkVerif.C08.nested_param_unknown_to_new_component_rejected",
]
TRUSTED = ["hand-written model SkVerif/Model/Tune.lean of _tune.py (candidate order, mean, rank, argmin, best_*, refit, guards, delegation)",
           "evaluate() is an interface here (per-fold scores of a candidate; modelled under C07): the line carries the scores of an independent real evaluate() run per parameter set",
           "the base forecaster is a parameter of the theorems; in the correspondence it is the table of results of directly constructed real forecasters",
           "sklearn ParameterGrid order is modelled; ParameterSampler output is taken as data; _check_param_grid is the compat emulation (modelled, not verified)",
           "pandas Series.rank(method='average') / argmin / DataFrame.mean(skipna) as documented (modelled)",
           "hand-written model SkVerif/Model/TuneSetParams.lean of sktime/base/_meta.py _set_params (component replacement, then own and nested "
           "parameters on the current components; structured keys), exercised by the `setp` correspondence cases; BaseEstimator.set_params of the components is an interface (valid names = constructor arguments)"]
ASSUMPTIONS = ["n_jobs=None (sequential backend): the first failing candidate's exception propagates",
               "scores are compared as exact rationals of the floats evaluate() returned; means within 1e-9",
               "base forecasters obey C04 (guarded methods of an unfitted forecaster raise NotFittedError) -- hypothesis hwb of the bisimulation",
               "exogenous X is exercised (fit / evaluate / update-type calls; forecasters whose state and forecasts depend on it); "
               "predict is called without X; extra **fit_params are not exercised"]
RULE = ("exhaustive small scope: every vector of chosen mean scores over {0,1,2,NaN} for 1..4 candidates x both metric directions "
        "(quick: seed-rotated tenth) + structured random (6 forecaster families incl. nested names through TransformedTargetForecaster / "
        "MultiplexForecaster, grid lists, randomized search, refit on/off, both evaluate strategies, op sequences with repeated fit) "
        "+ grids whose values are estimator objects replacing a named component together with nested names of that component "
        "+ exogenous X given to fit/update with forecasters that learn from it (incl. the tabular reduction forecaster) "
        "+ clone(composite).set_params(**params) on its own (any dict order, invalid names) + malformed stream; "
        "distinct by driver line; non-trivial = the search completed with at least two candidates")
LEVEL_TEXT = ("Lean 4 theorems, for all candidate lists / grids, score functions (NaN allowed), metric directions, base forecasters (abstract machine) and "
              "call sequences, about an executable model of _tune.py: the grid enumerates every combination once, every candidate is evaluated on the tuner's cv "
              "and series, each cv_results_ row is the mean of that candidate's evaluate() scores, the reported best is the lowest mean for losses and the highest for greater-is-better metrics (first among ties), "
              "best index/params/score belong to one row, a refitted tuner is bisimilar to a forecaster built with the best parameters and fitted on all data, "
              "without refit every method of the tuner (cutoff included) raises NotFittedError. Three clauses failed for the code as first checked "
              "(greater-is-better metrics selected the lowest score; cutoff ignored refit=False; update_params defaults differed); they were repaired in /repo "
              "(3fa437d, 2c34b70, 2b9e886) and are now proved at full strength. "
              "The model is tied to the code by a differential correspondence and the property text is evaluated as an oracle on every real run.")
LEVEL_NOTE = ("Trusted: Lean kernel, axioms propext/Classical.choice/Quot.sound, the model's faithfulness as exercised by the correspondence, pandas rank/argmin/mean and "
              "sklearn ParameterGrid semantics (modelled), harness + compat layer. evaluate() itself is C07's; here each row is compared with an independent real evaluate() run.")
TECHNIQUE = "Lean 4 proof (rank/argmin order embedding, induction over call sequences = bisimulation) + differential correspondence with the real tuners"

BOOM_B = 7      # ScoreForecaster(b=7).fit fails on the WHOLE series only (refit failure)
BOOM_A = 9      # ScoreForecaster(a=9).fit fails on any shorter series (failure inside evaluate)
EXTRA = 14      # observations after the training series, consumed by update ops

CTX = {"tab": {}, "n": 0, "cut2fold": {}, "splitlog": [], "y": None, "objtok": {}, "objs": []}
_K = {}


def K():
    """harness-side estimators (defined lazily: needs /repo's sktime imported under skcompat)"""
    if _K:
        return _K
    from sktime.forecasting.base._sktime import _SktimeForecaster, _OptionalForecastingHorizonMixin
    from sktime.forecasting.base._base import DEFAULT_ALPHA
    from sktime.transformations.base import _SeriesToSeriesTransformer
    from sktime.forecasting.model_selection import SlidingWindowSplitter, ExpandingWindowSplitter

    class ScoreForecaster(_OptionalForecastingHorizonMixin, _SktimeForecaster):
        """deterministic forecaster whose CV forecasts (hence scores under the `ctl` metric) are a chosen
        function of its parameters (a, b) and of the fold (identified by the cutoff)"""

        def __init__(self, a=0, b=0):
            self.a = a
            self.b = b
            super(ScoreForecaster, self).__init__()

        def fit(self, y, X=None, fh=None):
            self._set_y_X(y, X)
            self._set_fh(fh)
            if self.b == BOOM_B and len(y) == CTX["n"]:
                raise ValueError("boom: whole series")
            if self.a == BOOM_A and len(y) < CTX["n"]:
                raise ValueError("boom: training window")
            self._is_fitted = True
            return self

        def _predict(self, fh, X=None, return_pred_int=False, alpha=DEFAULT_ALPHA):
            cutoff = int(self.cutoff)
            labels = fh.to_absolute(self.cutoff).to_pandas()
            k = CTX["cut2fold"].get(cutoff)
            if k is not None:
                tab = CTX["tab"].get("%d,%d" % (self.a, self.b))
                v = default_score(self.a, self.b) if not tab else tab[k % len(tab)]
                if v is not None and self._X is not None:
                    v = float(v) + float(self._X.iloc[-1, 0])          # depends on the exogenous data it was given
                vals = [np.nan if v is None else float(v)] * len(labels)
            else:
                xt = 0.0 if self._X is None else float(self._X.iloc[-1].sum()) + len(self._X) / 2048.0
                vals = [self.a * 64.0 + self.b * 8.0 + cutoff + (int(l) - cutoff) / 4.0 + len(self._y) / 4096.0 + xt for l in labels]
            return pd.Series(vals, index=labels)

    class ShiftTransformer(_SeriesToSeriesTransformer):
        """exactly invertible series transformer (adds an integer)"""

        def __init__(self, c=1):
            self.c = c
            super(ShiftTransformer, self).__init__()

        def fit(self, Z, X=None):
            self._is_fitted = True
            return self

        def transform(self, Z, X=None):
            self.check_is_fitted()
            return Z + self.c

        def inverse_transform(self, Z, X=None):
            self.check_is_fitted()
            return Z - self.c

    class RecSliding(SlidingWindowSplitter):
        def split(self, y):
            folds = [(list(map(int, tr)), list(map(int, te))) for tr, te in super(RecSliding, self).split(y)]
            CTX["splitlog"].append(folds)
            for tr, te in folds:
                yield np.array(tr, dtype="int64"), np.array(te, dtype="int64")

    class RecExpanding(ExpandingWindowSplitter):
        def split(self, y):
            folds = [(list(map(int, tr)), list(map(int, te))) for tr, te in super(RecExpanding, self).split(y)]
            CTX["splitlog"].append(folds)
            for tr, te in folds:
                yield np.array(tr, dtype="int64"), np.array(te, dtype="int64")

    _K.update(SF=ScoreForecaster, Shift=ShiftTransformer, RecSliding=RecSliding, RecExpanding=RecExpanding)
    return _K


def default_score(a, b):
    return a * 4.0 + b / 2.0


# ----------------------------------------------------------------------------- case pieces
def cerr(e):
    s = canon_err(e)
    # the model's error alphabet; every other kind (NotImplementedError of a forecaster that refuses X, ...) is "other"
    return s if s in ("E:value", "E:type", "E:key", "E:index", "E:attr", "E:notfitted") else "E:other"


def tryc(f):
    try:
        return f()
    except Exception as e:
        return cerr(e)


def vtok(v):
    if id(v) in CTX["objtok"]:            # an estimator object of the grid: named by the token it was built from
        return CTX["objtok"][id(v)]
    if isinstance(v, bool):
        return "T" if v else "F"
    if v is None:
        return "None"
    if isinstance(v, (int, np.integer)):
        return str(int(v))
    return str(v)


def ptok(params):
    if not params:
        return "@"
    return ";".join("%s=%s" % (k, vtok(params[k])) for k in sorted(params))


def series(case):
    """training series y (n observations) and its continuation (EXTRA more)"""
    r = random.Random(case["yseed"])
    n, origin = case["n"], case.get("origin", 0)
    vals = [r.randrange(-64, 65) / 4.0 + 40.0 for _ in range(n + EXTRA)]
    Y = pd.Series(vals, index=pd.Index(np.arange(origin, origin + n + EXTRA, dtype="int64")))
    return Y.iloc[:n], Y


def exog(case):
    """exogenous data over the index of the whole series (training part + continuation), or None"""
    k = case.get("X")
    if not k:
        return None
    r = random.Random(case["yseed"] * 7 + 3)
    n, origin = case["n"], case.get("origin", 0)
    idx = pd.Index(np.arange(origin, origin + n + EXTRA, dtype="int64"))
    return pd.DataFrame({"x%d" % j: [r.randrange(-16, 17) / 4.0 for _ in range(n + EXTRA)] for j in range(k)}, index=idx)


def make_cv(case, recording):
    from sktime.forecasting.model_selection import SlidingWindowSplitter, ExpandingWindowSplitter
    c = case["cv"]
    k = K()
    if c["k"] == "s":
        cls = k["RecSliding"] if recording else SlidingWindowSplitter
        return cls(fh=list(c["fh"]), window_length=c["wl"], step_length=c["step"], initial_window=c["iw"],
                   start_with_window=c["sww"])
    cls = k["RecExpanding"] if recording else ExpandingWindowSplitter
    return cls(fh=list(c["fh"]), initial_window=c["wl"], step_length=c["step"], start_with_window=c["sww"])


KEYS = {
    "score": {"a", "b"},
    "naive": {"strategy", "sp", "window_length"},
    "reduce": {"window_length", "estimator__fit_intercept"},
}
CONTROLLED = ("score", "ttf", "mux")
# composite families: the named components of the base forecaster (as estimator tokens)
STEPS = {
    "ttf": [("t", "#Sh.1"), ("f", "#SF.0.0")],
    "mux": [("x", "#SF.1.0"), ("y", "#SF.2.0")],
    "ttfnaive": [("t", "#Sh.1"), ("f", "#N.last.4")],
    "muxreal": [("naive", "#N.last.None"), ("poly", "#P.1")],
}
CTOR = {"SF": ("a", "b"), "Sh": ("c",), "N": ("strategy", "window_length", "sp"), "P": ("degree",)}


def is_objtok(v):
    return isinstance(v, str) and v.startswith("#")


def tok_args(tok):
    """class and constructor arguments an estimator token stands for"""
    parts = tok[1:].split(".")
    cls = parts[0]
    if cls == "SF":
        return cls, {"a": int(parts[1]), "b": int(parts[2])}
    if cls == "Sh":
        return cls, {"c": int(parts[1])}
    if cls == "N":
        return cls, {"strategy": parts[1], "window_length": None if parts[2] == "None" else int(parts[2]), "sp": 1}
    if cls == "P":
        return cls, {"degree": int(parts[1])}
    raise ValueError(tok)


def mkobj(cls, args):
    from sktime.forecasting.naive import NaiveForecaster
    from sktime.forecasting.trend import PolynomialTrendForecaster
    k = K()
    return {"SF": k["SF"], "Sh": k["Shift"], "N": NaiveForecaster, "P": PolynomialTrendForecaster}[cls](**args)


def grid_obj(tok):
    """a fresh estimator object for a grid value; remembered by identity so that rows / best_params_ can be named"""
    o = mkobj(*tok_args(tok))
    CTX["objs"].append(o)
    CTX["objtok"][id(o)] = tok
    return o


def build(fc, params):
    """a forecaster constructed DIRECTLY from constructor arguments (no clone, no set_params).
    For a composite: every named component is the estimator the parameter set names for it (else the base
    forecaster's), constructed with the nested `component__param` values of the parameter set in place of its own."""
    from sktime.forecasting.naive import NaiveForecaster
    from sktime.forecasting.compose import TransformedTargetForecaster, MultiplexForecaster
    k = K()
    g = params.get
    if fc in KEYS:
        bad = set(params) - KEYS[fc]
        if bad:
            raise ValueError("Invalid parameter %s" % sorted(bad))
        if fc == "score":
            return k["SF"](a=g("a", 0), b=g("b", 0))
        if fc == "naive":
            return NaiveForecaster(strategy=g("strategy", "last"), sp=g("sp", 1), window_length=g("window_length", None))
        if fc == "reduce":
            from sklearn.linear_model import LinearRegression
            from sktime.forecasting.compose import DirectTabularRegressionForecaster
            return DirectTabularRegressionForecaster(LinearRegression(fit_intercept=g("estimator__fit_intercept", True)),
                                                     window_length=g("window_length", 3))
    if fc not in STEPS:
        raise ValueError(fc)
    used, steps = set(), []
    for name, dtok in STEPS[fc]:
        tok = g(name, dtok)
        if name in params:
            used.add(name)
        cls, args = tok_args(tok)
        for key, v in params.items():
            if key.startswith(name + "__"):
                sub = key[len(name) + 2:]
                if sub not in CTOR[cls]:
                    raise ValueError("Invalid parameter %s for %s" % (sub, cls))
                args[sub] = v
                used.add(key)
        steps.append((name, mkobj(cls, args)))
    if fc in ("mux", "muxreal"):
        used.add("selected_forecaster")
    bad = set(params) - used
    if bad:
        raise ValueError("Invalid parameter %s" % sorted(bad))
    if fc in ("ttf", "ttfnaive"):
        return TransformedTargetForecaster(steps)
    return MultiplexForecaster(steps, selected_forecaster=g("selected_forecaster", STEPS[fc][0][0]))


def _r20(v):
    """round a score to the 2^-20 grid.  Absolute-error scores on small dyadic data are often MATHEMATICALLY tied between
    candidates without being float-identical; pandas ranks the floats, the model exact rationals.  On the grid the fold
    scores and their sums are exact in floating point, so both orderings coincide (sums equal or >= 2^-20 apart)."""
    v = float(v)
    return v if v != v else round(v * 1048576.0) / 1048576.0


def make_metric(case):
    from sktime.performance_metrics.forecasting import (make_forecasting_scorer, MeanAbsoluteError,
                                                        MeanAbsolutePercentageError)
    m, gib = case["metric"], bool(case["gib"])
    if m == "ctl":
        def ctl(a, b):
            # order-insensitive: whichever argument is NOT the observed series is the forecast
            truth = CTX["y"]
            a_is_truth = bool(np.array_equal(np.asarray(a, dtype=float), truth.loc[a.index].to_numpy(), equal_nan=True))
            pred = b if a_is_truth else a
            return float(np.asarray(pred, dtype=float)[0])
        return make_forecasting_scorer(ctl, name="ctl", greater_is_better=gib)
    if m == "mae":
        def mae(a, b):
            return _r20(np.mean(np.abs(np.asarray(a, dtype=float) - np.asarray(b, dtype=float))))
        return make_forecasting_scorer(mae, name="mae", greater_is_better=gib)
    if m == "negmae":
        def negmae(a, b):
            return -_r20(np.mean(np.abs(np.asarray(a, dtype=float) - np.asarray(b, dtype=float))))
        return make_forecasting_scorer(negmae, name="negmae", greater_is_better=gib)
    if m == "MAE":
        class MeanAbsoluteErrorOnGrid(MeanAbsoluteError):          # the library class, its result put on the grid
            def __call__(self, y_true, y_pred, **kw):
                return _r20(super(MeanAbsoluteErrorOnGrid, self).__call__(y_true, y_pred, **kw))
        return MeanAbsoluteErrorOnGrid()
    if m == "mape":
        return MeanAbsolutePercentageError(symmetric=False)
    if m == "none":
        return None
    raise ValueError(m)


def metric_name(case):
    return {"ctl": "ctl", "mae": "mae", "negmae": "negmae", "MAE": "MeanAbsoluteError",
            "mape": "MeanAbsolutePercentageError", "none": "MeanAbsolutePercentageError"}[case["metric"]]


def grid_arg(case):
    out = []
    for d in case["grid"]:
        dd = {}
        for k_, v in d.items():
            dd[k_] = [] if v == "~e" else ("oops" if v == "~s" else [grid_obj(x) if is_objtok(x) else x for x in v])
        out.append(dd)
    if case.get("gridform") == "dict" and len(out) == 1:
        return out[0]
    return out


def _dists(case, objects=False):
    """distributions of a randomized search; estimator tokens become fresh objects for the real tuner only"""
    import scipy.stats
    return {k_: (scipy.stats.randint(v["randint"][0], v["randint"][1]) if isinstance(v, dict)
                 else [grid_obj(x) if objects and is_objtok(x) else x for x in v])
            for k_, v in case["grid"][0].items()}


_OBS = {}


def unpredictable(case):
    return case["search"] == "rand" and case.get("rsmode", "int") != "int"


def _plain(p):
    p = {k_: CTX["objtok"].get(id(v), v) for k_, v in p.items()}
    return {k_: (int(v) if isinstance(v, (int, np.integer)) and not isinstance(v, bool) else v) for k_, v in p.items()}


def in_support(case, p):
    """is `p` a parameter set the distributions of a randomized search can produce"""
    d = case["grid"][0]
    if set(p) != set(d):
        return False
    for k_, v in d.items():
        if isinstance(v, dict):
            if not (v["randint"][0] <= p[k_] < v["randint"][1]):
                return False
        elif p[k_] not in v:
            return False
    return True


def param_sets(case):
    """the SET of candidate parameter dicts the user asked for (order-free enumeration for grids;
    the real ParameterSampler's output for randomized search), or None if the grid is malformed"""
    if case["search"] == "rand":
        if unpredictable(case):
            # random_state None / a RandomState instance: the draw cannot be predicted; the candidates are the
            # `params` of the rows of THIS case's last real run, taken as data (run_real stores them)
            return [dict(p) for p in (_OBS.get(json.dumps(case, sort_keys=True)) or [])]
        from sklearn.model_selection import ParameterSampler
        return [_plain(p) for p in ParameterSampler(_dists(case), case["n_iter"], random_state=case["rs"])]
    sets = []
    for d in case["grid"]:
        if any(v in ("~e", "~s") for v in d.values()):
            return None
        keys = sorted(d, reverse=True)
        for combo in itertools.product(*[list(reversed(d[k_])) for k_ in keys]):
            sets.append(dict(zip(keys, combo)))
    return sets


def setup_ctx(case):
    y, Y = series(case)
    CTX["tab"] = case.get("tab") or {}
    CTX["n"] = case["n"]
    CTX["y"] = Y
    CTX["splitlog"] = []
    CTX["objtok"], CTX["objs"] = {}, []
    cv = make_cv(case, False)
    try:
        folds = [(list(map(int, tr)), list(map(int, te))) for tr, te in cv.split(y)]
    except Exception:
        folds = None
    CTX["cut2fold"] = {}
    if folds:
        for i, (tr, te) in enumerate(folds):
            if tr:
                CTX["cut2fold"][int(y.index[tr[-1]])] = i
    return y, Y, folds


def show_series(s):
    if isinstance(s, pd.DataFrame):
        return "D" + "+".join("%s[%s]" % (vtok(c), ",".join("%d:%s" % (int(i), show_rat(float(v))) for i, v in s[c].items()))
                              for c in s.columns)
    return ",".join("%d:%s" % (int(i), show_rat(float(v))) for i, v in s.items()) or "-"


def show_cut(c):
    return "none" if c is None else str(int(c))


def _upd(up, dflt):
    """keyword arguments of an update-type call: `up` None = left to the callee's default, unless `dflt`
    (a bool) says how to resolve it explicitly"""
    if up is None:
        return {} if dflt is None else {"update_params": dflt}
    return {"update_params": bool(up)}


def batch(Y, ptr, k, shape="fresh", j=0):
    """the series handed to an update-type call, and the new position of the next unseen observation.
    fresh: the next k observations | re: the last j known ones re-stated + k new | ov: the same with REVISED values for
    the known ones | past: j revised observations ending two steps before the newest known one | empty"""
    if shape in (None, "fresh"):
        return Y.iloc[ptr:ptr + k], ptr + k
    if shape == "empty":
        return Y.iloc[0:0], ptr
    if shape in ("re", "ov"):
        start = max(0, ptr - j)
        b = Y.iloc[start:ptr + k].copy()
        if shape == "ov":
            b.iloc[:ptr - start] = b.iloc[:ptr - start].to_numpy() + 8.0 + np.arange(ptr - start) / 4.0
        return b, ptr + k
    if shape == "past":
        end = max(1, ptr - 2)
        start = max(0, end - max(1, j))
        b = Y.iloc[start:end].copy()
        b.iloc[:] = b.to_numpy() - 6.0 + np.arange(end - start) / 2.0
        return b, ptr
    raise ValueError(shape)


def drive(case, kind, y, Y, obj=None, params=None, dflt=None):
    """the op sequence on the tuner (`kind="tuner"`), on a forecaster constructed directly with `params`
    and fitted on all of y at every F (`"ref"`), or on such a forecaster never fitted (`"unfit"`).
    `dflt`: resolve update calls that leave `update_params` to its default explicitly to this value."""
    fc, n, fitfh = case["fc"], case["n"], case.get("fitfh")
    if kind != "tuner":
        obj = build(fc, params)
    XX = exog(case)
    X = None if XX is None else XX.iloc[:n]

    def xof(chunk):
        return None if XX is None else XX.loc[chunk.index]
    ptr = n
    outs = []
    for op in case["ops"]:
        o = op[0]
        if o == "F":
            ptr = n
            if kind == "tuner":
                CTX["splitlog"] = []
                outs.append(tryc(lambda: (obj.fit(y, X, fh=fitfh), "ok")[1]))
            elif kind == "ref":
                obj = build(fc, params)
                outs.append(tryc(lambda: (obj.fit(y, X, fh=fitfh), "ok")[1]))
            else:
                outs.append("-")
        elif o == "p":
            outs.append(tryc(lambda: show_series(obj.predict(op[1]))))
        elif o == "c":
            outs.append(tryc(lambda: show_cut(obj.cutoff)))
        elif o == "m":
            # probe of the data the (best) forecaster remembers, behind the real guard of a tuner method
            def mem():
                if kind == "tuner":
                    obj.check_is_fitted("remembered data")
                    yy = obj.best_forecaster_._y
                else:
                    obj.check_is_fitted()
                    yy = obj._y
                return show_series(yy)
            outs.append(tryc(mem))
        elif o == "x":
            # probe of the exogenous data the (best) forecaster remembers, behind the real guard of a tuner method
            def memx():
                if kind == "tuner":
                    obj.check_is_fitted("remembered exogenous data")
                    xx = obj.best_forecaster_._X
                else:
                    obj.check_is_fitted()
                    xx = obj._X
                return "none" if xx is None else show_series(xx)
            outs.append(tryc(memx))
        elif o == "u":
            chunk, ptr = batch(Y, ptr, op[1], *op[3:5])
            outs.append(tryc(lambda: "self" if obj.update(chunk, xof(chunk), **_upd(op[2], dflt)) is obj else "other"))
        elif o == "s":
            chunk, ptr = batch(Y, ptr, op[1], *op[4:6])
            outs.append(tryc(lambda: show_series(obj.update_predict_single(chunk, fh=op[2], X=xof(chunk), **_upd(op[3], dflt)))))
        elif o == "U":
            chunk, ptr = batch(Y, ptr, op[1], *op[3:5])
            outs.append(tryc(lambda: show_series(obj.update_predict(chunk, X=xof(chunk), **_upd(op[2], dflt)))))
        else:
            raise ValueError(op)
    return outs


def has_defaulted(case):
    return any((op[0] in ("u", "U") and op[2] is None) or (op[0] == "s" and op[3] is None) for op in case["ops"])


_REF = {}


def reference(case):
    """independent observations for every distinct parameter set: evaluate() scores of a directly constructed
    forecaster + the op sequence on directly constructed forecasters.  Memoised per case."""
    key = json.dumps(case, sort_keys=True)
    if unpredictable(case):
        key += "#" + json.dumps(_OBS.get(key), sort_keys=True)
    if key in _REF:
        return _REF[key]
    from sktime.forecasting.model_evaluation import evaluate
    y, Y, folds = setup_ctx(case)
    sets = param_sets(case)
    ref = {"folds": folds, "entries": {}, "sets": sets}
    seen = []
    for p in (sets or []):
        t = ptok(p)
        if t in ref["entries"]:
            continue
        ent = {"params": p}
        try:
            f = build(case["fc"], p)
            XX = exog(case)
            res = evaluate(f, make_cv(case, False), y, None if XX is None else XX.iloc[:case["n"]],
                           strategy=case["strategy"], scoring=make_metric(case))
            col = res["test_" + metric_name(case)]
            ent["scores"] = [float(v) for v in col]
            ent["mean"] = float(col.mean())
        except Exception as e:
            ent["scores"] = cerr(e)
            ent["mean"] = None
        try:
            # outsF / outsT: update calls that leave update_params to its default resolved to False / True
            # (the model picks the table its `tunerDefaultUpdateParams` says); outsD: the SAME call text on the
            # forecaster (its own defaults) -- what the property compares the tuner with
            ent["outsF"] = drive(case, "ref", y, Y, params=p, dflt=False)
            if has_defaulted(case):
                ent["outsT"] = drive(case, "ref", y, Y, params=p, dflt=True)
                ent["outsD"] = drive(case, "ref", y, Y, params=p)
            else:
                ent["outsT"] = ent["outsD"] = ent["outsF"]
            ent["outsU"] = drive(case, "unfit", y, Y, params=p)
        except Exception as e:       # cannot even be constructed (unknown parameter name)
            ent["outsF"] = ent["outsT"] = ent["outsD"] = [cerr(e)] * len(case["ops"])
            ent["outsU"] = [cerr(e)] * len(case["ops"])
        ref["entries"][t] = ent
        seen.append(t)
    if len(_REF) > 64:
        _REF.clear()
    _REF[key] = ref
    return ref


# ----------------------------------------------------------------------------- set_params of a composite (kind = "setp")
# case = {"kind": "setp", "fc": composite family, "params": [[name, value | estimator token], ...] (the dict, in its order)}
# real: clone(base forecaster).set_params(**params), read back component classes / constructor arguments;
# the property's reading: it equals the composite constructed DIRECTLY with those parameters (`build`)
CLSNAME = {"ScoreForecaster": "SF", "ShiftTransformer": "Sh", "NaiveForecaster": "N", "PolynomialTrendForecaster": "P"}


def _args_tok(d, keys):
    return ",".join("%s=%s" % (k_, vtok(d[k_])) for k_ in keys) or "-"


def _comp_tok(name, cls, args):
    return "%s@%s@%s" % (name, cls, _args_tok(args, CTOR[cls]))


def config_tok(est):
    """component classes / constructor arguments and own arguments of a composite"""
    items = est.steps if hasattr(est, "steps") else est.forecasters
    st = []
    for name, c in items:
        cls = CLSNAME.get(type(c).__name__, type(c).__name__)
        st.append(_comp_tok(name, cls, c.get_params(deep=False)))
    own = "selected_forecaster=%s" % vtok(est.selected_forecaster) if hasattr(est, "selected_forecaster") else "-"
    return "steps=%s own=%s" % (";".join(st), own)


def setp_line(case):
    fc = case["fc"]
    names = [nm for nm, _ in STEPS[fc]]
    st = ";".join(_comp_tok(nm, *tok_args(t)) for nm, t in STEPS[fc])
    own = "selected_forecaster=%s" % names[0] if fc in ("mux", "muxreal") else "-"
    ps = []
    for k_, v in case["params"]:
        if is_objtok(v):
            ps.append("s@" + _comp_tok(k_, *tok_args(v)))
        elif "__" in k_:
            nm, sub = k_.split("__", 1)
            ps.append("n@%s@%s@%s" % (nm, sub, vtok(v)))
        else:
            ps.append("o@%s@%s" % (k_, vtok(v)))
    return "C08 setp %s %s %s" % (st, own, ";".join(ps) or "-")


def setp_real(case):
    from sklearn.base import clone
    K()
    CTX["objtok"], CTX["objs"] = {}, []
    try:
        base = build(case["fc"], {})
        real = {k_: (grid_obj(v) if is_objtok(v) else v) for k_, v in case["params"]}
        return config_tok(clone(base).set_params(**real))
    except Exception as e:
        return cerr(e)


def setp_oracle(case, out):
    try:
        want = config_tok(build(case["fc"], {k_: v for k_, v in case["params"]}))
    except Exception as e:
        want = cerr(e)
    if out != want:
        return [("cand:set_params-differs-from-direct-construction",
                 "clone(forecaster).set_params(**%r): %s; constructed directly: %s" % ({k_: v for k_, v in case["params"]}, out, want))]
    return []


def _setp_case(rng):
    fc = rng.choice(sorted(STEPS))
    names = [nm for nm, _ in STEPS[fc]]
    items = []
    for nm in names:
        cls = tok_args(dict(STEPS[fc])[nm])[0]
        if rng.random() < 0.6:
            tok = rng.choice(SWAP_POOLS[fc][nm])
            if rng.random() < 0.08 and fc == "muxreal":
                tok = rng.choice(SWAP_POOLS[fc][[x for x in names if x != nm][0]])
            items.append((nm, tok))
            cls = tok_args(tok)[0]
        for sub in sorted(NESTED_POOLS[cls]):
            if rng.random() < 0.5:
                items.append(("%s__%s" % (nm, sub), rng.choice(NESTED_POOLS[cls][sub])))
        if rng.random() < 0.04:
            items.append(("%s__%s" % (nm, "zzz"), 1))
    if fc in ("mux", "muxreal") and rng.random() < 0.5:
        items.append(("selected_forecaster", rng.choice(names)))
    if rng.random() < 0.04:
        items.append((rng.choice(["zzz", "q__c"]), 1))
    rng.shuffle(items)
    return {"kind": "setp", "fc": fc, "params": [list(kv) for kv in dict(items).items()]}


# ----------------------------------------------------------------------------- driver line
def src_tok(case):
    if case["search"] == "rand":
        sets = param_sets(case)
        return "list:" + ("|".join(ptok(p) for p in sets) if sets else "none")
    if not case["grid"]:
        return "grid:none"
    ds = []
    for d in case["grid"]:
        if not d:
            ds.append("@")
        else:
            ds.append(";".join("%s=%s" % (k_, v if v in ("~e", "~s") else ",".join(vtok(x) for x in v)) for k_, v in d.items()))
    return "grid:" + "|".join(ds)


def cv_tok(case):
    c = case["cv"]
    return "%s:%s:%d:%d:%s:%s" % (c["k"], show_ints(c["fh"]), c["wl"], c["step"],
                                  "none" if c["iw"] is None else c["iw"], show_bool(c["sww"]))


def to_line(case):
    if case.get("kind") == "setp":
        return setp_line(case)
    if unpredictable(case) and not _OBS.get(json.dumps(case, sort_keys=True)):
        return None        # the draw cannot be predicted and the search failed before any row existed: candidates unknown
    ref = reference(case)
    ents = []
    for t in sorted(ref["entries"]):
        e = ref["entries"][t]
        sc = e["scores"] if isinstance(e["scores"], str) else (",".join(show_rat(v) for v in e["scores"]) or "-")
        ents.append("%s>%s>%s>%s>%s" % (t, sc, "~".join(e["outsF"]) or "-",
                                        "=" if e["outsT"] == e["outsF"] else "~".join(e["outsT"]), "~".join(e["outsU"]) or "-"))
    if not ents:
        ents = ["zz=0>->->=>-"]          # malformed / empty grid: nothing to look up
    ops = ",".join(op[0] for op in case["ops"]) or "-"
    return "C08 run %s %s %d %s %s %s %s" % (src_tok(case), cv_tok(case), case["n"], show_bool(case["gib"]),
                                            show_bool(case["refit"]), ops, "|".join(ents))


# ----------------------------------------------------------------------------- real code
def make_tuner(case):
    from sktime.forecasting.model_selection import ForecastingGridSearchCV, ForecastingRandomizedSearchCV
    base = build(case["fc"], {})
    cv = make_cv(case, True)
    if case["search"] == "rand":
        mode = case.get("rsmode", "int")
        rs = case["rs"] if mode == "int" else (None if mode == "none" else np.random.RandomState(case["rs"]))
        return ForecastingRandomizedSearchCV(base, cv, _dists(case, True), n_iter=case["n_iter"], random_state=rs,
                                             scoring=make_metric(case), strategy=case["strategy"], refit=case["refit"])
    return ForecastingGridSearchCV(base, cv, grid_arg(case), scoring=make_metric(case), strategy=case["strategy"],
                                   refit=case["refit"])


def folds_tok(folds):
    if not folds:
        return "none"
    return ";".join("%s/%s" % (show_ints(tr), show_ints(te)) for tr, te in folds)


def run_real(case):
    if case.get("kind") == "setp":
        return setp_real(case)
    y, Y, _ = setup_ctx(case)
    try:
        g = make_tuner(case)
    except Exception as e:
        return "construct=" + cerr(e)
    if unpredictable(case):
        np.random.seed(case["rs"])          # random_state=None draws from the global generator: make the run repeatable
        _OBS.pop(json.dumps(case, sort_keys=True), None)
    outs = drive(case, "tuner", y, Y, obj=g)
    name = metric_name(case)
    if unpredictable(case) and hasattr(g, "cv_results_"):
        if len(_OBS) > 256:
            _OBS.clear()
        _OBS[json.dumps(case, sort_keys=True)] = [_plain(p) for p in g.cv_results_["params"]]
    if hasattr(g, "best_forecaster_"):
        res = g.cv_results_
        cands = "|".join(ptok(p) for p in res["params"])
        means = ",".join(show_rat(float(v)) for v in res["mean_test_" + name])
        ranks = ",".join(show_rat(float(v)) for v in res["rank_test_" + name])
        log = CTX["splitlog"]
        if len(log) != len(res):
            splits = "COUNT:%d" % len(log)
        elif any(f != log[0] for f in log):
            splits = "MISMATCH"
        else:
            splits = folds_tok(log[0])
        head = "cands=%s means=%s ranks=%s best=%d score=%s bparams=%s splits=%s" % (
            cands, means, ranks, int(g.best_index_), show_rat(float(g.best_score_)), ptok(g.best_params_), splits)
    else:
        head = "res=none"
    return "%s fitted=%s ops=%s" % (head, show_bool(bool(g.is_fitted)), "~".join(outs) or "-")


def parse_out(out):
    d = {}
    for tok in out.split(" "):
        k_, v = tok.split("=", 1)
        d[k_] = v
    return d


def _rats_close(a, b):
    xa, xb = a.split(","), b.split(",")
    if len(xa) != len(xb):
        return False
    for p, q in zip(xa, xb):
        pv, qv = parse_rat(p), parse_rat(q)
        if not close(None if pv is None else float(pv), qv):
            return False
    return True


def compare(real, model):
    if real == model:
        return True
    if real.startswith("steps=") or model.startswith("steps="):
        return False
    try:
        r, m = parse_out(real), parse_out(model)
    except Exception:
        return False
    if set(r) != set(m):
        return False
    for k_ in r:
        if k_ in ("means", "score"):
            if not _rats_close(r[k_], m[k_]):
                return False
        elif r[k_] != m[k_]:
            return False
    return True


# ----------------------------------------------------------------------------- oracle (from the property text)
def _fl(tok):
    v = parse_rat(tok)
    return None if v is None else float(v)


def _eq(a, b):
    if a is None or b is None:
        return a is None and b is None
    return abs(a - b) <= 1e-9 * max(1.0, abs(b))


def oracle(case, out):
    if case.get("kind") == "setp":
        return setp_oracle(case, out)
    fails = []
    if out.startswith("construct="):
        return fails
    R = parse_out(out)
    ref = reference(case)
    sets = ref["sets"]
    ops = case["ops"]
    outs = [] if R["ops"] == "-" else R["ops"].split("~")
    nF = [i for i, op in enumerate(ops) if op[0] == "F"]
    all_ok = sets is not None and len(sets) > 0 and all(not isinstance(ref["entries"][ptok(p)]["scores"], str) for p in sets)
    some_finite = all_ok and any(ref["entries"][ptok(p)]["mean"] is not None and not np.isnan(ref["entries"][ptok(p)]["mean"]) for p in sets)
    if "res" in R:
        # the search did not complete: a violation only if every candidate could be evaluated
        if nF and all_ok and some_finite:
            fails.append(("fit:valid-search-failed", "every candidate evaluates independently, but fit answered %s" % outs[nF[-1]]))
        return fails
    cands = R["cands"].split("|")
    means = [_fl(t) for t in R["means"].split(",")]
    best = int(R["best"])
    # (1) every candidate parameter set is evaluated (as a multiset)
    if sets is not None and sorted(ptok(p) for p in sets) != sorted(cands):
        fails.append(("cands:not-the-requested-sets", "evaluated %s, requested %s" % (sorted(cands), sorted(ptok(p) for p in sets))))
    if unpredictable(case):
        # the draw itself cannot be predicted: n_iter candidates, each one the distributions can produce
        rows = sets or []
        d_ = case["grid"][0]
        size = None
        if all(isinstance(v, list) for v in d_.values()):
            size = 1
            for v in d_.values():
                size *= len(v)
        want = case["n_iter"] if size is None else min(case["n_iter"], size)     # ParameterSampler caps at the grid size
        if len(rows) != want or not all(in_support(case, p) for p in rows):
            fails.append(("cands:not-n_iter-draws-from-the-distributions", "rows %s for n_iter=%d, distributions %r" % (cands, case["n_iter"], case["grid"][0])))
    # (2) ... on the same temporal splits
    if R["splits"] != folds_tok(ref["folds"]):
        fails.append(("splits:candidates-not-on-the-same-splits", "splits seen by the candidates: %s; cv.split(y): %s" % (R["splits"][:200], folds_tok(ref["folds"])[:200])))
    # (3) each row equals an independent evaluate run of that candidate
    indep = []
    for i, t in enumerate(cands):
        e = ref["entries"].get(t)
        m = None if e is None or e["mean"] is None or np.isnan(e["mean"]) else e["mean"]
        indep.append(m)
        if e is not None and not isinstance(e["scores"], str) and not _eq(means[i], m):
            fails.append(("row:not-equal-independent-evaluate", "row %d (%s): mean score %r, independent evaluate gives %r" % (i, t, means[i], m)))
            break
    # (4) best index/params/score belong to one candidate ...
    if not (0 <= best < len(cands)):
        fails.append(("best:index-out-of-range", "best_index_=%d with %d candidates" % (best, len(cands))))
        return fails
    if R["bparams"] != cands[best] or not _eq(_fl(R["score"]), means[best]):
        fails.append(("best:params-index-score-inconsistent", "best_index_=%d row=(%s,%r) but best_params_=%s best_score_=%s" % (best, cands[best], means[best], R["bparams"], R["score"])))
    be = ref["entries"].get(R["bparams"])
    if be is not None and not isinstance(be["scores"], str):
        mb_ = None if be["mean"] is None or np.isnan(be["mean"]) else be["mean"]
        if not _eq(_fl(R["score"]), mb_):
            fails.append(("best:params-do-not-reproduce-best-score", "best_params_=%s: independent evaluate gives %r, best_score_=%s" % (R["bparams"], mb_, R["score"])))
    # (5) ... whose mean CV score is best in the direction the metric declares
    fin = [m for m in indep if m is not None]
    if fin and len(indep) == len(cands):
        mb = indep[best]
        gib = bool(case["gib"])
        target = max(fin) if gib else min(fin)
        if mb is None or not _eq(mb, target):
            if gib and mb is not None and _eq(mb, min(fin)):
                fails.append(("fit.rank:greater-is-better-selects-lowest", "greater_is_better metric: selected mean %r (the lowest), highest is %r; means %r" % (mb, target, indep)))
            elif gib:
                fails.append(("select:not-highest-for-score", "selected mean %r, highest is %r; means %r" % (mb, target, indep)))
            else:
                fails.append(("select:not-lowest-for-loss", "selected mean %r, lowest is %r; means %r" % (mb, target, indep)))
    # (6)/(7) after the last completed fit
    if not nF or outs[nF[-1]] != "ok":
        return fails
    last = nF[-1]
    bent = ref["entries"].get(R["bparams"])
    defaulted = False
    for i in range(last + 1, len(ops)):
        o = ops[i][0]
        if case["refit"]:
            if bent is None:
                break
            if (o in ("u", "U") and ops[i][2] is None) or (o == "s" and ops[i][3] is None):
                defaulted = True
            if outs[i] != bent["outsD"][i]:
                if defaulted:
                    fails.append(("update:default-update_params-differs", "after update(y) with default arguments op %d %r: tuner %s, forecaster built with best params %s" % (i, ops[i], outs[i][:120], bent["outsD"][i][:120])))
                else:
                    fails.append(("refit:%s-differs-from-direct-forecaster" % o, "op %d %r: tuner %s, forecaster built with best params and fitted on all of y %s" % (i, ops[i], outs[i][:120], bent["outsD"][i][:120])))
                break
        else:
            if outs[i] != "E:notfitted":
                fails.append(("norefit:%s-no-NotFittedError" % {"c": "cutoff", "p": "predict", "u": "update", "s": "update_predict_single", "U": "update_predict", "m": "remembered-data", "x": "remembered-exog"}[o],
                              "refit=False, op %d %r answered %s" % (i, ops[i], outs[i][:120])))
    return fails


def nontrivial(case, out):
    if case.get("kind") == "setp":
        return out.startswith("steps=") and len(case["params"]) >= 2
    return out.startswith("cands=") and "|" in out.split(" ")[0]


def features(case, out):
    if case.get("kind") == "setp":
        p_ = {k_: v for k_, v in case["params"]}
        return ["setp:fc=" + case["fc"], "setp:ok=%s" % out.startswith("steps="),
                "setp:replaced+nested=%s" % any(is_objtok(v) and any(k2.startswith(k_ + "__") for k2 in p_) for k_, v in p_.items()),
                "setp:nested-before-replacement=%s" % any(is_objtok(v) and any(k2.startswith(k_ + "__") for k2 in list(p_)[:i])
                                                          for i, (k_, v) in enumerate(p_.items()))]
    f = ["fc=" + case["fc"], "search=" + case["search"] + (":" + case.get("rsmode", "int") if case["search"] == "rand" else ""), "metric=" + case["metric"], "gib=" + str(case["gib"]),
         "refit=" + str(case["refit"]), "strategy=" + case["strategy"], "X=%s" % (case.get("X") or 0),
         "component-replaced=%s" % any(is_objtok(x) for d in case["grid"] for v in d.values() if isinstance(v, list) for x in v),
         "replaced+nested=%s" % any(is_objtok(x) and any(k2.startswith(k_ + "__") for k2 in d) for d in case["grid"]
                                    for k_, v in d.items() if isinstance(v, list) for x in v)]
    if out.startswith("cands="):
        R = parse_out(out)
        nc = len(R["cands"].split("|"))
        f.append("ncands=%d" % min(nc, 12))
        ms = R["means"].split(",")
        f.append("tie-at-best=%s" % (ms.count(ms[int(R["best"])]) > 1))
        f.append("nan-mean=%s" % ("nan" in ms))
        f.append("nfolds=%d" % min(len(R["splits"].split(";")), 8))
        f.append("dicts=%d" % len(case["grid"]))
    else:
        ops = out.split("ops=")[-1].split("~")
        f.append("search-failed=" + next((o for o in ops if o.startswith("E:")), "?"))
    for op in case["ops"]:
        f.append("op=" + op[0])
    return f


# ----------------------------------------------------------------------------- generators
SMALL_CV = {"k": "s", "fh": [1], "wl": 3, "step": 3, "iw": None, "sww": True}     # n=9: two folds
SCORE_VALUES = [0.0, 1.0, 2.0, None]


def is_exhaustive(tier):
    return tier == "thorough"


def _small_case(vec, gib, refit, two_fold):
    tab = {}
    for i, v in enumerate(vec):
        tab["%d,0" % (i + 1)] = [v, v] if not two_fold else [v, None if v is None else v + (i % 2)]
    return {"fc": "score", "search": "grid", "grid": [{"a": list(range(1, len(vec) + 1))}], "gridform": "dict",
            "cv": dict(SMALL_CV), "n": 9, "origin": 0, "yseed": 1, "metric": "ctl", "gib": gib, "strategy": "refit",
            "refit": refit, "fitfh": None, "ops": [["F"], ["p", [1]], ["c"]], "tab": tab}


def _rand_cv(rng, n):
    fh = sorted(rng.sample([1, 2, 3, 4], rng.choice([1, 1, 2, 3])))
    k = rng.choice("se")
    wl = rng.randrange(2, max(3, n // 3))
    step = rng.randrange(1, 6)
    while (n - wl - max(fh)) // step + 1 > 5:          # at most 5 folds (cost)
        step += 1
    iw = None
    if k == "s" and rng.random() < 0.2 and wl + 1 + max(fh) < n:
        iw = rng.randrange(wl + 1, n - max(fh))
    return {"k": k, "fh": fh, "wl": wl, "step": step, "iw": iw, "sww": True}


def _rand_ops(rng, refit_focus=True):
    ops = []
    if rng.random() < 0.25:
        ops.append(rng.choice([["c"], ["p", [1]]]))
    ops.append(["F"])
    budget = EXTRA
    for _ in range(rng.randrange(1, 6)):
        r = rng.random()
        fh = rng.choice([[1], [1, 2], [2, 4], [3], None])
        up = rng.choice([True, False, False, None])
        if r < 0.3:
            ops.append(["p", fh])
        elif r < 0.45:
            ops.append(["c"])
        elif r < 0.7 and budget >= 3:
            k = rng.randrange(1, 4); budget -= k
            ops.append(["u", k, up] + ([rng.choice(SHAPES), rng.randrange(1, 4)] if rng.random() < 0.25 else []))
            if rng.random() < 0.3:
                ops.append(["m"])
        elif r < 0.82 and budget >= 3:
            k = rng.randrange(1, 4); budget -= k
            ops.append(["s", k, fh, up])
        elif r < 0.9 and budget >= 3:
            k = rng.randrange(2, 4); budget -= k
            ops.append(["U", k, up])
        elif r < 0.96:
            ops.append(["F"])
            budget = EXTRA
        else:
            ops.append(["p", [1, 2]])
    if rng.random() < 0.5:
        ops.append(["p", [1, 2]])
    ops.append(["c"])
    return ops


def _pick(rng, pool, lo=1, hi=3):
    k = min(len(pool), rng.randrange(lo, hi + 1))
    vs = rng.sample(pool, k)
    return vs


def _rand_grid(rng, fc):
    """one or several grid dicts over the family's parameter names (nested names for composites)"""
    pools = {
        "score": {"a": [1, 2, 3, 4], "b": [0, 1, 2]},
        "ttf": {"f__a": [1, 2, 3], "f__b": [0, 1, 2], "t__c": [0, 1, 2, -3]},
        "mux": {"selected_forecaster": ["x", "y"], "x__b": [0, 1, 2], "y__b": [0, 1, 2]},
        "naive": {"strategy": ["last", "mean", "drift"], "sp": [1, 2], "window_length": [2, 3, 4]},
        # exact float arithmetic only (dyadic y, windows 2/4, no drift): candidates that differ in t__c alone are
        # mathematically tied, and must then be tied as floats too
        "ttfnaive": {"f__strategy": ["last", "mean"], "f__window_length": [2, 4], "t__c": [0, 1, 2]},
        "muxreal": {"selected_forecaster": ["naive", "poly"], "naive__strategy": ["last", "mean"], "poly__degree": [1, 2]},
    }[fc]
    if fc in STEPS and rng.random() < 0.3:
        # whole components as grid values (estimator objects), next to nested names of the same component
        pools = dict(pools, **{name: SWAP_POOLS[fc][name] for name in rng.sample(sorted(SWAP_POOLS[fc]), rng.choice([1, 1, 2]))})
    nd = rng.choice([1, 1, 1, 2, 2, 3])
    grid = []
    for _ in range(nd):
        keys = rng.sample(sorted(pools), rng.randrange(1, min(3, len(pools)) + 1))
        rng.shuffle(keys)
        d = {}
        for k_ in keys:
            d[k_] = _pick(rng, pools[k_])
        grid.append(d)
    if rng.random() < 0.05:
        grid.append({})
    size = 0
    for d in grid:
        m = 1
        for v in d.values():
            m *= len(v)
        size += m
    if size > 8:                                       # at most 8 candidates (cost)
        return _rand_grid(rng, fc)
    return grid


def _rand_tab(rng, nfmax=6):
    """chosen scores: few distinct levels so that ties (also at the optimum) are frequent"""
    tab = {}
    levels = rng.choice([[0.0, 1.0], [0.5, 1.5, 2.5], [-2.0, -1.0, 0.0, 3.0], [1.0]])
    for a in range(0, 5):
        for b in range(0, 3):
            r = rng.random()
            if r < 0.5:
                continue                                  # default_score(a, b)
            L = rng.choice([1, 1, 2, 3])
            tab["%d,%d" % (a, b)] = [None if rng.random() < 0.08 else rng.choice(levels) + rng.choice([0, 0, 0.25]) for _ in range(L)]
    return tab


def _random_case(rng):
    fc = rng.choice(["score", "score", "ttf", "mux", "naive", "ttfnaive", "muxreal"])
    n = rng.randrange(10, 25)
    case = {"fc": fc, "search": "grid", "grid": _rand_grid(rng, fc), "cv": _rand_cv(rng, n), "n": n,
            "origin": rng.choice([0, 0, 5, -3]), "yseed": rng.randrange(1000),
            "strategy": rng.choice(["refit", "refit", "update"]), "refit": rng.random() < 0.8,
            "fitfh": rng.choice([None, None, [1, 2], [1]]), "ops": _rand_ops(rng), "tab": {}}
    if fc == "ttfnaive":
        case["cv"]["wl"] = max(case["cv"]["wl"], 4)
        if case["cv"]["iw"] is not None and case["cv"]["iw"] <= case["cv"]["wl"]:
            case["cv"]["iw"] = None
    if fc in CONTROLLED:
        case["metric"] = "ctl"
        case["gib"] = rng.random() < 0.4
        case["tab"] = _rand_tab(rng)
    else:
        case["metric"], case["gib"] = rng.choice([("mae", False), ("MAE", False), ("none", False), ("mape", False),
                                                  ("negmae", True), ("negmae", True)])
    if rng.random() < 0.2:
        d = {}
        for dd in case["grid"]:
            d.update(dd)
        if d:
            case["search"] = "rand"
            if rng.random() < 0.4 and fc == "score":
                d = dict(d, b={"randint": [0, 3]})
            case["grid"] = [d]
            case["n_iter"] = rng.randrange(1, 7)
            case["rs"] = rng.randrange(100)
    if len(case["grid"]) == 1 and case["search"] == "grid" and rng.random() < 0.5:
        case["gridform"] = "dict"
    return case


def _sampler_case(rng, mode):
    """randomized search with n_iter far below the number of grid points, so the candidates are really drawn;
    random_state an int / None (global generator) / a RandomState instance.  One fit only: a second fit draws anew."""
    fc = rng.choice(["score", "score", "naive", "ttf"])
    n = rng.randrange(12, 22)
    dists = {
        "score": {"a": [1, 2, 3, 4, 5, 6], "b": [0, 1, 2, 3]},
        "ttf": {"f__a": [1, 2, 3, 4, 5, 6], "f__b": [0, 1, 2, 3], "t__c": [0, 1, 2]},
        "naive": {"strategy": ["last", "mean", "drift"], "window_length": [2, 3, 4, 5], "sp": [1, 2]},
    }[fc]
    if fc == "score" and rng.random() < 0.3:
        dists = dict(dists, b={"randint": [0, 4]})
    cv = _rand_cv(rng, n)
    if fc == "naive":
        cv["wl"] = max(cv["wl"], 5)
        cv["iw"] = None
    ops = [o for i, o in enumerate(_rand_ops(rng)) if o[0] != "F"]
    ops = [["F"]] + ops[:4]
    case = {"fc": fc, "search": "rand", "grid": [dists], "n_iter": rng.randrange(3, 6), "rs": rng.randrange(1000), "rsmode": mode,
            "cv": cv, "n": n, "origin": rng.choice([0, 4]), "yseed": rng.randrange(1000), "strategy": "refit",
            "refit": rng.random() < 0.8, "fitfh": rng.choice([None, [1, 2]]), "ops": ops, "tab": {}}
    if fc in CONTROLLED:
        case["metric"], case["gib"] = "ctl", rng.random() < 0.4      # default_score(a, b): all (a, b) score differently
    else:
        case["metric"], case["gib"] = rng.choice([("mae", False), ("negmae", True)])
    return case


SHAPES = ["ov", "ov", "re", "past", "past", "empty", "fresh"]

# estimator objects a named component can be replaced by (same arithmetic restrictions as the nested pools)
SWAP_POOLS = {
    "ttf": {"f": ["#SF.1.0", "#SF.3.1", "#SF.2.2", "#SF.4.0"], "t": ["#Sh.0", "#Sh.2", "#Sh.-3"]},
    "mux": {"x": ["#SF.3.0", "#SF.3.2", "#SF.1.1"], "y": ["#SF.4.1", "#SF.2.2", "#SF.0.0"]},
    "ttfnaive": {"f": ["#N.mean.2", "#N.last.4", "#N.mean.4", "#N.last.2"], "t": ["#Sh.0", "#Sh.2"]},
    "muxreal": {"naive": ["#N.mean.None", "#N.last.None", "#N.mean.3"], "poly": ["#P.2", "#P.1"]},
}
NESTED_POOLS = {"SF": {"a": [1, 2, 3, 4], "b": [0, 1, 2]}, "Sh": {"c": [0, 1, 2, -3]},
                "N": {"strategy": ["last", "mean"], "window_length": [2, 4]}, "P": {"degree": [1, 2]}}


def _swap_case(rng):
    """a grid / distribution that REPLACES a named component of a composite by another estimator and, mostly, also sets
    nested parameters of that same component in the same candidate (other components' nested names may come along)"""
    fc = rng.choice(["ttf", "ttf", "mux", "ttfnaive", "ttfnaive", "muxreal"])
    n = rng.randrange(12, 22)
    names = [nm for nm, _ in STEPS[fc]]
    target = rng.choice(names if fc != "ttf" else ["f", "f", "t"])
    d = {target: _pick(rng, SWAP_POOLS[fc][target], 1, 2)}
    cls = tok_args(d[target][0])[0]
    if rng.random() < 0.06 and fc == "muxreal":
        d[target] = d[target] + [SWAP_POOLS[fc][[x for x in names if x != target][0]][0]]      # another class: nested names may not fit
    if rng.random() < 0.85:
        for sub in rng.sample(sorted(NESTED_POOLS[cls]), rng.choice([1, 1, 2]) if len(NESTED_POOLS[cls]) > 1 else 1):
            d["%s__%s" % (target, sub)] = _pick(rng, NESTED_POOLS[cls][sub], 1, 2)
    if rng.random() < 0.3:
        other = rng.choice([x for x in names if x != target])
        ocls = tok_args(dict(STEPS[fc])[other])[0]
        sub = rng.choice(sorted(NESTED_POOLS[ocls]))
        d["%s__%s" % (other, sub)] = _pick(rng, NESTED_POOLS[ocls][sub], 1, 2)
    if fc in ("mux", "muxreal"):
        d["selected_forecaster"] = rng.choice([[target], [target], list(names)])
    items = list(d.items())
    rng.shuffle(items)
    d = dict(items)
    grid = [d]
    if rng.random() < 0.25:
        grid.append(rng.choice([{}, {target: [SWAP_POOLS[fc][target][-1]]}]))
    cv = _rand_cv(rng, n)
    if fc == "ttfnaive":
        cv["wl"] = max(cv["wl"], 4)
        cv["iw"] = None
    ops = [o for o in _rand_ops(rng)]
    case = {"fc": fc, "search": "grid", "grid": grid, "cv": cv, "n": n, "origin": rng.choice([0, 2]), "yseed": rng.randrange(1000),
            "strategy": rng.choice(["refit", "refit", "update"]), "refit": rng.random() < 0.85,
            "fitfh": rng.choice([None, [1, 2]]), "ops": ops, "tab": {}}
    if fc in CONTROLLED:
        case["metric"], case["gib"] = "ctl", rng.random() < 0.4
        if rng.random() < 0.4:
            case["tab"] = _rand_tab(rng)
    else:
        case["metric"], case["gib"] = rng.choice([("mae", False), ("MAE", False), ("negmae", True)])
    if rng.random() < 0.2 and len(grid) == 1:
        case.update(search="rand", n_iter=rng.randrange(2, 6), rs=rng.randrange(100), rsmode=rng.choice(["int", "int", "inst"]))
        case["ops"] = [["F"]] + [o for o in ops if o[0] != "F"][:4]
    if rng.random() < 0.15:
        case["X"] = 1
    return case


def _exog_case(rng):
    """exogenous data handed to the tuner: fit(y, X, fh), update-type calls with the matching rows of X; base forecasters
    whose fitted state and forecasts depend on X (score-controlled ones plain / in a pipeline / in a multiplexer, the
    tabular reduction forecaster) next to ones that ignore it"""
    fc = rng.choice(["score", "ttf", "mux", "reduce", "reduce", "naive", "muxreal"])
    n = rng.randrange(14, 24)
    if fc == "reduce":
        grid = [rng.choice([{"window_length": _pick(rng, [2, 3, 4], 2, 3)},
                            {"window_length": _pick(rng, [2, 3, 4], 1, 2), "estimator__fit_intercept": [True, False]}])]
        # ONE fold (the window ends max(fh) before the end of y): evaluate() re-fits the same forecaster object fold after fold with the
        # fold's absolute horizon, which a forecaster that requires fh in fit rejects from the second fold on (ValueError for
        # every candidate; kept as a rare failing stream)
        fh_ = rng.choice([[1], [1, 2], [1, 2, 3]])
        cv = {"k": rng.choice("se"), "fh": fh_, "wl": n - max(fh_) - (3 if rng.random() < 0.1 else 0), "step": 2, "iw": None, "sww": True}
        fitfh = list(fh_)
    else:
        grid = _rand_grid(rng, fc)
        cv = _rand_cv(rng, n)
        fitfh = rng.choice([None, [1, 2], [1]])
    ops = [["F"]]
    for _ in range(rng.randrange(1, 4)):
        r = rng.random()
        if r < 0.35:
            ops.append(["p", rng.choice([None, fitfh]) if fc == "reduce" else rng.choice([[1], [1, 2], None])])
        elif r < 0.5:
            ops.append(["x"])
        elif r < 0.75:
            ops.append(["u", rng.randrange(1, 3), rng.choice([True, False, None])])
            ops.append(["x"])
        elif r < 0.85:
            ops.append(["s", rng.randrange(1, 3), fitfh if fc == "reduce" else [1, 2], rng.choice([True, False, None])])
        elif r < 0.92:
            ops.append(["F"])
        else:
            ops.append(["c"])
    ops += [["p", fitfh if fc == "reduce" else [1, 2]], ["c"]]
    case = {"fc": fc, "search": "grid", "grid": grid, "cv": cv, "n": n, "origin": rng.choice([0, 3]), "yseed": rng.randrange(1000),
            "strategy": rng.choice(["refit", "refit", "update"]), "refit": rng.random() < 0.85, "fitfh": fitfh, "ops": ops, "tab": {},
            "X": rng.choice([1, 2])}
    if fc in CONTROLLED:
        case["metric"], case["gib"] = "ctl", rng.random() < 0.4
        if rng.random() < 0.4:
            case["tab"] = _rand_tab(rng)
    else:
        case["metric"], case["gib"] = rng.choice([("mae", False), ("negmae", True)])
    if len(grid) == 1 and rng.random() < 0.5:
        case["gridform"] = "dict"
    return case


def _revision_case(rng):
    """refit-delegation under update batches that are NOT plain fresh data (revised / re-stated overlap with the known
    series, a block entirely before the cutoff, an empty block), with best candidates whose forecasts depend on the
    remembered values (mean over a window, drift); cutoff, remembered data and forecasts are read after every op"""
    fc = rng.choice(["naive", "naive", "naive", "ttfnaive", "muxreal", "score"])
    n = rng.randrange(12, 20)
    grid = {
        "naive": [{"strategy": rng.choice([["mean"], ["drift"], ["mean", "drift"], ["mean", "last"]]),
                   "window_length": rng.choice([[3], [4], [3, 5], [4, 6]])}],
        "ttfnaive": [{"f__strategy": ["mean"], "f__window_length": rng.choice([[2], [4], [2, 4]]), "t__c": rng.choice([[0], [2], [0, 1]])}],
        "muxreal": [{"selected_forecaster": rng.choice([["poly"], ["naive"], ["naive", "poly"]]), "naive__strategy": ["mean"],
                     "poly__degree": [1]}],
        "score": [{"a": [1, 2], "b": [0, 1]}],
    }[fc]
    cv = {"k": rng.choice("se"), "fh": rng.choice([[1], [1, 2]]), "wl": 6, "step": rng.randrange(2, 4), "iw": None, "sww": True}
    ops = [["F"]]
    for _ in range(rng.randrange(1, 4)):
        shape = rng.choice(SHAPES)
        k = 0 if shape in ("past", "empty") else rng.randrange(1, 3)
        j = rng.randrange(1, 5)
        up = rng.choice([True, False, None])
        r = rng.random()
        if r < 0.6:
            ops.append(["u", k, up, shape, j])
        elif r < 0.85:
            ops.append(["s", k, rng.choice([[1], [1, 2]]), up, shape, j])
        else:
            ops.append(["U", max(k, 2) if shape not in ("past", "empty") else 0, up, shape, max(j, 2)])
        ops += [["c"], ["m"], ["p", [1, 2]]]
    case = {"fc": fc, "search": "grid", "grid": grid, "cv": cv, "n": n, "origin": rng.choice([0, 3]), "yseed": rng.randrange(1000),
            "strategy": "refit", "refit": rng.random() < 0.9, "fitfh": rng.choice([None, [1, 2]]), "ops": ops, "tab": {}}
    if fc in CONTROLLED:
        case["metric"], case["gib"] = "ctl", False
    else:
        case["metric"], case["gib"] = rng.choice([("mae", False), ("negmae", True)])
    return case


def _malformed(rng):
    base = _small_case([1.0, 0.0, 2.0], False, True, False)
    base["ops"] = [["F"], ["p", [1]], ["c"], ["u", 2, False]]
    out = []
    for g in ([{"zzz": [1, 2]}], [{"a": [1], "zzz": [1]}], [{"a": "~e"}], [{"a": [1, 2], "b": "~e"}], [{"a": "~s"}], [],
              [{"a": [1, 9, 2]}], [{"a": [9]}], [{"b": [7]}], [{"a": [1, 2], "b": [7]}], [{"a": [1]}, {"b": "~e"}],
              [{"f__a": [1]}], [{}], [{}, {}]):
        c = dict(base, grid=g)
        c.pop("gridform", None)
        out.append(c)
    # all-NaN scores / NaN at the optimum side
    for vec in ([None], [None, None], [None, 1.0], [1.0, None]):
        for gib in (False, True):
            out.append(_small_case(vec, gib, True, False))
    # splitter problems (evaluate() / split() raise for every candidate)
    c = dict(base); c["cv"] = dict(SMALL_CV, sww=False); out.append(c)
    c = dict(base); c["cv"] = dict(SMALL_CV, wl=12); out.append(c)
    c = dict(base); c["cv"] = dict(SMALL_CV, fh=[0, 1]); out.append(c)
    # multiplexer selecting an unknown component; unknown strategy value
    out.append(dict(base, fc="mux", grid=[{"selected_forecaster": ["x", "q"]}]))
    out.append(dict(base, fc="naive", metric="mae", tab={}, grid=[{"strategy": ["last", "bogus"]}]))
    out.append(dict(base, fc="naive", metric="mae", tab={}, grid=[{"strategy": ["bogus", "last"]}], refit=False))
    return out


def gen_cases(tier, rng):
    cases = []
    # (A) exhaustive small scope: every vector of chosen mean scores over {0,1,2,NaN} for 1..4 candidates,
    #     both metric directions; refit / two-fold variants alternate
    idx = 0
    rot = rng.randrange(10)
    for k in range(1, 5):
        for vec in itertools.product(SCORE_VALUES, repeat=k):
            for gib in (False, True):
                idx += 1
                if tier == "quick" and idx % 10 != rot:
                    continue
                cases.append(_small_case(list(vec), gib, idx % 3 != 0, idx % 5 == 0))
    # (B) structured random
    for _ in range(170 if tier == "quick" else 2200):
        cases.append(_random_case(rng))
    # (B') randomized search whose draw cannot be predicted (random_state None / RandomState instance) next to int seeds
    for i in range(18 if tier == "quick" else 150):
        cases.append(_sampler_case(rng, ["none", "inst", "int"][i % 3]))
    # (B'') update batches that revise / re-state known data, lie before the cutoff or are empty
    for _ in range(30 if tier == "quick" else 260):
        cases.append(_revision_case(rng))
    # (B3) component replacement (estimator objects as grid values) together with nested names of the replaced component
    for _ in range(36 if tier == "quick" else 320):
        cases.append(_swap_case(rng))
    # (B4) exogenous data given to fit / update, forecasters that learn from it
    for _ in range(36 if tier == "quick" else 320):
        cases.append(_exog_case(rng))
    # (B5) clone(composite).set_params(**params) on its own: replacement + nested names, any dict order, invalid names
    for _ in range(120 if tier == "quick" else 1500):
        cases.append(_setp_case(rng))
    # (C) malformed stream
    cases.extend(_malformed(rng))
    return cases


def shrink(c):
    if c.get("kind") == "setp":
        for i in range(len(c["params"])):
            yield dict(c, params=c["params"][:i] + c["params"][i + 1:])
        return
    ops = c["ops"]
    for i in range(len(ops)):
        if ops[i][0] != "F" or sum(1 for o in ops if o[0] == "F") > 1:
            yield dict(c, ops=ops[:i] + ops[i + 1:])
    grid = c["grid"]
    for i in range(len(grid)):
        if len(grid) > 1:
            yield dict(c, grid=grid[:i] + grid[i + 1:])
        d = grid[i]
        for k_ in list(d):
            if len(d) > 1:
                yield dict(c, grid=grid[:i] + [{a: b for a, b in d.items() if a != k_}] + grid[i + 1:])
            if isinstance(d[k_], list) and len(d[k_]) > 1:
                for j in range(len(d[k_])):
                    yield dict(c, grid=grid[:i] + [dict(d, **{k_: d[k_][:j] + d[k_][j + 1:]})] + grid[i + 1:])
    if c.get("fitfh") is not None:
        yield dict(c, fitfh=None)
    if c.get("origin"):
        yield dict(c, origin=0)
    if c["strategy"] != "refit":
        yield dict(c, strategy="refit")
