"""C07 correspondence + oracle: evaluate() (sktime/forecasting/model_evaluation/_functions.py).

case kinds
  eval  {"op": "eval", "cv": [...], "strat": "refit"|"update"|<other>, "met": <metric kind>, "rd": bool,
         "fp": None|int, "fail": None|[call_no, kind], "yl": [labels], "yv": [values], "x": None|[[row],...],
         "pre": None | ["ops", [["fit"|"update", labels, values] | ["predict", labels], ...]] | ["eval", cv, strat, labels, values]
                (what the forecaster INSTANCE handed to evaluate went through before: fitted/updated/predicted on other
                 data, or evaluated once already),
         "xl": None|[labels of X, when they differ from yl]}
         cv = ["s", fh, wl, step, iw, sww] | ["e", fh, wl, step, sww] | ["w", fh, wl] | ["c", cutoffs, fh, wl] | ["ns"]
  split {"op": "split", "train": [...], "test": [...], "fh": [...], "yl", "yv", "x"}      (direct call of `_split`)
  lib   {"op": "lib", "fc": "last"|"mean", "cv", "strat", "met": "default"|"mape", "yl", "yv"}
         evaluate with sktime's own NaiveForecaster and metric objects; oracle only (not sent to the model)

The forecaster handed to evaluate is `Rec`, a real sktime forecaster subclass defined here that records every
fit/update/predict argument and forecasts deterministically from what it was given (exact rational arithmetic).
Metrics: harness-defined asymmetric ones (so exchanged arguments show), a symmetric one, sktime's default sMAPE
(scoring=None) and sktime's non-symmetric MAPE.
"""
import itertools
from fractions import Fraction
import numpy as np, pandas as pd
from common import canon_err, show_ints, show_rat, show_rats, show_bool, close, parse_rat, dyadic

PROP = "C07"
LEAN_MODULE = "SkVerif.Props.C07"
OBLIGATIONS = [
    "SkVerif.C07.rows_eq_splits",
    "SkVerif.C07.row_eq_honest_fold_refit",
    "SkVerif.C07.row_eq_honest_fold_update",
    "SkVerif.C07.history_is_first_splits",
    "SkVerif.C07.row_eq_honest_fold_refit_each",
    "SkVerif.C07.evaluate_independent_of_prior_state",
    "SkVerif.C07.honest_folds_independent_of_prior_state",
    "SkVerif.C07.score_arg_order",
    "SkVerif.C07.score_arg_order_witness",
    "SkVerif.C07.cutoff_and_len_columns",
    "SkVerif.C07.cutoff_column_is_last_train_label",
    "SkVerif.C07.return_data_columns",
    "SkVerif.C07.trace_eq_honest_calls",
    "SkVerif.C07.no_future_in_trace",
    "SkVerif.C07.xtest_rows_are_steps_after_cutoff",
    "SkVerif.C07.folds_ordered_window",
    "SkVerif.C07.folds_ordered_single",
    "SkVerif.C07.folds_ordered_cutoff",
    "SkVerif.C07.evaluate_rejects",
    "SkVerif.C07.evaluate_accepts",
]
TRUSTED = ["hand-written model SkVerif/Model/Evaluate.lean of evaluate/_split/_check_strategy and of check_cv, check_scoring, check_y_X",
           "the splitter model of C01 (SkVerif/Model/Split.lean), tied to _split.py by C01's own correspondence",
           "the recording forecaster `Rec` (harness) and its Lean twin in Drv/C07.lean: only used to drive the correspondence; the theorems hold for every forecaster machine",
           "concrete metric formulas in Drv/C07.lean (sMAPE/MAPE/asym) are correspondence-only; the theorems hold for every metric function"]
ASSUMPTIONS = ["integer time index (positions/labels); datetime/period indexes out of scope",
               "a forecaster is modelled as a state machine whose operations are functions of (state, arguments) and may raise; nondeterministic forecasters and timing columns are not modelled",
               "refit rows are compared with a FRESH forecaster under the explicit hypothesis that fit does not depend on the earlier state (FitResets)",
               "observations = the y and X handed to fit/update; the exogenous rows handed to predict are by design future-dated and are not counted as leaked observations"]
RULE = ("exhaustive small scope over splitter kind x fh x window x step x strategy x X/no X x return_data for 3<=n<=7 (quick: seed-rotated 1/23 slice; n=8,9 sampled 2/5 in thorough), metric rotated, "
        "(feasible window configurations all, infeasible ones 1/5) + random series up to n=120 with gapped / shifted labels + failing-forecaster histories "
        "+ series of dtype float64 / float32 / int64 / int32 (whole numbers for the integer dtypes) and exogenous frames of dtype float64 / float32 / int64 in every evaluate stream "
        "+ missing values in y (leading block / interior / trailing; a fifth of the recording-forecaster cases) + scorers with greater_is_better=True "
        "(library scorer objects and custom callables) next to loss metrics in every stream "
        "+ forecaster instances that are not fresh (fitted/updated/predicted on earlier, later or overlapping data, or evaluated before with another splitter/series) "
        "+ malformed arguments + direct _split calls + an oracle-only stream with sktime's NaiveForecaster and metric objects; "
        "distinct by driver line; non-trivial = evaluate returned a table with at least one row")
LEVEL_TEXT = ("Lean 4 theorems, for all series, splitter configurations, both strategies, all forecaster machines and all metrics, about an executable model of evaluate(): "
              "one row per split, each row = the honest fold (fresh fit / fit-once-then-update) on exactly that split's window and test labels, len_train_window and cutoff columns, "
              "return_data columns, the forecaster's call trace = the honest calls, and no observation at or after a fold's first test label reaches the forecaster before that fold's predict "
              "(from C01's train_lt_test and cutoff progression), and the metric applied as metric(y_true, y_pred) for every metric (full strength since /repo fix 0f68875; "
              "the earlier scoring(y_pred, y_test) defect is recorded as fixed). The model is tied to the code by a differential correspondence with a recording forecaster.")
LEVEL_NOTE = ("Trusted: Lean kernel, axioms propext/Classical.choice/Quot.sound, faithfulness of the model as exercised by the correspondence, C01 splitter model, harness + compat layer. "
              "Only modelled: timing columns (absent), pandas append/astype mechanics (a row list). Integer index only.")
TECHNIQUE = "Lean 4 proof (structural induction over the fold loop, refinement against an honest per-fold specification) + differential correspondence with a recording forecaster and asymmetric metrics"

# A missing value (NaN) in y is, for evaluate, just one more value it hands through.  The recording forecaster and the
# harness metrics "tolerate" NaN by reading it as the sentinel NAN_AS; the driver line and every printed series carry
# the sentinel too, so the value-polymorphic model sees an ordinary number.
NAN_AS = -1024.0


def _nn(v):
    v = float(v)
    return NAN_AS if v != v else v


ERR_EXC = {"value": ValueError, "type": TypeError, "key": KeyError, "index": IndexError, "notimpl": NotImplementedError,
           "attr": AttributeError}


def is_exhaustive(tier):
    return tier == "thorough"


# ----------------------------------------------------------------------------- recording forecaster
_REC = None


def rec_class():
    """Real sktime forecaster subclass; records every call; deterministic exact forecasts."""
    global _REC
    if _REC is not None:
        return _REC
    from sktime.forecasting.base._sktime import _SktimeForecaster, _OptionalForecastingHorizonMixin
    from sktime.forecasting.base import ForecastingHorizon
    from sktime.utils.validation.forecasting import check_fh

    def fr(v):
        return Fraction(_nn(v))

    def dig(y):
        return sum(((j + 1) * fr(v) for j, v in enumerate(np.asarray(y, dtype="float64"))), Fraction(0))

    def xdig(X):
        if X is None:
            return Fraction(0)
        a = np.asarray(X, dtype="float64")
        return sum(((c + 1) * fr(a[r, c]) for r in range(a.shape[0]) for c in range(a.shape[1])), Fraction(0)) / 2

    def fh_desc(fh, cutoff):
        """the time points a horizon argument denotes (absolute labels), however it is represented"""
        if fh is None:
            return "nofh"
        try:
            return show_ints(check_fh(fh).to_absolute(cutoff).to_pandas())
        except Exception as e:
            return "badfh"

    def ser(y):
        return "%s:%s" % (show_ints(y.index), show_rats(_nn(v) for v in np.asarray(y, dtype="float64")))

    def frame(X):
        if X is None:
            return "none"
        a = np.asarray(X, dtype="float64")
        rows = ["_".join(show_rat(float(v)) for v in a[r]) for r in range(a.shape[0])]
        return "%s:%s" % (show_ints(X.index), "-" if not rows else ",".join(rows))

    class Rec(_OptionalForecastingHorizonMixin, _SktimeForecaster):
        def __init__(self, fail=None):
            self.fail = fail
            self.log = []
            self.ncalls = 0
            self.fitD = Fraction(0); self.lastD = Fraction(0); self.k = 0
            super().__init__()

        def _tick(self):
            self.ncalls += 1
            if self.fail is not None and self.fail[0] == self.ncalls:
                raise ERR_EXC[self.fail[1]]("injected failure")

        def fit(self, y, X=None, fh=None, tag=None):
            self.log.append("F~%s~%s~%s~%s" % (ser(y), frame(X), fh_desc(fh, y.index[-1] if len(y) else None), "none" if tag is None else int(tag)))
            self._tick()
            if fh is not None:
                fh = check_fh(fh)             # an empty horizon is a ValueError, as in every sktime forecaster
            self._fh = fh
            self.fitD = dig(y) + xdig(X) + (0 if tag is None else int(tag))
            self.lastD = self.fitD
            self.k = 0
            self._set_cutoff(y.index[-1])
            self._is_fitted = True
            return self

        def update(self, y, X=None, update_params=True):
            self.log.append("U~%s~%s%s" % (ser(y), frame(X), "" if update_params is True else "~update_params=%r" % (update_params,)))
            self._tick()
            self.check_is_fitted()
            self.lastD = dig(y) + xdig(X)
            self.k += 1
            if len(y) > 0:
                self._set_cutoff(y.index[-1])
            return self

        def predict(self, fh=None, X=None, return_pred_int=False, alpha=0.05):
            self.log.append("P~%s~%s" % (fh_desc(fh, self.cutoff), frame(X)))
            self._tick()
            self.check_is_fitted()
            fh = check_fh(fh)
            labels = [int(v) for v in fh.to_absolute(self.cutoff).to_pandas()]
            xs = {}
            if X is not None:
                a = np.asarray(X, dtype="float64")
                for r, lab in enumerate(X.index):
                    xs.setdefault(int(lab), sum((fr(v) for v in a[r]), Fraction(0)))
            vals = [self.lastD + self.fitD / 2 + Fraction(self.k, 4) + Fraction(L - int(self.cutoff), 8) + xs.get(L, 0)
                    for L in labels]
            return pd.Series([float(v) for v in vals], index=pd.Index(labels, dtype="int64"))

    _REC = Rec
    return Rec


# ----------------------------------------------------------------------------- metrics (harness side)
class _M:
    def __init__(self, name, f):
        if name is not None:
            self.name = name
        self._f = f

    def __call__(self, y_true, y_pred):
        return float(self._f(_arr(y_true), _arr(y_pred)))


def _arr(v):
    a = np.asarray(v, dtype="float64").copy()
    a[a != a] = NAN_AS
    return a


def _asym(a, b):
    return np.sum(2 * a - b)


def _wasym(a, b):
    return np.sum((np.arange(len(a)) + 1) * (2 * a - b))


def _sym(a, b):
    return np.sum(np.abs(a - b))


def make_metric(kind):
    """returns (scoring argument for evaluate, metric as a function of (y_true, y_pred) or None)"""
    if kind == "asym":
        m = _M("asym", _asym); return m, m
    if kind == "wasym":
        m = _M("wasym", _wasym); return m, m
    if kind == "sym":
        m = _M("sym", _sym); return m, m
    if kind == "gasym":       # a library scorer object with greater_is_better=True
        from sktime.performance_metrics.forecasting import make_forecasting_scorer
        m = make_forecasting_scorer(lambda yt, yp: float(_asym(_arr(yt), _arr(yp))), name="gasym", greater_is_better=True)
        return m, m
    if kind == "gcust":       # a custom callable carrying that attribute
        m = _M("gcust", _wasym); m.greater_is_better = True
        return m, m
    if kind == "gmae":        # library stream: a score (greater is better) next to the loss metrics
        from sktime.performance_metrics.forecasting import make_forecasting_scorer
        m = make_forecasting_scorer(lambda yt, yp: float(np.mean(np.abs(np.asarray(yt, dtype="float64") - np.asarray(yp, dtype="float64")))) + 0.5,
                                    name="gmae", greater_is_better=True)
        return m, m
    if kind == "noname":
        m = _M(None, _asym); return m, None
    if kind == "notcallable":
        return 5, None
    from sktime.performance_metrics.forecasting import MeanAbsolutePercentageError
    if kind == "default":
        return None, MeanAbsolutePercentageError()
    if kind == "mape":
        m = MeanAbsolutePercentageError(symmetric=False); return m, m
    raise ValueError(kind)


# ----------------------------------------------------------------------------- building the arguments
def make_cv(cv):
    from sktime.forecasting.model_selection import (SlidingWindowSplitter, ExpandingWindowSplitter,
                                                    SingleWindowSplitter, CutoffSplitter)
    k = cv[0]
    if k == "s":
        return SlidingWindowSplitter(fh=list(cv[1]), window_length=cv[2], step_length=cv[3], initial_window=cv[4],
                                     start_with_window=cv[5])
    if k == "e":
        return ExpandingWindowSplitter(fh=list(cv[1]), initial_window=cv[2], step_length=cv[3], start_with_window=cv[4])
    if k == "w":
        return SingleWindowSplitter(fh=list(cv[1]), window_length=cv[2])
    if k == "c":
        return CutoffSplitter(np.array(cv[1], dtype="int64"), fh=list(cv[2]), window_length=cv[3])
    return "not a splitter"


def make_data(c):
    """`ydt` / `xdt` = dtype of the series / of the exogenous frame (float64 when absent); the values of a case with an
    integer dtype are whole numbers, those of a float32 case are exactly representable"""
    y = pd.Series(np.array([np.nan if v is None else v for v in c["yv"]], dtype="float64").astype(c.get("ydt") or "float64"), index=pd.Index(np.array(c["yl"], dtype="int64")))
    X = None
    if c.get("x") is not None:
        xl = c.get("xl") or c["yl"]
        rows = np.array(c["x"], dtype="float64").reshape(len(xl), -1).astype(c.get("xdt") or "float64")
        X = pd.DataFrame(rows, index=pd.Index(np.array(xl, dtype="int64")), columns=["c%d" % j for j in range(rows.shape[1])])
    return y, X


def _ser(s):
    return "%s:%s" % (show_ints(s.index), show_rats(_nn(v) for v in np.asarray(s, dtype="float64")))


def _safe(f, *a):
    """describe a piece of evaluate's RESULT without ever raising: what cannot be shown is the token `?`"""
    try:
        return f(*a)
    except Exception:
        return "?"


def _ints_tok(col):
    vals = list(col)
    if not vals:
        return "-"
    out = []
    for v in vals:
        try:
            fv = float(v)
            out.append(str(int(fv)) if fv == int(fv) else "?")
        except Exception:
            out.append("?")
    return ",".join(out)


def _floats_tok(col, exact=True):
    vals = list(col)
    if not vals:
        return "-"
    out = []
    for v in vals:
        try:
            out.append(show_rat(float(v)) if exact else repr(float(v)))
        except Exception:
            out.append("?")
    return ",".join(out)


def _col(res, name):
    return res[name] if name in res.columns else []


def _frame(X):
    if X is None:
        return "none"
    a = np.asarray(X, dtype="float64")
    rows = ["_".join(show_rat(float(v)) for v in a[r]) for r in range(a.shape[0])]
    return "%s:%s" % (show_ints(X.index), "-" if not rows else ",".join(rows))


def _x_tok(c):
    if c.get("x") is None:
        return "none"
    xl = c.get("xl") or c["yl"]
    rows = ["_".join(show_rat(float(v)) for v in r) for r in c["x"]]
    return "%s:%s" % (show_ints(xl), "-" if not rows else ",".join(rows))


def _pre_series(labels, values):
    return pd.Series(np.array(values, dtype="float64"), index=pd.Index(np.array(labels, dtype="int64")))


def _pre_tok(pre):
    """driver token for the forecaster's history; calls in the trace encoding"""
    if pre is None:
        return "none"
    if pre[0] == "eval":
        return "ev=%s!%s!%s!%s!none" % (_cv_tok(pre[1]), {"refit": "r", "update": "u"}[pre[2]], show_ints(pre[3]), show_rats(pre[4]))
    toks = []
    for op in pre[1]:
        if op[0] == "fit":       # fit(y, fh=[1]): horizon = the label after the last one (relative step 1)
            toks.append("F~%s:%s~none~%s~none" % (show_ints(op[1]), show_rats(op[2]), op[1][-1] + 1))
        elif op[0] == "update":
            toks.append("U~%s:%s~none" % (show_ints(op[1]), show_rats(op[2])))
        else:
            toks.append("P~%s~none" % show_ints(op[1]))
    return "ops=" + ";".join(toks)


def apply_pre(f, pre, rec=True):
    """put a forecaster instance through the history `pre` (errors of the history are ignored)"""
    from sktime.forecasting.base import ForecastingHorizon
    from sktime.forecasting.model_evaluation import evaluate
    if pre is None:
        return
    if pre[0] == "eval":
        try:
            evaluate(f, make_cv(pre[1]), _pre_series(pre[3], pre[4]), strategy=pre[2], scoring=make_metric("asym")[0])
        except Exception:
            pass
        return
    for op in pre[1]:
        try:
            if op[0] == "fit":
                f.fit(_pre_series(op[1], op[2]), fh=ForecastingHorizon(np.array([op[1][-1] + 1], dtype="int64"), is_relative=False))
            elif op[0] == "update":
                f.update(_pre_series(op[1], op[2]))
            else:
                f.predict(ForecastingHorizon(np.array(op[1], dtype="int64"), is_relative=False))
        except Exception:
            pass


def _cv_tok(cv):
    o = lambda v: "none" if v is None else str(v)
    k = cv[0]
    if k == "s":
        return "s|%s|%d|%d|%s|%s" % (show_ints(cv[1]), cv[2], cv[3], o(cv[4]), show_bool(cv[5]))
    if k == "e":
        return "e|%s|%d|%d|%s" % (show_ints(cv[1]), cv[2], cv[3], show_bool(cv[4]))
    if k == "w":
        return "w|%s|%s" % (show_ints(cv[1]), o(cv[2]))
    if k == "c":
        return "c|%s|%s|%d" % (show_ints(cv[1]), show_ints(cv[2]), cv[3])
    return "ns"


def to_line(c):
    if c["op"] == "eval":
        strat = {"refit": "r", "update": "u"}.get(c["strat"], "x")
        fail = "none" if c.get("fail") is None else "%d:%s" % (c["fail"][0], c["fail"][1])
        return "C07 eval %s %s %s %s %s %s %s %s %s %s" % (
            _cv_tok(c["cv"]), strat, c["met"], show_bool(c["rd"]), "none" if c.get("fp") is None else c["fp"], fail,
            _pre_tok(c.get("pre")), show_ints(c["yl"]), show_rats(NAN_AS if v is None else v for v in c["yv"]), _x_tok(c))
    if c["op"] == "lib":
        return None
    if c["op"] == "split":
        return "C07 split %s %s %s %s %s %s" % (show_ints(c["train"]), show_ints(c["test"]), show_ints(c["fh"]),
                                               show_ints(c["yl"]), show_rats(c["yv"]), _x_tok(c))
    raise ValueError(c["op"])


def lib_forecaster(fc):
    """sktime's own forecasters for the oracle-only stream: naive strategies, and reductions (recursive = horizon optional,
    direct = horizon REQUIRED at fit)"""
    from sktime.forecasting.naive import NaiveForecaster
    if fc.startswith("red:"):
        from sklearn.linear_model import LinearRegression
        from sktime.forecasting.compose import make_reduction
        return make_reduction(LinearRegression(), strategy=fc.split(":")[1], window_length=2)
    return NaiveForecaster(strategy=fc)


# ----------------------------------------------------------------------------- real code
def run_real(c):
    if c["op"] == "split":
        from sktime.forecasting.model_evaluation._functions import _split
        try:
            y, X = make_data(c)
            ytr, yte, xtr, xte = _split(y, X, np.array(c["train"], dtype="int64"), np.array(c["test"], dtype="int64"), list(c["fh"]))
            return "ytrain=%s ytest=%s xtrain=%s xtest=%s" % (_ser(ytr), _ser(yte), _frame(xtr), _frame(xte))
        except Exception as e:
            return "err=" + canon_err(e)
    from sktime.forecasting.model_evaluation import evaluate
    if c["op"] == "lib":
        from sktime.forecasting.naive import NaiveForecaster
        try:
            y, _ = make_data(c)
            scoring, _ = make_metric(c["met"])
            f = lib_forecaster(c["fc"])
            apply_pre(f, c.get("pre"))
            res = evaluate(f, make_cv(c["cv"]), y, strategy=c["strat"], scoring=scoring, return_data=True)
        except Exception as e:
            return "err=%s score=- len=- cut=- pred=-" % canon_err(e)
        sc = [col for col in res.columns if str(col).startswith("test_")]
        preds = [_safe(lambda p: "%s:%s" % (show_ints(p.index), _floats_tok(p, exact=False)), p) for p in _col(res, "y_pred")]
        return "err=none score=%s len=%s cut=%s pred=%s" % (
            _floats_tok(_col(res, sc[0]), exact=False) if sc else "-", _ints_tok(_col(res, "len_train_window")),
            _ints_tok(_col(res, "cutoff")), ";".join(preds) if preds else "-")
    Rec = rec_class()
    f = Rec(fail=c.get("fail"))
    apply_pre(f, c.get("pre"))
    npre = len(f.log)
    err, name, score, ln, cut, data = "none", "-", "-", "-", "-", "-"
    res = None
    try:
        y, X = make_data(c)
        scoring, _ = make_metric(c["met"])
        res = evaluate(f, make_cv(c["cv"]), y, X=X, strategy=c["strat"], scoring=scoring,
                       fit_params=None if c.get("fp") is None else {"tag": c["fp"]}, return_data=c["rd"])
    except Exception as e:
        err = canon_err(e)
    if res is not None:
        cols = [str(col) for col in res.columns if col not in ("fit_time", "pred_time")]
        sc = [col for col in cols if col.startswith("test_")]
        name = ",".join(sc) if sc else "-"
        score = _floats_tok(_col(res, sc[0])) if sc else "-"
        ln = _ints_tok(_col(res, "len_train_window"))
        cut = _ints_tok(_col(res, "cutoff"))
        has = [col in cols for col in ("y_train", "y_test", "y_pred")]
        if all(has):
            rows = ["%s!%s!%s" % (_safe(_ser, r["y_train"]), _safe(_ser, r["y_test"]), _safe(_ser, r["y_pred"])) for _, r in res.iterrows()]
            data = ";".join(rows) if rows else "-"
        elif any(has):
            data = "partial"
        else:
            data = "none"
    return "err=%s name=%s score=%s len=%s cut=%s data=%s npre=%d trace=%s" % (err, name, score, ln, cut, data, npre, ";".join(f.log) if f.log else "-")


# ----------------------------------------------------------------------------- comparison (floats vs exact rationals)
def _fields(out):
    d = {}
    for tok in out.split(" "):
        k, v = tok.split("=", 1)
        d[k] = v
    return d


def _close_list(a, b):
    if a == b:
        return True
    if a == "-" or b == "-":
        return False
    xa, xb = a.split(","), b.split(",")
    if len(xa) != len(xb):
        return False
    for p, q in zip(xa, xb):
        try:
            fp = parse_rat(p); fq = parse_rat(q)
        except Exception:
            return False
        if not close(None if fp is None else float(fp), fq):
            return False
    return True


def _close_series(a, b):
    if a == b:
        return True
    if ":" not in a or ":" not in b:
        return False
    la, va = a.split(":", 1); lb, vb = b.split(":", 1)
    return la == lb and _close_list(va, vb)


def compare(real, model):
    if real == model:
        return True
    try:
        r, m = _fields(real), _fields(model)
    except Exception:
        return False
    if set(r) != set(m):
        return False
    for k in r:
        if r[k] == m[k]:
            continue
        if k == "score":
            if not _close_list(r[k], m[k]):
                return False
        elif k == "data":
            ra, ma = r[k].split(";"), m[k].split(";")
            if len(ra) != len(ma):
                return False
            for x, z in zip(ra, ma):
                px, pz = x.split("!"), z.split("!")
                if len(px) != 3 or len(pz) != 3 or px[0] != pz[0] or px[1] != pz[1] or not _close_series(px[2], pz[2]):
                    return False
        else:
            return False
    return True


# ----------------------------------------------------------------------------- oracle (the property text on the real observation)
def _in_scope(c):
    """the property quantifies over real splitters with start_with_window=True, the two strategies,
    metric objects (callable with a name), forecasters that do not raise"""
    cv = c["cv"]
    if cv[0] == "ns" or c["strat"] not in ("refit", "update") or c["met"] in ("noname", "notcallable"):
        return False
    if cv[0] == "s" and not cv[5]:
        return False
    if cv[0] == "e" and not cv[4]:
        return False
    fh = cv[2] if cv[0] == "c" else cv[1]
    if not fh or any(h <= 0 for h in fh) or len(set(fh)) != len(fh):
        return False                      # out-of-sample horizons only (C01's scope)
    yl = c["yl"]
    if any(b <= a for a, b in zip(yl, yl[1:])):
        return False                      # time points must be distinct and ordered
    if c.get("xl") is not None and c["xl"] != yl:
        return False
    return True


def _cv_valid(c):
    """a valid choice of splitter parameters for the series (the validity rules of C01)"""
    cv, n = c["cv"], len(c["yl"])
    k = cv[0]
    fh = cv[2] if k == "c" else cv[1]
    m = max(fh)
    if k == "s":
        wl, step, iw = cv[2], cv[3], cv[4]
        return wl >= 1 and step >= 1 and wl + m <= n and (iw is None or (iw > wl and iw + m <= n))
    if k == "e":
        return cv[2] >= 1 and cv[3] >= 1 and cv[2] + m <= n
    if k == "w":
        return m <= n - 1 and (cv[2] is None or (cv[2] >= 1 and cv[2] + m <= n))
    if k == "c":
        return cv[3] >= 1 and len(cv[1]) > 0 and all(0 <= x and x + m <= n - 1 for x in cv[1])
    return False


def _parse_series(s):
    l, v = s.split(":", 1)
    return ([] if l == "-" else [int(x) for x in l.split(",")]), ([] if v == "-" else [parse_rat(x) for x in v.split(",")])


def _parse_call(s):
    return s.split("~")


def _frame_labels(s):
    if s == "none":
        return []
    l = s.split(":", 1)[0]
    return [] if l == "-" else [int(v) for v in l.split(",")]


def _oracle_lib(c, out):
    """honest folds with sktime's own NaiveForecaster and metric objects"""
    fails = []
    from sktime.forecasting.base import ForecastingHorizon
    from sktime.forecasting.naive import NaiveForecaster
    d = _fields(out)
    y, _ = make_data(c)
    try:
        splits = [(list(tr), list(te)) for tr, te in make_cv(c["cv"]).split(y)]
    except Exception:
        return fails
    if d["err"] != "none":
        if splits and _cv_valid(c) and not c["fc"].startswith("red:"):
            fails.append(("evaluate:valid-call-raised", "evaluate raised %s with NaiveForecaster on an in-scope input" % d["err"]))
        elif splits and _cv_valid(c):
            # a reduction may itself refuse a fold (window too short for its lags, update with a horizon-bound forecaster):
            # evaluate must raise only where the honest per-fold procedure raises too
            try:
                g = lib_forecaster(c["fc"])
                for i, (tr, te) in enumerate(splits):
                    fh = ForecastingHorizon(y.index[te], is_relative=False)
                    if c["strat"] == "refit":
                        g = lib_forecaster(c["fc"]); g.fit(y.iloc[tr], fh=fh)
                    elif i == 0:
                        g.fit(y.iloc[tr], fh=fh)
                    else:
                        g.update(y.iloc[tr])
                    g.predict(fh)
            except Exception:
                return fails
            key = "evaluate:refit-reuses-fitted-forecaster-bound-to-first-horizon" if (c["strat"] == "refit" and d["err"] == "E:value" and c["fc"] == "red:direct") \
                else "evaluate:valid-call-raised"
            fails.append((key, "evaluate raised %s with %s (%s) where fitting a fresh forecaster per fold answers every fold" % (d["err"], c["fc"], c["strat"])))
        return fails
    scores = parse_floats_(d["score"])
    lens = parse_ints_(d["len"]); cuts = parse_ints_(d["cut"])
    preds = [] if d["pred"] in ("-", "") else d["pred"].split(";")
    if not (len(scores) == len(lens) == len(cuts) == len(preds) == len(splits)):
        return [_rows_vs_splits([len(scores), len(lens), len(cuts), len(preds)], splits)]
    _, metric = make_metric(c["met"])
    g = lib_forecaster(c["fc"])
    for i, (tr, te) in enumerate(splits):
        fh = ForecastingHorizon(y.index[te], is_relative=False)
        if c["strat"] == "refit":
            g = lib_forecaster(c["fc"]); g.fit(y.iloc[tr], fh=fh)
        elif i == 0:
            g.fit(y.iloc[tr], fh=fh)
        else:
            g.update(y.iloc[tr])
        yp = g.predict(fh)
        got_lab, _, got_val = preds[i].partition(":")
        got = parse_floats_(got_val)
        if got_lab != show_ints(yp.index) or len(got) != len(yp) or not all(_near(a, float(b)) for a, b in zip(got, yp)):
            fails.append(("evaluate:forecast-differs-from-honest-fold", "fold %d (NaiveForecaster %s): %s vs %s" % (i, c["fc"], preds[i], list(yp))))
            break
        want = float(metric(y.iloc[te], yp))
        if not _near(scores[i], want):
            swapped = float(metric(yp, y.iloc[te]))
            if _near(scores[i], swapped):
                fails.append(("evaluate:score-args-swapped", "fold %d (NaiveForecaster, %s): reported %r = metric(y_pred, y_true); metric(y_true, y_pred) = %r" % (i, c["met"], scores[i], want)))
            else:
                fails.append(("evaluate:score-differs-from-honest-fold", "fold %d (NaiveForecaster): reported %r, honest fold gives %r" % (i, scores[i], want)))
            break
        if lens[i] != len(tr):
            fails.append(("evaluate:len-train-window", "fold %d: %s, window has %d" % (i, lens[i], len(tr))))
            break
        if cuts[i] != int(g.cutoff):
            fails.append(("evaluate:cutoff-column", "fold %d: %s, honest fold's forecaster says %d" % (i, cuts[i], int(g.cutoff))))
            break
    return fails


def parse_ints_(s):
    """ints of a result column; an entry that is not an int is None"""
    out = []
    for x in ([] if s in ("-", "") else s.split(",")):
        try:
            out.append(int(x))
        except Exception:
            out.append(None)
    return out


def parse_floats_(s, rational=False):
    """floats of a result column (exact rationals or reprs); nan / unreadable entries are None"""
    out = []
    for x in ([] if s in ("-", "") else s.split(",")):
        try:
            v = float(Fraction(x)) if rational else float(x)
            out.append(None if v != v else v)
        except Exception:
            out.append(None)
    return out


def _near(a, b):
    return a is not None and b is not None and b == b and abs(a - b) <= 1e-9 * max(1.0, abs(b))


def _rows_vs_splits(nrows, splits):
    return ("evaluate:rows-differ-from-splits", "%s rows for %d splits" % ("/".join(str(n) for n in sorted(set(nrows))), len(splits)))


def oracle(c, out):
    """never raises: a result of evaluate that the oracle cannot interpret is itself a failing input"""
    try:
        return _oracle(c, out)
    except Exception as e:
        return [("evaluate:result-not-interpretable", "%s: %s on output %s" % (type(e).__name__, e, str(out)[:200]))]


def _oracle(c, out):
    fails = []
    if c["op"] == "lib":
        return _oracle_lib(c, out) if _in_scope(c) else fails
    if c["op"] != "eval" or not _in_scope(c):
        return fails
    from sktime.forecasting.base import ForecastingHorizon
    d = _fields(out)
    y, X = make_data(c)
    try:
        splits = [(list(tr), list(te)) for tr, te in make_cv(c["cv"]).split(y)]
    except Exception:
        splits = None
    calls = [] if d["trace"] == "-" else [_parse_call(s) for s in d["trace"].split(";")]
    calls = calls[int(d.get("npre", "0")):]      # the forecaster's earlier history is not evaluate's doing
    # ---- no observation at or after fold i's first test time point reaches the forecaster before its predict
    if splits is not None:
        npred = 0
        seen_max = None
        for p in calls:
            if p[0] in ("F", "U"):
                labs, _ = _parse_series(p[1])
                xl = _frame_labels(p[2])
                for L in labs + xl:
                    seen_max = L if seen_max is None else max(seen_max, L)
            elif p[0] == "P":
                if npred < len(splits) and splits[npred][1]:
                    first_test = int(y.index[splits[npred][1][0]])
                    if seen_max is not None and seen_max >= first_test:
                        fails.append(("evaluate:future-observation-before-predict",
                                      "fold %d: forecaster was given time point %d before predicting test points starting at %d" % (npred, seen_max, first_test)))
                        break
                npred += 1
    if c.get("fail") is not None:
        return fails
    if d["err"] != "none":
        if splits and _cv_valid(c):   # a valid in-scope call must return a table
            fails.append(("evaluate:valid-call-raised", "evaluate raised %s on an in-scope input" % d["err"]))
        return fails
    if splits is None:
        return fails
    scores = parse_floats_(d["score"], rational=True)
    lens = parse_ints_(d["len"]); cuts = parse_ints_(d["cut"])
    if not (len(scores) == len(lens) == len(cuts) == len(splits)):
        fails.append(_rows_vs_splits([len(scores), len(lens), len(cuts)], splits))
        return fails
    # ---- the calls themselves: fold i trains on exactly split i's window and predicts exactly its test points
    fu = [p for p in calls if p[0] in ("F", "U")]
    pr = [p for p in calls if p[0] == "P"]
    if len(fu) != len(splits) or len(pr) != len(splits):
        fails.append(("evaluate:calls-not-one-fit-and-predict-per-split", "%d fit/update, %d predict calls for %d splits" % (len(fu), len(pr), len(splits))))
        return fails
    for i, (tr, te) in enumerate(splits):
        want_kind = "F" if (i == 0 or c["strat"] == "refit") else "U"
        if fu[i][0] != want_kind:
            fails.append(("evaluate:wrong-call-kind", "fold %d: %s where the strategy %s asks for %s" % (i, fu[i][0], c["strat"], want_kind)))
            break
        if fu[i][1] != _ser(y.iloc[tr]):
            fails.append(("evaluate:trained-on-other-than-the-training-window", "fold %d: got %s, window is %s" % (i, fu[i][1], _ser(y.iloc[tr]))))
            break
        if X is not None and fu[i][2] != _frame(X.iloc[tr]):
            fails.append(("evaluate:exogenous-training-rows-differ-from-window", "fold %d: got %s" % (i, fu[i][2])))
            break
        if want_kind == "F" and fu[i][4] != ("none" if c.get("fp") is None else str(c["fp"])):
            fails.append(("evaluate:fit-params-not-passed", "fold %d: fit received %s" % (i, fu[i][4])))
            break
        if pr[i][1] != show_ints(y.index[te]):
            fails.append(("evaluate:predicted-other-than-the-test-points", "fold %d: asked %s, test points %s" % (i, pr[i][1], show_ints(y.index[te]))))
            break
    if fails:
        return fails
    # ---- honest per-fold computation with a fresh recording forecaster
    Rec = rec_class()
    _, metric = make_metric(c["met"])
    fp = {} if c.get("fp") is None else {"tag": c["fp"]}
    g = Rec()
    rows = [] if d["data"] in ("none", "-", "partial") else d["data"].split(";")
    for i, (tr, te) in enumerate(splits):
        fh = ForecastingHorizon(y.index[te], is_relative=False)
        ytr, yte = y.iloc[tr], y.iloc[te]
        xtr = None if X is None else X.iloc[tr]
        xte = None if X is None else X.iloc[te]
        if c["strat"] == "refit":
            g = Rec()
            g.fit(ytr, xtr, fh=fh, **fp)
        elif i == 0:
            g.fit(ytr, xtr, fh=fh, **fp)
        else:
            g.update(ytr, xtr)
        yp = g.predict(fh, X=xte)
        want = float(metric(yte, yp))
        if not _near(scores[i], want):
            swapped = float(metric(yp, yte))
            if _near(scores[i], swapped):
                fails.append(("evaluate:score-args-swapped",
                              "fold %d: reported %r = metric(y_pred, y_true); metric(y_true, y_pred) = %r" % (i, scores[i], want)))
            else:
                fails.append(("evaluate:score-differs-from-honest-fold", "fold %d: reported %r, honest fold gives %r" % (i, scores[i], want)))
            break
        if lens[i] != len(tr):
            fails.append(("evaluate:len-train-window", "fold %d: %s, window has %d" % (i, lens[i], len(tr))))
            break
        if cuts[i] != int(g.cutoff):
            fails.append(("evaluate:cutoff-column", "fold %d: %s, honest fold's forecaster says %d" % (i, cuts[i], int(g.cutoff))))
            break
        if c["rd"]:
            if len(rows) != len(splits):
                fails.append(("evaluate:return-data-columns-missing", d["data"][:80]))
                break
            a, b, p = (rows[i].split("!") + ["?", "?", "?"])[:3]
            if a != _ser(ytr) or b != _ser(yte) or not _close_series(p, _ser(yp)):
                fails.append(("evaluate:return-data-columns-differ", "fold %d: %s" % (i, rows[i][:120])))
                break
        elif d["data"] != "none":
            fails.append(("evaluate:data-columns-without-return-data", d["data"][:80]))
            break
    return fails


def nontrivial(c, out):
    if c["op"] == "split":
        return out.startswith("ytrain=")
    if c["op"] == "lib":
        return out.startswith("err=none")
    d = _fields(out)
    return d["err"] == "none" and d["len"] != "-"


def features(c, out):
    if c["op"] == "split":
        return ["op=split", "split=" + ("ok" if out.startswith("ytrain=") else out)]
    if c["op"] == "lib":
        return ["op=lib", "lib-prior-state=" + ("fresh" if c.get("pre") is None else "evaluated-before" if c["pre"][0] == "eval" else "fitted-on-other-data"),
                "lib-initial_window=" + ("yes" if c["cv"][0] == "s" and c["cv"][4] is not None else "no"),
                "lib-y-dtype=" + (c.get("ydt") or "float64"),
                "lib-forecaster=naive-" + c["fc"], "lib-metric=" + c["met"], "lib-strategy=" + c["strat"],
                "lib-result=" + ("table" if out.startswith("err=none") else out.split(" ")[0])]
    d = _fields(out)
    f = ["op=eval", "cv=" + c["cv"][0], "strategy=" + str(c["strat"]), "metric=" + c["met"], "X=" + ("yes" if c.get("x") is not None else "no"),
         "return_data=%s" % c["rd"], "result=" + ("table" if d["err"] == "none" else d["err"]), "fail=" + ("no" if c.get("fail") is None else "injected"),
         "initial_window=" + ("yes" if c["cv"][0] == "s" and c["cv"][4] is not None else "no"),
         "y-dtype=" + (c.get("ydt") or "float64"), "y-missing=" + (c.get("nan") or "none"), "X-dtype=" + ("none" if c.get("x") is None else (c.get("xdt") or "float64")),
         "prior-state=" + ("fresh" if c.get("pre") is None else "evaluated-before" if c["pre"][0] == "eval" else "fitted-on-other-data")]
    if d["err"] == "none":
        n = len(parse_ints_(d["len"]))
        f.append("rows=%s" % ("0" if n == 0 else "1" if n == 1 else "2-5" if n <= 5 else "6-20" if n <= 20 else "21+"))
    f.append("n=%s" % ("<=9" if len(c["yl"]) <= 9 else "<=40" if len(c["yl"]) <= 40 else ">40"))
    return f


# ----------------------------------------------------------------------------- generators
def _labels(rng, n, mode):
    if mode == "zero":
        return list(range(n))
    if mode == "shift":
        o = rng.choice([5, -3, 100])
        return list(range(o, o + n))
    out, cur = [], rng.choice([0, 2, -7])
    for _ in range(n):
        out.append(cur)
        cur += rng.choice([1, 1, 1, 2, 3])
    return out


YDTYPES = ["float64", "float64", "float64", "int64", "int64", "int32", "float32"]
XDTYPES = ["float64", "float64", "int64", "float32"]


def _is_int(dt):
    return dt is not None and dt.startswith(("int", "uint"))


def _values(rng, n, dt=None):
    if _is_int(dt):
        return [float(rng.randrange(1, 129)) for _ in range(n)]
    return [rng.randrange(1, 129) / 8 for _ in range(n)]


def _xrows(rng, n, ncol, dt=None):
    if _is_int(dt):
        return [[float(rng.randrange(0, 33)) for _ in range(ncol)] for _ in range(n)]
    return [[rng.randrange(0, 33) / 4 for _ in range(ncol)] for _ in range(n)]


METRICS = ["asym", "wasym", "sym", "default", "mape", "gasym", "gcust"]
NAN_OK_METRICS = ["asym", "wasym", "sym", "gasym", "gcust"]      # sktime's own metrics reject NaN input


def _with_nan(rng, c):
    """missing values in y as a dimension: a leading block (differenced / lagged / rolling series), interior,
    trailing; float dtype, NaN-tolerant metric"""
    n = len(c["yv"])
    kind = rng.choice(["lead", "lead", "lead", "interior", "trail", "lead+interior"])
    yv = list(c["yv"])
    if "lead" in kind:
        for i in range(rng.randrange(1, max(2, min(4, n - 2)))):
            yv[i] = None
    if "interior" in kind and n > 4:
        yv[rng.randrange(2, n - 1)] = None
    if kind == "trail":
        for i in range(rng.randrange(1, 3)):
            yv[n - 1 - i] = None
    c["yv"] = yv
    if _is_int(c.get("ydt")):
        c["ydt"] = "float64"
    if c["met"] not in NAN_OK_METRICS:
        c["met"] = rng.choice(NAN_OK_METRICS)
    c["nan"] = kind
    return c
FHS = [[1], [2], [1, 2], [1, 3], [2, 3], [1, 2, 3], [3]]


def _gen_pre(rng, yl):
    """a history for the forecaster instance: fitted / updated / predicted on data before, after or overlapping
    the series' time points, or evaluated once already (other splitter, other series)"""
    lo, hi = yl[0], yl[-1]
    def stretch(kind):
        m = rng.randrange(2, 7)
        start = {"earlier": lo - m - rng.randrange(0, 4), "later": hi + rng.randrange(1, 4),
                 "overlap": lo + rng.randrange(0, max(1, hi - lo)), "same": lo}[kind]
        return list(range(start, start + m)), _values(rng, m)
    r = rng.random()
    if r < 0.35:
        m = rng.randrange(6, 14)
        o = rng.choice([lo, lo - 3, hi - 2, hi + 5, 0])
        fh = rng.choice([[1], [1, 2], [3]])
        cv = rng.choice([["e", fh, 2, rng.randrange(1, 3), True], ["s", fh, 3, rng.randrange(1, 3), None, True], ["w", fh, None]])
        return ["eval", cv, rng.choice(["refit", "update"]), list(range(o, o + m)), _values(rng, m)]
    ops = []
    l, v = stretch(rng.choice(["earlier", "later", "overlap", "same"]))
    ops.append(["fit", l, v])
    if r < 0.7:
        if rng.random() < 0.6:
            ops.append(["predict", [l[-1] + 1, l[-1] + 2]])
        if rng.random() < 0.7:
            l2 = list(range(l[-1] + 1, l[-1] + 1 + rng.randrange(1, 4)))
            ops.append(["update", l2, _values(rng, len(l2))])
    return ["ops", ops]


def _mk(rng, cv, n, strat, met, rd, x, lab="zero", fp=None, fail=None):
    ydt, xdt = rng.choice(YDTYPES), rng.choice(XDTYPES)
    if fail is None and rng.random() < 0.2:
        c = _mk(rng, cv, n, strat, met, rd, x, lab, fp, ("nonan",))
        c["fail"] = None
        return _with_nan(rng, c)
    if fail == ("nonan",):
        fail = None
    c = {"op": "eval", "cv": cv, "strat": strat, "met": met, "rd": rd, "fp": fp, "fail": fail, "pre": None,
         "yl": _labels(rng, n, lab), "yv": _values(rng, n, ydt), "x": None if not x else _xrows(rng, n, x, xdt), "xl": None,
         "ydt": ydt, "xdt": xdt if x else None}
    return c


def gen_cases(tier, rng):
    quick = tier == "quick"
    cases = []
    # ---- exhaustive small scope (fixed order); quick = seed-rotated 1/23 slice; thorough = all of n<=7, 2/5 of n=8,9
    mod = 23
    rot = rng.randrange(mod)
    cnt = 0
    for n in range(3, 10):
        for fh in FHS:
            cvs = []
            for wl in range(1, 5):
                for step in range(1, 4):
                    cvs.append(["s", fh, wl, step, None, True])
                    cvs.append(["e", fh, wl, step, True])
                    cvs.append(["s", fh, wl, step, wl + 1, True])
                    cvs.append(["s", fh, wl, step, wl + 2, True])
                cvs.append(["w", fh, wl])
            cvs.append(["w", fh, None])
            for cs in ([1], [2, 4], [0, 3, 5], [n - 2], [3, 1]):
                cvs.append(["c", cs, fh, 2])
            for cv in cvs:
                for strat in ("refit", "update"):
                    for x in (0, 1, 2):
                        for rd in (False, True):
                            cnt += 1
                            if quick and cnt % mod != rot:
                                continue
                            if not quick and n > 7 and cnt % 5 not in (rot % 5, (rot + 2) % 5):
                                continue
                            if cv[0] in ("s", "e") and cv[2] + max(fh) > n and cnt % 5:
                                continue             # mostly feasible configurations
                            cases.append(_mk(rng, cv, n, strat, METRICS[cnt % len(METRICS)] if rng.random() < 0.5 else rng.choice(["asym", "wasym"]),
                                             rd, x, lab=rng.choice(["zero", "shift", "gap"]),
                                             fp=rng.choice([None, None, 3])))
    # ---- random larger series
    nr = 500 if quick else 5000
    for _ in range(nr):
        n = int(min(120, max(3, rng.lognormvariate(2.8, 0.8))))
        nf = rng.choice([1, 1, 2, 3])
        top = max(1, min(n - 1, 8))
        fh = sorted(rng.sample(range(1, top + 1), min(nf, top)))
        wl = rng.randrange(1, max(2, n // 2))
        step = rng.choice([1, 1, 2, 3, 5, rng.randrange(1, max(2, n // 3))])
        k = rng.random()
        if k < 0.4:
            cv = ["s", fh, wl, step, rng.choice([None, None, wl + rng.randrange(1, 5)]), True]
        elif k < 0.7:
            cv = ["e", fh, wl, step, True]
        elif k < 0.82:
            cv = ["w", fh, rng.choice([None, wl])]
        else:
            cv = ["c", rng.sample(range(n), min(n, rng.randrange(1, 6))), fh, wl]
        c = _mk(rng, cv, n, rng.choice(["refit", "update"]), rng.choice(METRICS + ["asym", "wasym"]), rng.random() < 0.4,
                rng.choice([0, 0, 1, 2, 3]), lab=rng.choice(["zero", "shift", "gap", "gap"]), fp=rng.choice([None, None, None, 2, -5]))
        if rng.random() < 0.25:
            c["pre"] = _gen_pre(rng, c["yl"])
        cases.append(c)
    # ---- forecaster instances that are NOT fresh: fitted on other data before, or evaluated before (both strategies)
    npz = 260 if quick else 2600
    for _ in range(npz):
        n = rng.randrange(5, 14)
        fh = rng.choice(FHS)
        wl = rng.randrange(1, 4)
        cv = rng.choice([["s", fh, wl, rng.randrange(1, 3), None, True], ["e", fh, wl, rng.randrange(1, 3), True],
                         ["s", fh, wl, 1, wl + 1, True], ["s", fh, wl, rng.randrange(1, 4), wl + rng.randrange(1, 3), True],
                         ["w", fh, None], ["w", fh, wl], ["c", [3, 1], fh, 2]])
        c = _mk(rng, cv, n, rng.choice(["refit", "update", "update"]), rng.choice(["asym", "wasym", "default", "mape"]), rng.random() < 0.3,
                rng.choice([0, 0, 1]), lab=rng.choice(["zero", "shift", "gap"]), fp=rng.choice([None, None, 4]))
        c["pre"] = _gen_pre(rng, c["yl"])
        cases.append(c)
    # ---- histories with a forecaster that raises at its k-th call
    nfz = 60 if quick else 600
    for _ in range(nfz):
        n = rng.randrange(5, 16)
        fh = rng.choice(FHS)
        cv = rng.choice([["s", fh, rng.randrange(1, 4), rng.randrange(1, 3), None, True], ["e", fh, rng.randrange(1, 4), rng.randrange(1, 3), True],
                         ["s", fh, 2, rng.randrange(1, 3), 3, True], ["c", [2, 4, 6], fh, 2]])
        cases.append(_mk(rng, cv, n, rng.choice(["refit", "update"]), "asym", rng.random() < 0.3, rng.choice([0, 1]),
                         fail=[rng.randrange(1, 9), rng.choice(["value", "type", "key", "index", "notimpl", "attr"])]))
    # ---- malformed / out-of-scope arguments (correspondence; the oracle skips what the property does not cover)
    for n in (6, 9):
        base = lambda **kw: dict(_mk(rng, ["s", [1, 2], 2, 1, None, True], n, "refit", "asym", False, 1), **kw)
        cases.append(base(strat="bogus"))
        cases.append(base(strat="bogus", cv=["ns"]))
        cases.append(base(cv=["ns"]))
        cases.append(base(cv=["ns"], met="notcallable"))
        cases.append(base(cv=["s", [1, 2], 2, 1, None, False]))
        cases.append(base(cv=["e", [1], 2, 1, False]))
        cases.append(base(cv=["s", [1, 2], 2, 1, None, False], met="notcallable"))
        cases.append(base(met="notcallable"))
        cases.append(base(met="noname"))
        cases.append(base(met="noname", cv=["s", [1], 50, 1, None, True]))
        cases.append(base(cv=["s", [1], 50, 1, None, True]))
        cases.append(base(cv=["s", [1], 0, 1, None, True]))
        cases.append(base(cv=["s", [1], 2, 0, None, True]))
        cases.append(base(cv=["s", [1], 3, 1, 2, True]))
        cases.append(base(cv=["s", [], 2, 1, None, True]))
        cases.append(base(cv=["s", [1, 1], 2, 1, None, True]))
        cases.append(base(cv=["e", [n], 2, 1, True]))
        cases.append(base(cv=["w", [n + 1], None]))
        cases.append(base(cv=["c", [n - 1], [1], 2]))
        cases.append(base(cv=["c", [n - 2], [2], 2]))
        cases.append(base(cv=["c", [], [1], 2]))
        cases.append(base(cv=["c", [0], [1], 3]))
        # in-sample / mixed horizons: correspondence only
        cases.append(base(cv=["s", [-1, 1], 3, 1, None, True]))
        cases.append(base(cv=["e", [0, 1], 3, 1, True]))
        cases.append(base(cv=["w", [-1, 2], 3]))
        cases.append(base(cv=["s", [-1], 3, 1, None, True]))
        # index problems
        c = base(); c["yl"] = list(reversed(c["yl"])); cases.append(c)
        c = base(); c["yl"][2] = c["yl"][1]; cases.append(c)                     # duplicate label (monotone, accepted)
        c = base(x=None); c["yl"][3] = c["yl"][2]; c["cv"] = ["e", [1], 2, 1, True]; cases.append(c)
        c = base(); c["xl"] = [v + 1 for v in c["yl"]]; cases.append(c)          # X index differs
        c = base(); c["xl"] = list(reversed(c["yl"])); cases.append(c)
        c = base(); c["yl"] = []; c["yv"] = []; c["x"] = None; cases.append(c)
    # ---- sktime's own forecaster and metric objects (oracle only)
    nl = 150 if quick else 1500
    for _ in range(nl):
        n = rng.randrange(9, 40)
        fh = sorted(rng.sample(range(1, 5), rng.randrange(1, 4)))
        wl = rng.randrange(2, max(3, n // 2))
        step = rng.randrange(1, 5)
        cv = rng.choice([["s", fh, wl, step, None, True], ["e", fh, wl, step, True], ["w", fh, None], ["s", fh, wl, step, wl + 2, True],
                         ["s", fh, wl, step, wl + rng.randrange(1, 4), True], ["c", sorted(rng.sample(range(2, n - 4), 2)), fh, wl]])
        ydt = rng.choice(YDTYPES)
        cases.append({"op": "lib", "fc": rng.choice(["last", "mean", "mean", "drift"]), "cv": cv, "strat": rng.choice(["refit", "update"]),
                      "met": rng.choice(["default", "mape", "gmae"]), "yl": _labels(rng, n, rng.choice(["zero", "shift"])), "yv": _values(rng, n, ydt),
                      "x": None, "xl": None, "pre": None, "ydt": ydt})
        if rng.random() < 0.5:
            cases[-1]["pre"] = _gen_pre(rng, cases[-1]["yl"])
        if rng.random() < 0.2:
            # reductions: a forecaster whose horizon is optional (recursive) and one that is bound to the horizon given at fit (direct)
            cases[-1].update(fc=rng.choice(["red:recursive", "red:direct"]), pre=None, ydt="float64")
            cases[-1]["yv"] = _values(rng, n, cases[-1]["ydt"])
    # ---- direct `_split` calls
    ns = 150 if quick else 1500
    for _ in range(ns):
        n = rng.randrange(1, 12)
        yl = _labels(rng, n, rng.choice(["zero", "shift", "gap"]))
        fh = sorted(rng.sample(range(1, 6), rng.randrange(1, 4)))
        r = rng.random()
        if r < 0.8:
            cut = rng.randrange(0, n)
            train = list(range(max(0, cut - rng.randrange(0, 4)), cut + 1))
            test = [cut + h for h in fh]
        elif r < 0.9:
            train = sorted(rng.sample(range(-n, n + 2), rng.randrange(0, min(4, n) + 1)))
            test = sorted(rng.sample(range(0, n + 2), rng.randrange(0, 3)))
        else:
            train = [rng.randrange(-n - 1, n + 1) for _ in range(rng.randrange(0, 4))]
            test = [rng.randrange(-1, n + 1) for _ in range(rng.randrange(0, 3))]
        x = rng.choice([0, 1, 2])
        cases.append({"op": "split", "train": train, "test": test, "fh": fh if rng.random() < 0.9 else rng.choice([[], [1, 1], [-1, 2]]),
                      "yl": yl, "yv": _values(rng, n), "x": None if not x else _xrows(rng, n, x), "xl": None})
    return cases


def shrink(c):
    if c["op"] != "eval":
        return
    n = len(c["yl"])
    if n > 3:
        for m in (n // 2, n - 1):
            if m >= 3:
                yield dict(c, yl=c["yl"][:m], yv=c["yv"][:m], x=None if c.get("x") is None else c["x"][:m],
                           xl=None if c.get("xl") is None else c["xl"][:m])
    if (c.get("ydt") or "float64") != "float64" or (c.get("xdt") or "float64") != "float64":
        yield dict(c, ydt="float64", xdt="float64" if c.get("x") is not None else None)
    if c.get("pre") is not None:
        yield dict(c, pre=None)
        if c["pre"][0] == "ops" and len(c["pre"][1]) > 1:
            yield dict(c, pre=["ops", c["pre"][1][:-1]])
    if c.get("x") is not None:
        yield dict(c, x=None, xl=None)
    if c["rd"]:
        yield dict(c, rd=False)
    if c.get("fp") is not None:
        yield dict(c, fp=None)
    if c["yl"] != list(range(n)):
        yield dict(c, yl=list(range(n)), xl=None)
    cv = c["cv"]
    fi = 2 if cv[0] == "c" else 1
    if cv[0] != "ns" and len(cv[fi]) > 1:
        for i in range(len(cv[fi])):
            cv2 = list(cv); cv2[fi] = cv[fi][:i] + cv[fi][i + 1:]
            yield dict(c, cv=cv2)
    if cv[0] in ("s", "e"):
        for j in (2, 3):
            if cv[j] > 1:
                cv2 = list(cv); cv2[j] = cv[j] - 1
                yield dict(c, cv=cv2)
        if cv[0] == "s" and cv[4] is not None:
            cv2 = list(cv); cv2[4] = None
            yield dict(c, cv=cv2)
    if None in c["yv"]:
        return
    if c["yv"] != [float(i + 1) for i in range(n)] and not (_is_int(c.get("ydt")) and n > 3 and c["yv"] == [float((7 * i) % 5 + 1) for i in range(n)]):
        if _is_int(c.get("ydt")):     # keep whole numbers, but not a straight line (forecasts stay fractional)
            yield dict(c, yv=[float((7 * i) % 5 + 1) for i in range(n)])
        yield dict(c, yv=[float(i + 1) for i in range(n)])
