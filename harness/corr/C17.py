"""C17 correspondence + oracle: classifiers return well-formed probabilities consistent with their predictions.

Every case runs REAL code from /repo.  The members of an ensemble (fitted sklearn trees, the
nearest-neighbour BOSS / TDE members, the classifiers inside a column ensemble) are black boxes:
their outputs are captured from the real fitted estimator with spies and handed to the Lean model
as data; the model recomputes sktime's own part (classes_, averaging / vote counting /
normalisation, arg-max, label decoding, score, interval features, interval sampling).

case kinds
  clf      {"kind":"clf","algo":tsf|rise|stsf|boss|cboss|tde|muse|reg, n, nt, L, ncol, labels, ytest, xseed, rs, yas, params}
  indiv    IndividualBOSS.predict_proba (one-hot of the member's predictions)
  colens   ColumnEnsembleClassifier over spied members: {"entries":[[drop, key], ...], "colnames": [...]}
  base     BaseClassifier.predict / score through a stub subclass with an explicit probability matrix
  feat     _transform(X, intervals) on explicit data
  tsffeat  what tree `tree` of a fitted TSF receives at predict time (spy) vs features of its intervals
  tsfit    TSF fit with a recording random generator: n_intervals, min_interval, randint highs, intervals_
"""
import itertools, math, random, warnings
from fractions import Fraction
import numpy as np, pandas as pd
from common import canon_err, show_rat, show_rats, show_ints, fuzzy_equal, parse_rat

PROP = "C17"
LEAN_MODULE = "SkVerif.Props.C17"
OBLIGATIONS = [
    "SkVerif.C17.classes_sorted_distinct_training_labels",
    "SkVerif.C17.avg_of_distributions_is_distribution",
    "SkVerif.C17.column_ensemble_avg_is_distribution",
    "SkVerif.C17.forest_proba_entry",
    "SkVerif.C17.forest_ragged_members_rejected",
    "SkVerif.C17.forest_narrow_members_not_distribution",
    "SkVerif.C17.stsf_aligned_avg_is_distribution",
    "SkVerif.C17.weighted_votes_is_distribution",
    "SkVerif.C17.boss_votes_is_distribution",
    "SkVerif.C17.member_weight_pos",
    "SkVerif.C17.votes_normalised_is_distribution",
    "SkVerif.C17.window_check_iff_search_nonempty",
    "SkVerif.C17.votes_empty_ensemble_not_distribution",
    "SkVerif.C17.votes_zero_weight_not_distribution",
    "SkVerif.C17.indiv_one_hot_is_distribution",
    "SkVerif.C17.predict_attains_max_proba",
    "SkVerif.C17.predict_is_first_max",
    "SkVerif.C17.ensemble_predict_attains_max_proba",
    "SkVerif.C17.predict_in_training_labels_same_type",
    "SkVerif.C17.ensemble_predict_in_training_labels_same_type",
    "SkVerif.C17.score_eq_fraction_matching",
    "SkVerif.C17.slope_eq_ols",
    "SkVerif.C17.var_is_sqrt_radicand",
    "SkVerif.C17.features_are_mean_var_slope",
    "SkVerif.C17.tsf_proba_eq_mean_of_trees_on_features",
    "SkVerif.C17.tsf_regressor_eq_mean_of_trees_on_features",
    "SkVerif.C17.column_ensemble_eq_mean_of_members",
    "SkVerif.C17.column_ensemble_members_own_columns",
    "SkVerif.C17.intervals_within_series",
    "SkVerif.C17.fit_intervals_within_series",
    "SkVerif.C17.fit_rejects_short_series",
]
TRUSTED = [
    "hand-written model SkVerif/Model/Proba.lean of the aggregation / arg-max / decoding / score / _transform / _slope / _get_intervals code",
    "the ensemble members (fitted sklearn trees, IndividualBOSS / IndividualTDE nearest-neighbour members, MUSE's logistic-regression pipeline, classifiers inside a column ensemble) are black boxes: their outputs are captured by spies and fed to the model",
    "np.unique / np.argmax / np.mean / np.std / LabelEncoder / accuracy_score are modelled by what they compute",
    "module-scoped emulation in corr/C17.py: DecisionTreeClassifier(max_depth=np.float64) inside transformations/panel/dictionary_based/_sfa.py is given int(max_depth) (sklearn 0.24 accepted it)",
    "numba is an identity decorator (pure-Python SFA)",
]
ASSUMPTIONS = [
    "exact rational arithmetic (no floating-point rounding); float32 storage of the interval features is compared with 2e-6 tolerance",
    "a fitted tree maps each feature row independently to a probability row whose columns follow its classes_ (sklearn contract); observed, not proved",
    "BaseClassifier.predict is only reachable through the proximity-forest family, which cannot be imported here (cython extension missing): exercised through a stub subclass",
    "ShapeletTransformClassifier, ROCKET, HIVE-COTE, catch22, CIF/DrCIF, distance-based classifiers are not covered (not anchored / not runnable)",
]
RULE = ("exhaustive small scope (probability rows over a quarter grid x label sets for BaseClassifier.predict; all intervals of a "
        "fixed panel for _transform; all (series_length, min_interval) up to 20 x 5 for the TSF fit; quick = seed-rotated slice) + "
        "seeded random fits of TSF, RISE, STSF, BOSS, cBOSS, TDE, MUSE, IndividualBOSS, ColumnEnsemble, TSF regressor on small "
        "panels with int / string / non-contiguous labels, 2-5 classes, unbalanced, several random_state values. distinct by driver "
        "line; non-trivial = the real code returned a probability matrix / feature matrix / interval set (no error)")
LEVEL_TEXT = ("proved for the model: averaging, vote normalisation, arg-max, label decoding, score, TSF interval features "
              "(mean / variance / OLS slope) and interval bounds; members are black boxes observed through spies")
LEVEL_NOTE = "members' own probabilities, column order of sklearn members, MUSE's predict/predict_proba agreement: observed only"
TECHNIQUE = "Lean 4 theorems over an executable model + differential correspondence against the real classifiers"

_SETUP = {"done": False}


def _setup():
    """module-scoped emulations (told to the lead): sklearn 1.7 rejects max_depth=np.float64(2.0)"""
    if _SETUP["done"]:
        return
    warnings.filterwarnings("ignore")
    import sktime.transformations.panel.dictionary_based._sfa as _sfa
    _DTC = _sfa.DecisionTreeClassifier
    if not getattr(_DTC, "_c17_wrapped", False):
        def _dtc(*a, **k):
            md = k.get("max_depth")
            if isinstance(md, (float, np.floating)) and float(md).is_integer():
                k["max_depth"] = int(md)
            return _DTC(*a, **k)
        _dtc._c17_wrapped = True
        _sfa.DecisionTreeClassifier = _dtc
    _SETUP["done"] = True


# ----------------------------------------------------------------------------- canonical forms
def _lab(v):
    if isinstance(v, (bool, np.bool_)):
        return "o:bool"
    if isinstance(v, (int, np.integer)):
        return "i:%d" % int(v)
    if isinstance(v, (str, np.str_)):
        return "s:%s" % str(v)
    return "o:%s" % type(v).__name__


def _labs(l):
    l = list(l)
    return "-" if not l else ",".join(_lab(v) for v in l)


def _row(r):
    return show_rats([float(v) for v in r])


def _mat(m):
    m = list(m)
    return "_" if not m else ";".join(_row(r) for r in m)


def _mats(ms):
    ms = list(ms)
    return "~" if not ms else "|".join(_mat(m) for m in ms)


def _ivs(a):
    a = list(a)
    return "-" if not a else ",".join("%d:%d" % (int(p[0]), int(p[1])) for p in a)


# ----------------------------------------------------------------------------- data
PATTERNS = 6


INT_RANGES = {"int8": 127, "uint8": 255, "int16": 32767, "uint16": 65535, "int32": 2147483647, "int64": 4000}


def _series(rng, L, cls, noise, dtype="float64"):
    """float panels: dyadic values (multiples of 1/8) with a class dependent shape;
    integer panels: the same shapes scaled so that the values come close to the type's range"""
    out = []
    for t in range(L):
        base = [0, 8 * ((t * 2) // max(L, 1)), (t % 4) * 4, 16 - (16 * t) // max(L, 1), 8 * (t % 2), (t * t) % 11][cls % PATTERNS]
        out.append(base + rng.randrange(-noise, noise + 1))
    if dtype in INT_RANGES:
        hi = INT_RANGES[dtype]
        span = 16 + 2 * noise
        if dtype.startswith("u"):
            return [int((v + noise) * (hi * 0.97) // span) for v in out]
        return [int(v * (hi * 0.97) // (16 + noise)) for v in out]
    return [v / 8.0 for v in out]


def _panel(c, cast=None):
    """(X_train, y_train, X_test, y_test) from the case; deterministic in the case.
    c["dtype"]: number type of the panel (the NUMBERS depend on it, `cast` only changes how they are stored);
    c["xform"]: "nested" (DataFrame of Series cells) or "np3d"; c["pred_order"]: column order (and extra columns)
    of the frame handed to predict."""
    rng = random.Random(c["xseed"])
    labels = c["labels"]
    distinct = sorted(set(labels), key=lambda v: (str(type(v)), v))
    ncol = c.get("ncol", 1)
    names = c.get("colnames") or ["dim_%d" % k for k in range(ncol)]
    noise = c.get("noise", 6)
    dtype = c.get("dtype", "float64")
    store = cast or dtype
    if dtype in INT_RANGES:
        noise = min(noise, 12)

    def frame(lbls, dup=None, order=None):
        cols = {nm: [] for nm in names}
        rows = []
        for lab in lbls:
            k = distinct.index(lab) if lab in distinct else rng.randrange(PATTERNS)
            rows.append([_series(rng, c["L"], k + 2 * j, noise, dtype) for j in range(len(names))])
        if dup:
            for (i, j) in dup:
                if i < len(rows) and j < len(rows):
                    rows[j] = [list(s) for s in rows[i]]
        if c.get("xform") == "np3d":
            return np.array(rows, dtype=store)
        for r in rows:
            for nm, s_ in zip(names, r):
                cols[nm].append(pd.Series(np.array(s_, dtype=store)))
        df = pd.DataFrame(cols)
        if order:
            for nm in order:
                if nm not in df.columns:                      # an extra column the ensemble knows nothing about
                    df[nm] = [pd.Series(np.array(_series(rng, c["L"], 5, noise, dtype), dtype=store)) for _ in range(len(df))]
            df = df[list(order)]
        return df
    Xtr = frame(labels, c.get("dup"))
    ytr = _yarr(labels, c.get("yas", "np"))
    if c.get("test_on_train"):                                # queried on the training panel: predictions cover every class
        return Xtr, ytr, (Xtr.copy() if hasattr(Xtr, "copy") else Xtr), _yarr(labels, "np")
    Xte = frame(c["ytest"], order=c.get("pred_order"))
    yte = _yarr(c["ytest"], "np")
    return Xtr, ytr, Xte, yte


def _rows(X):
    """the series of the first column as a list of lists (exact numbers)"""
    if isinstance(X, np.ndarray):
        return np.array([[float(v) for v in inst[0]] for inst in X])
    return np.array([[float(v) for v in s_] for s_ in X.iloc[:, 0]])


def _yarr(labels, how):
    if how == "series":
        return pd.Series(list(labels))
    if how == "object":
        return np.array(list(labels), dtype=object)
    return np.array(list(labels))


class _Spy:
    """records what a fitted member is asked and what it answers; forwards everything else"""

    def __init__(self, inner):
        self.__dict__["_inner"] = inner
        self.__dict__["log"] = []

    def __getattr__(self, n):
        return getattr(self.__dict__["_inner"], n)

    def predict_proba(self, X):
        try:
            out = self._inner.predict_proba(X)
        except Exception:
            self.__dict__["raised"] = True
            raise
        self.log.append((np.array(X, copy=True) if isinstance(X, np.ndarray) else X, np.array(out, copy=True)))
        return out

    def predict(self, X):
        try:
            out = self._inner.predict(X)
        except Exception:
            self.__dict__["raised"] = True
            raise
        self.log.append((np.array(X, copy=True) if isinstance(X, np.ndarray) else X, np.array(out, copy=True)))
        return out


class _RecRandomState(np.random.RandomState):
    """a RandomState that remembers every randint call: (low, high, result)"""

    def __init__(self, seed):
        super().__init__(seed)
        self.calls = []

    def randint(self, low, high=None, size=None, dtype=int):
        r = super().randint(low, high, size, dtype)
        if size is None:
            self.calls.append((int(low), None if high is None else int(high), int(r)))
        return r


_CE_LOG = {}


def _member_classes():
    from sktime.classification.base import BaseClassifier

    class SpyMember(BaseClassifier):
        """clone-able wrapper around a real classifier: records the columns it is given"""

        def __init__(self, inner=None, tag=""):
            self.inner = inner
            self.tag = tag
            super().__init__()

        def fit(self, X, y):
            from sklearn.base import clone
            self.inner_ = clone(self.inner).fit(X, y)
            self.classes_ = self.inner_.classes_
            _CE_LOG.setdefault(self.tag, {})["fit"] = (list(X.columns), X.shape, [v for v in np.asarray(y)])
            self._is_fitted = True
            return self

        def predict_proba(self, X):
            out = self.inner_.predict_proba(X)
            _CE_LOG.setdefault(self.tag, {}).setdefault("proba", []).append((list(X.columns), X.shape, np.array(out, copy=True)))
            return out

    class CentroidMember(BaseClassifier):
        """multivariate test double: soft nearest-centroid on the per-column means"""

        def __init__(self, sharp=2):
            self.sharp = sharp
            super().__init__()

        @staticmethod
        def _feat(X):
            return np.array([[float(np.mean(cell)) for cell in row] for row in X.to_numpy()])

        def fit(self, X, y):
            y = np.asarray(y)
            self.classes_ = np.unique(y)
            F = self._feat(X)
            self.cent_ = np.array([F[y == k].mean(axis=0) for k in self.classes_])
            self._is_fitted = True
            return self

        def predict_proba(self, X):
            F = self._feat(X)
            d = np.array([[np.abs(f - c).sum() for c in self.cent_] for f in F])
            w = 1.0 / (1.0 + d) ** self.sharp
            return w / w.sum(axis=1, keepdims=True)

    class BaseStub(BaseClassifier):
        """uses BaseClassifier.predict / score unchanged"""

        def __init__(self, P=None):
            self.P = P
            super().__init__()

        def fit(self, X, y):
            from sklearn.preprocessing import LabelEncoder
            self.label_encoder = LabelEncoder().fit(y)
            self.classes_ = self.label_encoder.classes_
            self._is_fitted = True
            return self

        def predict_proba(self, X):
            return np.array(self.P, dtype=float)

    return SpyMember, CentroidMember, BaseStub


_CLS = {}


def _classes():
    if not _CLS:
        _CLS["SpyMember"], _CLS["CentroidMember"], _CLS["BaseStub"] = _member_classes()
    return _CLS


# ----------------------------------------------------------------------------- observation of the real code
_OBS = {}


def _key(c):
    import json
    return json.dumps(c, sort_keys=True, default=str)


def _observe(c):
    k = _key(c)
    if k not in _OBS:
        if len(_OBS) > 20000:
            _OBS.clear()
        _setup()
        try:
            with warnings.catch_warnings():
                warnings.simplefilter("ignore")
                _OBS[k] = _OBSERVERS[c["kind"]](c)
        except Exception as e:  # a harness problem, not the code under test
            import traceback
            _OBS[k] = {"harness_error": "%s: %s\n%s" % (type(e).__name__, e, traceback.format_exc()[-1500:])}
    return _OBS[k]


def _make(c):
    a, p, rs = c["algo"], c.get("params", {}), c.get("rs")
    if a == "tsf":
        from sktime.classification.interval_based import TimeSeriesForestClassifier
        return TimeSeriesForestClassifier(random_state=rs, **p)
    if a == "rise":
        from sktime.classification.interval_based import RandomIntervalSpectralForest
        return RandomIntervalSpectralForest(random_state=rs, **p)
    if a == "stsf":
        from sktime.classification.interval_based import SupervisedTimeSeriesForest
        return SupervisedTimeSeriesForest(random_state=rs, **p)
    if a == "boss":
        from sktime.classification.dictionary_based import BOSSEnsemble
        return BOSSEnsemble(random_state=rs, **p)
    if a == "cboss":
        from sktime.classification.dictionary_based import ContractableBOSS
        return ContractableBOSS(random_state=rs, **p)
    if a == "tde":
        from sktime.classification.dictionary_based import TemporalDictionaryEnsemble
        return TemporalDictionaryEnsemble(random_state=rs, **p)
    if a == "muse":
        from sktime.classification.dictionary_based import MUSE
        return MUSE(random_state=rs, **p)
    if a == "reg":
        from sktime.regression.interval_based import TimeSeriesForestRegressor
        return TimeSeriesForestRegressor(random_state=rs, **p)
    if a == "indiv":
        from sktime.classification.dictionary_based import IndividualBOSS
        return IndividualBOSS(random_state=rs, **p)
    raise ValueError(a)


def _call(f):
    try:
        return f(), None
    except Exception as e:
        return None, canon_err(e)


def _seed_global(c, salt):
    np.random.seed((c.get("gseed", 0) * 7 + salt) % (2 ** 31))


def _hist_panels(c, cast=None):
    """the earlier (X, y) the SAME object is fitted on before the fit under observation"""
    out = []
    for h in c.get("hist") or []:
        hc = dict(c, labels=h["labels"], xseed=h["xseed"], L=h.get("L", c["L"]), ytest=h["labels"][:1], yas=h.get("yas", "np"))
        hc.pop("dup", None)
        hc.pop("pred_order", None)
        Xh, yh, _, _ = _panel(hc, cast=cast)
        if c.get("algo") == "reg":
            yh = np.array([float(v) for v in h["labels"]])
        out.append((Xh, yh))
    return out


def _fit_history(c, clf):
    """refit history: fit the same object on earlier data first (an earlier fit may legitimately raise)"""
    for k, (Xh, yh) in enumerate(_hist_panels(c)):
        _seed_global(c, 11 + k)
        _call(lambda: clf.fit(Xh, yh))


def _fresh_reference(c, o, make, Xtr, ytr, Xte, reg=False):
    """a NEW object fitted once on the last training data, same seeds: what the refitted object must equal"""
    if not c.get("hist"):
        return
    ref = make()
    _seed_global(c, 1)
    _, err = _call(lambda: ref.fit(Xtr, ytr))
    o["fresh_fit_err"] = err
    if err:
        return
    o["fresh_classes"] = None if reg else list(ref.classes_)
    _seed_global(c, 2)
    val, err = _call(lambda: (ref.predict(Xte) if reg else ref.predict_proba(Xte)))
    o["fresh_out"], o["fresh_out_err"] = (None if err else np.array(val)), err


def _dtype_reference(c, o, make, Xte_unused=None, reg=False):
    """integer panels: a NEW object fitted on the SAME numbers stored as float64 (same seeds)"""
    if c.get("dtype", "float64") == "float64":
        return
    Xtr, ytr, Xte, _ = _panel(c, cast="float64")
    if reg:
        ytr = np.array([float(v) for v in c["labels"]])
    ref = make()
    for k, (Xh, yh) in enumerate(_hist_panels(c, cast="float64")):
        _seed_global(c, 11 + k)
        _call(lambda: ref.fit(Xh, yh))
    _seed_global(c, 1)
    _, err = _call(lambda: ref.fit(Xtr, ytr))
    o["f64_fit_err"] = err
    if err:
        return
    o["f64_classes"] = None if reg else list(ref.classes_)
    _seed_global(c, 2)
    val, err = _call(lambda: (ref.predict(Xte) if reg else ref.predict_proba(Xte)))
    o["f64_out"], o["f64_out_err"] = (None if err else np.array(val)), err
    if not reg:
        _seed_global(c, 2)
        _, err = _call(lambda: ref.predict(Xte))
        o["f64_pred_err"] = err


def _other_object(c, o, clf, make, Xte, reg=False):
    """a second object: AFTER the case's object A is fitted, another object B of the same class is constructed and
    fitted on other labels / other data and stays alive; A's outputs just before B are kept for comparison"""
    h = c.get("other")
    if not h:
        return
    _seed_global(c, 2)
    val, err = _call(lambda: (clf.predict(Xte) if reg else clf.predict_proba(Xte)))
    o["preB_out"], o["preB_err"] = (None if err else np.array(val)), err
    hc = dict(c, labels=h["labels"], xseed=h["xseed"], L=h.get("L", c["L"]), ytest=h["labels"][:1], yas=h.get("yas", "np"))
    hc.pop("dup", None); hc.pop("pred_order", None)
    Xh, yh, _, _ = _panel(hc)
    if reg:
        yh = np.array([float(v) for v in h["labels"]])
    B = make()
    _seed_global(c, 21)
    _, err = _call(lambda: B.fit(Xh, yh))
    o["B_fit_err"] = err
    o["_B"] = B                                              # B stays alive while A is queried
    if not err and not reg:
        _seed_global(c, 22)
        _call(lambda: B.predict_proba(Xh))


def _obs_clf(c):
    Xtr, ytr, Xte, yte = _panel(c)
    algo = c["algo"]
    o = {"algo": algo, "ytr": list(np.asarray(ytr)), "yte": list(yte), "n_test": len(Xte)}
    clf = _make(c)
    if algo == "reg":
        ytr = np.array([float(v) for v in c["labels"]])
        o["ytr"] = list(ytr)
    _fit_history(c, clf)
    _seed_global(c, 1)
    _, err = _call(lambda: clf.fit(Xtr, ytr))
    o["fit_err"] = err
    _fresh_reference(c, o, lambda: _make(c), Xtr, ytr, Xte, reg=(algo == "reg"))
    _dtype_reference(c, o, lambda: _make(c), reg=(algo == "reg"))
    if err:
        return o
    _other_object(c, o, clf, lambda: _make(c), Xte, reg=(algo == "reg"))
    o["classes"] = None if algo == "reg" else list(clf.classes_)
    # install spies on the fitted members
    if algo in ("tsf", "rise", "stsf", "reg"):
        spies = [_Spy(e) for e in clf.estimators_]
        clf.estimators_ = spies
        o["member_classes"] = [list(getattr(e, "classes_", [])) for e in spies] if algo != "reg" else None
        o["intervals"] = ([np.array(iv).tolist() for iv in clf.intervals_] if algo in ("tsf", "reg")
                          else [np.array(iv).tolist() for iv in clf.intervals] if algo == "rise" else None)
        o["L"] = c["L"]
    elif algo in ("boss", "cboss", "tde"):
        spies = [_Spy(e) for e in clf.classifiers]
        clf.classifiers = spies
        o["weights"] = [float(w) for w in getattr(clf, "weights", [])] if algo != "boss" else None
        o["n_estimators"] = int(clf.n_estimators)
        o["weight_sum"] = float(getattr(clf, "weight_sum", 0.0))
        o["accuracies"] = [float(e.accuracy) for e in spies]
    else:
        spies = []
        if algo == "muse":
            o["member_classes"] = [list(clf.clf.classes_)]

    def grab(call, attr):
        for s in spies:
            del s.log[:]
        _seed_global(c, 2)
        val, err = _call(call)
        o[attr] = None if err else np.array(val)
        o[attr + "_err"] = err
        return [(s.log[0] if s.log else None) for s in spies]

    if algo == "reg":
        logs = grab(lambda: clf.predict(Xte), "pred")
        o["members"] = [None if lg is None else lg[1] for lg in logs]
        o["member_inputs"] = [None if lg is None else lg[0] for lg in logs]
        o["Xte"] = _rows(Xte)
        return o
    logs = grab(lambda: clf.predict_proba(Xte), "proba")
    o["member_raised"] = any(s.__dict__.get("raised") for s in spies)
    o["members"] = [None if lg is None else lg[1] for lg in logs]
    o["member_inputs"] = [None if lg is None else lg[0] for lg in logs]
    logs2 = grab(lambda: clf.predict(Xte), "pred")
    o["members_at_predict"] = [None if lg is None else lg[1] for lg in logs2]
    if algo == "muse":
        # predict delegates to the pipeline's own predict: the "member" prediction is the prediction
        pass
    _seed_global(c, 2)
    sc, err = _call(lambda: clf.score(Xte, yte))
    o["score"], o["score_err"] = (None if err else float(sc)), err
    if algo in ("tsf", "rise", "stsf"):
        o["Xte"] = _rows(Xte)
    return o


def _obs_indiv(c):
    Xtr, ytr, Xte, yte = _panel(c)
    clf = _make(dict(c, algo="indiv"))
    o = {"ytr": list(np.asarray(ytr)), "n_test": len(Xte)}
    _fit_history(c, clf)
    _seed_global(c, 1)
    _, err = _call(lambda: clf.fit(Xtr, ytr))
    o["fit_err"] = err
    _fresh_reference(c, o, lambda: _make(dict(c, algo="indiv")), Xtr, ytr, Xte)
    _dtype_reference(c, o, lambda: _make(dict(c, algo="indiv")))
    if err:
        return o
    _other_object(c, o, clf, lambda: _make(dict(c, algo="indiv")), Xte)
    o["classes"] = list(clf.classes_)
    _seed_global(c, 2)
    pred, err = _call(lambda: clf.predict(Xte))
    o["pred"], o["pred_err"] = pred, err
    _seed_global(c, 2)
    P, err = _call(lambda: clf.predict_proba(Xte))
    o["proba"], o["proba_err"] = P, err
    return o


def _entry_key(k):
    """JSON key spec -> python column specification"""
    kind, v = k
    if kind == "int":
        return int(v)
    if kind == "ints":
        return [int(x) for x in v]
    if kind == "name":
        return str(v)
    if kind == "mask":
        return np.array([bool(x) for x in v])
    if kind == "slice":
        return slice(v[0], v[1])
    return [str(x) for x in v]


def _key_positions(k, names):
    """what a mask / slice specifier means, in positions of the training frame (for the model line and the oracle)"""
    kind, v = k
    if kind == "mask":
        return [i for i, x in enumerate(v) if x]
    a, b = v
    if isinstance(a, str) or isinstance(b, str):                 # label slice: both ends included
        i = 0 if a is None else names.index(a)
        j = len(names) if b is None else names.index(b) + 1
        return list(range(i, j))
    return list(range(len(names)))[slice(a, b)]


def _obs_colens(c):
    from sktime.classification.compose import ColumnEnsembleClassifier
    from sktime.classification.interval_based import TimeSeriesForestClassifier, RandomIntervalSpectralForest
    K = _classes()
    Xtr, ytr, Xte, yte = _panel(c)
    _CE_LOG.clear()

    def build(prefix="m"):
        return ColumnEnsembleClassifier(_ests(prefix))

    def _ests(prefix="m"):
        ests = []
        for i, (drop, key, inner) in enumerate(c["entries"]):
            if drop:
                est = "drop"
            else:
                if inner == "tsf":
                    base = TimeSeriesForestClassifier(n_estimators=3, random_state=c.get("rs", 0) + i)
                elif inner == "rise":
                    base = RandomIntervalSpectralForest(n_estimators=3, min_interval=4, acf_lag=3, acf_min_values=2,
                                                        random_state=c.get("rs", 0) + i)
                else:
                    base = K["CentroidMember"](sharp=1 + i % 3)
                est = K["SpyMember"](inner=base, tag="%s%d" % (prefix, i))
            ests.append(("e%d" % i, est, _entry_key(key)))
        return ests
    o = {"ytr": list(np.asarray(ytr)), "yte": list(yte), "n_test": len(Xte), "names": list(Xtr.columns)}
    _fresh_reference(c, o, build, Xtr, ytr, Xte)        # first: the spy log must end with the object under observation
    _dtype_reference(c, o, build)
    _CE_LOG.clear()
    clf = build()
    _fit_history(c, clf)
    _, err = _call(lambda: clf.fit(Xtr, ytr))
    o["fit_err"] = err
    if err:
        return o
    _other_object(c, o, clf, lambda: build("b"), Xte)
    o["classes"] = list(clf.classes_)
    tags = [e.tag for (_, e, _) in clf.estimators_]
    o["tags"] = tags
    o["fit_cols"] = [_CE_LOG.get(t, {}).get("fit", (None, None, None))[0] for t in tags]
    o["fit_y"] = [_CE_LOG.get(t, {}).get("fit", (None, None, None))[2] for t in tags]
    o["member_classes"] = [list(e.classes_) for (_, e, _) in clf.estimators_]
    for t in tags:
        _CE_LOG.get(t, {}).pop("proba", None)
    P, err = _call(lambda: clf.predict_proba(Xte))
    o["proba"], o["proba_err"] = (None if err else np.array(P)), err
    o["members"] = [(_CE_LOG.get(t, {}).get("proba") or [(None, None, None)])[0][2] for t in tags]
    o["pred_cols"] = [(_CE_LOG.get(t, {}).get("proba") or [(None, None, None)])[0][0] for t in tags]
    pred, err = _call(lambda: clf.predict(Xte))
    o["pred"], o["pred_err"] = (None if err else np.array(pred)), err
    sc, err = _call(lambda: clf.score(Xte, yte))
    o["score"], o["score_err"] = (None if err else float(sc)), err
    return o


def _obs_base(c):
    K = _classes()
    P = [[float(v) for v in r] for r in c["P"]]
    cc = dict(c, L=4, ytest=c["ytest"], xseed=1)
    Xtr, ytr, Xte, yte = _panel(cc)
    clf = K["BaseStub"](P=P)
    o = {"ytr": list(np.asarray(ytr)), "yte": list(yte), "proba": np.array(P, dtype=float), "n_test": len(Xte)}
    for (Xh, yh) in _hist_panels(cc):
        _call(lambda: clf.fit(Xh, yh))
    _, err = _call(lambda: clf.fit(Xtr, ytr))
    o["fit_err"] = err
    if err:
        return o
    if c.get("other"):
        Xh, yh, _, _ = _panel(dict(cc, labels=c["other"]["labels"], xseed=c["other"]["xseed"], ytest=c["other"]["labels"][:1]))
        o["_B"] = K["BaseStub"](P=P)
        _call(lambda: o["_B"].fit(Xh, yh))
    o["classes"] = list(clf.classes_)
    pred, err = _call(lambda: clf.predict(Xte))
    o["pred"], o["pred_err"] = (None if err else np.array(pred)), err
    sc, err = _call(lambda: clf.score(Xte, yte))
    o["score"], o["score_err"] = (None if err else float(sc)), err
    return o


def _obs_feat(c):
    from sktime.series_as_features.base.estimators.interval_based._tsf import _transform
    X = np.array(c["X"], dtype=c.get("dtype", "float64"))
    ivs = np.array(c["ivs"], dtype=int).reshape(-1, 2)
    out, err = _call(lambda: _transform(X, ivs))
    return {"feat": out, "err": err}


def _obs_tsffeat(c):
    o = _obs_clf(dict(c, kind="clf"))
    return o


def _obs_tsfit(c):
    from sktime.classification.interval_based import TimeSeriesForestClassifier
    from sktime.regression.interval_based import TimeSeriesForestRegressor
    cc = dict(c, labels=[i % 2 for i in range(c["n"])], ytest=[0], xseed=c["xseed"])
    Xtr, ytr, _, _ = _panel(cc)
    rng = _RecRandomState(c["rs"])
    kw = {} if c.get("m") is None else {"min_interval": c["m"]}
    cls = TimeSeriesForestRegressor if c.get("reg") else TimeSeriesForestClassifier
    clf = cls(n_estimators=c["nest"], random_state=rng, **kw)
    if c.get("reg"):
        ytr = np.arange(len(ytr)) / 2.0
    for Lh in c.get("histL") or []:                       # refit history: the same object fitted on other lengths first
        Xh, yh, _, _ = _panel(dict(cc, L=Lh, xseed=c["xseed"] + Lh))
        if c.get("reg"):
            yh = np.arange(len(yh)) / 2.0
        _call(lambda: clf.fit(Xh, yh))
    start = len(rng.calls)
    _, err = _call(lambda: clf.fit(Xtr, ytr))
    o = {"fit_err": err, "nint": int(clf.n_intervals), "minint": int(clf.min_interval)}
    ivs = [np.array(iv).tolist() for iv in clf.intervals_]
    need = 2 * o["nint"] * c["nest"]
    o["calls"] = rng.calls[start:start + need]
    o["complete"] = (not (err and len(rng.calls) - start < need)) and len(ivs) == c["nest"] and len(rng.calls) - start >= need
    o["ivs"] = ivs
    return o


def _obs_bossfit(c):
    Xtr, ytr, _, _ = _panel(c)
    clf = _make(c)
    _seed_global(c, 1)
    _, err = _call(lambda: clf.fit(Xtr, ytr))
    return {"fit_err": err, "n_estimators": int(getattr(clf, "n_estimators", 0)), "ytr": list(np.asarray(ytr))}


STATIC_FILES = ["classification/base.py", "classification/interval_based/_tsf.py", "classification/interval_based/_rise.py",
                "classification/interval_based/_stsf.py", "series_as_features/base/estimators/interval_based/_tsf.py",
                "classification/dictionary_based/_boss.py", "classification/dictionary_based/_cboss.py",
                "classification/dictionary_based/_tde.py", "classification/dictionary_based/_muse.py",
                "classification/dictionary_based/_weasel.py", "classification/compose/_column_ensemble.py",
                "regression/interval_based/_tsf.py", "regression/base.py", "transformations/panel/dictionary_based/_sfa.py"]
MUTATORS = {"append", "extend", "insert", "update", "add", "setdefault", "pop", "remove", "clear", "popitem", "discard", "sort"}


def _obs_static(c):
    """mutable literals (dict / list / set) bound at CLASS level and mutated in place through `self.<name>` in a method that
    has not re-bound `self.<name>` before (in `__init__` or earlier in that method): state shared by all instances"""
    import ast, os
    root = os.path.join(skcompat_repo(), "sktime")
    flagged = []
    for rel in STATIC_FILES:
        path = os.path.join(root, rel)
        if not os.path.exists(path):
            continue
        tree = ast.parse(open(path).read())
        for cls in [n for n in ast.walk(tree) if isinstance(n, ast.ClassDef)]:
            shared = {}
            for st in cls.body:
                tg = st.targets if isinstance(st, ast.Assign) else [st.target] if isinstance(st, ast.AnnAssign) and st.value else []
                val = getattr(st, "value", None)
                if isinstance(val, (ast.Dict, ast.List, ast.Set, ast.DictComp, ast.ListComp, ast.SetComp)) or (
                        isinstance(val, ast.Call) and isinstance(val.func, ast.Name) and val.func.id in ("dict", "list", "set", "defaultdict")):
                    for t in tg:
                        if isinstance(t, ast.Name):
                            shared[t.id] = st.lineno
            if not shared:
                continue
            methods = [m for m in cls.body if isinstance(m, ast.FunctionDef)]

            def rebinds(fn):
                out = {}
                for n in ast.walk(fn):
                    tg = n.targets if isinstance(n, ast.Assign) else []
                    for t in tg:
                        if isinstance(t, ast.Attribute) and isinstance(t.value, ast.Name) and t.value.id == "self":
                            out.setdefault(t.attr, n.lineno)
                            out[t.attr] = min(out[t.attr], n.lineno)
                return out
            init_rebinds = {}
            for m in methods:
                if m.name == "__init__":
                    init_rebinds = rebinds(m)
            for m in methods:
                rb = rebinds(m)
                for n in ast.walk(m):
                    name = how = None
                    if isinstance(n, (ast.Assign, ast.AugAssign, ast.Delete)):
                        tg = n.targets if not isinstance(n, ast.AugAssign) else [n.target]
                        for t in tg:
                            if (isinstance(t, ast.Subscript) and isinstance(t.value, ast.Attribute) and isinstance(t.value.value, ast.Name)
                                    and t.value.value.id == "self"):
                                name, how = t.value.attr, "written by item assignment in %s()" % m.name
                    elif (isinstance(n, ast.Call) and isinstance(n.func, ast.Attribute) and n.func.attr in MUTATORS
                          and isinstance(n.func.value, ast.Attribute) and isinstance(n.func.value.value, ast.Name)
                          and n.func.value.value.id == "self"):
                        name, how = n.func.value.attr, "mutated by .%s() in %s()" % (n.func.attr, m.name)
                    if name in shared and name not in init_rebinds and not (name in rb and rb[name] < n.lineno):
                        item = (cls.name, name, how, "sktime/" + rel, n.lineno)
                        if not any(f[:2] == item[:2] for f in flagged):
                            flagged.append(item)
    return {"flagged": flagged}


def skcompat_repo():
    import skcompat
    return skcompat.REPO


_OBSERVERS = {"static": _obs_static, "bossfit": _obs_bossfit, "clf": _obs_clf, "indiv": _obs_indiv, "colens": _obs_colens, "base": _obs_base, "feat": _obs_feat,
              "tsffeat": _obs_tsffeat, "tsfit": _obs_tsfit}


# ----------------------------------------------------------------------------- real output / driver line
def _draws(o):
    """position of each predicted class among the maxima of its probability row (what rng.choice picked)"""
    ds = []
    if o.get("pred") is None or o.get("proba") is None:
        return [0] * o.get("n_test", 0)
    classes = list(o["classes"])
    for row, p in zip(o["proba"], o["pred"]):
        ties = [j for j, v in enumerate(row) if v == np.max(row)]
        try:
            ds.append(ties.index(classes.index(p)))
        except ValueError:
            ds.append(0)
    return ds


def _std_sq(Xt):
    """feature matrix as the model states it: the std columns squared"""
    A = np.array(Xt, dtype=float)
    A[:, 1::3] = A[:, 1::3] ** 2
    return A


def run_real(c):
    o = _observe(c)
    if "harness_error" in o:
        raise RuntimeError(o["harness_error"])
    kind = c["kind"]
    if kind == "static":
        return "static flagged=%d" % len(o["flagged"])
    if kind == "feat":
        return "feat=" + (o["err"] if o["err"] else _mat(_std_sq(o["feat"])))
    if kind == "tsffeat":
        if o["fit_err"]:
            return "feat=" + o["fit_err"]
        Xt = o["member_inputs"][c["tree"]]
        return "feat=" + ("E:none" if Xt is None else _mat(_std_sq(Xt)))
    if kind == "tsfit":
        head = "nint=%d minint=%d " % (o["nint"], o["minint"])
        if not o["complete"]:
            return head + "fit=" + (o["fit_err"] or "E:incomplete")
        return head + "highs=%s ivs=%s" % (show_ints([(h if h is not None else lo) for (lo, h, r) in o["calls"]]),
                                          "~" if not o["ivs"] else "|".join(_ivs(iv) for iv in o["ivs"]))
    if o.get("fit_err"):
        return ("cols=" if kind == "colens" else "fit=") + o["fit_err"]
    if kind == "bossfit":
        return "fit=ok"
    if kind == "clf" and c["algo"] == "reg":
        return "pred=" + (o["pred_err"] or _row(o["pred"]))
    if kind == "indiv":
        return "classes=%s proba=%s" % (_labs(o["classes"]), o["proba_err"] or _mat(o["proba"]))
    head = "classes=%s " % _labs(o["classes"])
    if kind == "clf" and c["algo"] in ("cboss", "tde"):
        head = "w=%s " % show_rats(o["weights"]) + head
    if kind == "colens":
        idx = [[_pos(o["names"], nm) for nm in cols] if cols is not None else None for cols in o["pred_cols"]]
        if o["proba_err"] is None and any(i is None for i in idx):
            return "cols=E:member-not-called"
        head = "cols=%s " % ("~" if not idx else "|".join(show_ints(i) for i in (idx if o["proba_err"] is None else
                                                                                   [[_pos(o["names"], nm) for nm in cols] for cols in o["fit_cols"]]))) + head
    if kind == "clf" and c["algo"] == "muse":
        return head + "score=%s" % (o["score_err"] or show_rat(o["score"]))
    if kind == "base":
        return head + "pred=%s score=%s" % (o["pred_err"] or _labs(o["pred"]), o["score_err"] or show_rat(o["score"]))
    if o["proba_err"]:
        return head + "proba=" + o["proba_err"]
    if getattr(o["proba"], "ndim", 0) == 2 and np.isnan(o["proba"]).any():
        # no maximum exists in a NaN row: the property is silent on WHICH error predict / score raise
        o = dict(o, pred_err="E:value" if o["pred_err"] else None, score_err="E:value" if o["score_err"] else None)
    if getattr(o["proba"], "ndim", 0) != 2:
        return head + "proba=E:shape%d" % getattr(o["proba"], "ndim", -1)
    return head + "proba=%s pred=%s score=%s" % (_mat(o["proba"]), o["pred_err"] or _labs(o["pred"]),
                                                 o["score_err"] or show_rat(o["score"]))


def _pos(names, nm):
    return names.index(nm) if nm in names else 99


def _labrows(members):
    return "_" if not members else ";".join(_labs(m) for m in members)


def _show_key(k, names=None):
    kind, v = k
    if kind in ("mask", "slice"):
        return "K" + show_ints(_key_positions(k, names))
    if kind == "int":
        return "k%d" % v
    if kind == "ints":
        return "K" + show_ints(v)
    if kind == "name":
        return "n" + str(v)
    return "N" + ("-" if not v else ",".join(str(x) for x in v))


def to_line(c):
    o = _observe(c)
    kind = c["kind"]
    if kind == "static":
        return None
    if kind == "feat":
        return "C17 feat %s %s" % (_mat(c["X"]), _ivs(c["ivs"]))
    if kind == "tsffeat":
        if o.get("fit_err"):
            return None
        return "C17 feat %s %s" % (_mat(o["Xte"]), _ivs(o["intervals"][c["tree"]]))
    if kind == "tsfit":
        return "C17 tsfit %d %d %d %s" % (c["L"], 3 if c.get("m") is None else c["m"], c["nest"],
                                         show_ints([r for (lo, h, r) in o["calls"]]))
    if kind == "colens":
        nlist = c.get("colnames") or ["dim_%d" % k for k in range(c.get("ncol", 1))]
        ent = ";".join(("d:" if d else "e:") + _show_key(k, nlist) for (d, k, _) in c["entries"])
        names = ",".join(nlist)
        if o.get("fit_err"):
            mem = "~"
        else:
            mem = _mats([m for m in o["members"] if m is not None])
        return "C17 colens %s %s %s %s %s" % (_labs(_yl(c["labels"])), names, ent, mem, _labs(_yl(c["ytest"])))
    if kind == "bossfit" or (o.get("fit_err") and kind == "clf" and c["algo"] in ("boss", "cboss", "tde")
                             and c.get("dtype", "float64") not in INT_RANGES):
        return "C17 bossfit %d %d" % (c["L"], c.get("params", {}).get("min_window", 10))
    if o.get("fit_err"):
        return None
    if kind == "indiv":
        if o["pred"] is None:
            return None
        return "C17 indiv %s %s" % (_labs(o["ytr"]), _labs(o["pred"]))
    if kind == "base":
        return "C17 base %s %s %s" % (_labs(o["ytr"]), _mat(c["P"]), _labs(o["yte"]))
    algo = c["algo"]
    if algo == "reg":
        if any(m is None for m in o["members"]):
            return None
        return "C17 reg %s" % _mat(o["members"])
    if any(m is None for m in o["members"]) and algo != "muse":
        return None
    if algo == "stsf":
        return "C17 stsf %s %s %s %s" % (_labs(o["ytr"]), _labrows(o["member_classes"]), _mats(o["members"]), _labs(o["yte"]))
    if algo in ("tsf", "rise"):
        return "C17 forest %s %s %s" % (_labs(o["ytr"]), _mats(o["members"]), _labs(o["yte"]))
    if algo == "boss":
        return "C17 boss %s %d %s %s %s" % (_labs(o["ytr"]), o["n_test"], _labrows(o["members"]), show_ints(_draws(o)), _labs(o["yte"]))
    if algo in ("cboss", "tde"):
        return "C17 cboss %s %d %s %s %s %s" % (_labs(o["ytr"]), o["n_test"], _labrows(o["members"]), show_rats(o["accuracies"]),
                                               show_ints(_draws(o)), _labs(o["yte"]))
    if algo == "muse":
        if o["pred"] is None:
            return None
        return "C17 deleg %s %s %s" % (_labs(o["ytr"]), _labs(o["pred"]), _labs(o["yte"]))
    return None


def _yl(labels):
    return list(np.array(list(labels)))


def _fields(line):
    d = {}
    for tok in line.split(" "):
        if "=" not in tok:
            return None
        k, v = tok.split("=", 1)
        d[k] = v
    return d


def compare(real, model):
    """exact labels / shapes / error kinds; numbers within 1e-9 (float32 features: 2e-6).  The model computes in
    exact arithmetic: where two classes' probabilities differ by less than float rounding (1e-12) the real arg-max and the
    exact arg-max may pick different ones of them - accepted as agreement (DESIGN 4.2: no statement about rounding)."""
    tol = 2e-6 if real.startswith("feat=") else 1e-9
    if fuzzy_equal(real, model, tol):
        return True
    r, m = _fields(real), _fields(model)
    if r is None or m is None or set(r) != set(m) or "pred" not in r or "proba" not in r or "classes" not in r:
        return False
    for k in r:
        if k not in ("pred", "score") and not fuzzy_equal(r[k], m[k], tol):
            return False
    if r["pred"].startswith("E:") or m["pred"].startswith("E:") or r["proba"].startswith("E:"):
        return False
    classes = r["classes"].split(",")
    rp, mp = r["pred"].split(","), m["pred"].split(",")
    rows = r["proba"].split(";")
    if len(rp) != len(mp) or len(rows) != len(rp):
        return False
    for a, b, row in zip(rp, mp, rows):
        if a == b:
            continue
        if a not in classes or b not in classes or "nan" in row:
            return False
        vals = [float(Fraction(x)) for x in row.split(",")]
        if abs(vals[classes.index(a)] - vals[classes.index(b)]) > 1e-12:
            return False
    return rp != mp or fuzzy_equal(r.get("score", ""), m.get("score", ""), tol)


# ----------------------------------------------------------------------------- oracle (the property text on the real observation)
TOL = 1e-9


def _type_kind(v):
    if isinstance(v, (str, np.str_)):
        return "str"
    if isinstance(v, (bool, np.bool_)):
        return "bool"
    if isinstance(v, (int, np.integer)):
        return "int"
    return type(v).__name__


def _nan_key(c, o, site):
    """the known degenerate configurations get their own key; everything else is the generic one"""
    algo = c.get("algo")
    if algo in ("boss", "cboss", "tde") and c["L"] == c.get("params", {}).get("min_window", 10) - 1 and o.get("n_estimators") == 0:
        return site + ":nan-proba:series_length=min_window-1"
    if algo in ("cboss", "tde") and o.get("accuracies") and all(a == 0 for a in o["accuracies"]):
        return site + ":nan-proba:all-members-zero-train-accuracy"
    return site + ":proba-not-distribution"


def _check_distribution(c, o, site, fails):
    P = o["proba"]
    train = sorted(set(o["ytr"]))
    K = len(train)
    if P.ndim != 2 or P.shape[0] != o["n_test"] or P.shape[1] != K:
        fails.append((site + ":proba-shape", "predict_proba shape %r for %d instances, %d training classes" % (P.shape, o["n_test"], K)))
        return False
    if np.isnan(P).any():
        fails.append((_nan_key(c, o, site), "predict_proba returned NaN: %r" % P[0].tolist()))
        return False
    if (P < -TOL).any() or (P > 1 + TOL).any() or (np.abs(P.sum(axis=1) - 1) > 1e-9).any():
        i = int(np.argmax(np.abs(P.sum(axis=1) - 1) + (P < -TOL).any(axis=1) + (P > 1 + TOL).any(axis=1)))
        fails.append((site + ":proba-not-distribution", "row %d = %r (sum %r)" % (i, P[i].tolist(), float(P[i].sum()))))
        return False
    return True


def _check_classes(o, site, fails):
    train = sorted(set(o["ytr"]))
    if [_lab(v) for v in o["classes"]] != [_lab(v) for v in train]:
        fails.append((site + ":classes-not-sorted-training-labels", "classes_=%r, training labels %r" % (o["classes"], train)))
        return False
    return True


def _check_predict(c, o, site, fails, proba_ok=True):
    train = sorted(set(o["ytr"]))
    if o.get("pred_err"):
        if proba_ok:
            fails.append((site + ":predict-raised", "predict raised %s" % o["pred_err"]))
        return
    pred = list(o["pred"])
    if len(pred) != o["n_test"]:
        fails.append((site + ":predict-length", "%d predictions for %d instances" % (len(pred), o["n_test"])))
        return
    kinds = {_type_kind(v) for v in o["ytr"]}
    for i, p in enumerate(pred):
        if _type_kind(p) not in kinds:
            fails.append((site + ":predict-label-type", "prediction %r of type %s, training labels of type %s" % (p, _type_kind(p), sorted(kinds))))
            return
        if p not in train:
            fails.append((site + ":predict-not-a-training-label", "prediction %r not in %r" % (p, train)))
            return
    if proba_ok and o.get("proba") is not None and o.get("classes") is not None and _lab_list(o["classes"]) == _lab_list(train):
        P = o["proba"]
        for i, p in enumerate(pred):
            j = train.index(p)
            if P[i][j] < np.max(P[i]) - 1e-12:
                fails.append((site + ":predict-not-argmax", "instance %d: predicted %r has probability %r < max %r (row %r)" % (
                    i, p, float(P[i][j]), float(np.max(P[i])), P[i].tolist())))
                return
    if o.get("score_err"):
        fails.append((site + ":score-raised", "score raised %s" % o["score_err"]))
    elif o.get("score") is not None:
        exp = sum(1 for a, b in zip(pred, o["yte"]) if a == b) / float(len(pred))
        if abs(o["score"] - exp) > 1e-12:
            fails.append((site + ":score-not-fraction-matching", "score %r, fraction of matching predictions %r" % (o["score"], exp)))


def _lab_list(l):
    return [_lab(v) for v in l]


def _textbook_features(row, a, b):
    """mean, variance, OLS slope of row[a:b] in exact arithmetic (slope only for >= 2 points)"""
    xs = [Fraction(v) for v in row[a:b]]
    n = len(xs)
    if n == 0:
        return None, None, None
    m = sum(xs) / n
    var = sum((x - m) ** 2 for x in xs) / n
    if n < 2:
        return m, var, None
    ts = [Fraction(t) for t in range(n)]            # any equally spaced time index gives the same slope
    tm = sum(ts) / n
    slope = sum((t - tm) * (x - m) for t, x in zip(ts, xs)) / sum((t - tm) ** 2 for t in ts)
    return m, var, slope


def _near(py, exact, tol=2e-6):
    return abs(float(py) - float(exact)) <= tol * max(1.0, abs(float(exact)))


def _check_tree_inputs(o, site, fails):
    """each tree was asked about the mean / std / slope of its own fitted intervals"""
    X = o["Xte"]
    for t, (Xt, ivs) in enumerate(zip(o["member_inputs"], o["intervals"])):
        if Xt is None:
            continue
        Xt = np.array(Xt, dtype=float)
        if Xt.shape != (len(X), 3 * len(ivs)):
            fails.append((site + ":tree-input-shape", "tree %d got %r for %d intervals" % (t, Xt.shape, len(ivs))))
            return
        for i, row in enumerate(X):
            for j, (a, b) in enumerate(ivs):
                m, var, sl = _textbook_features(list(row), a, b)
                got = Xt[i][3 * j: 3 * j + 3]
                if m is None:
                    continue
                bad = (not _near(got[0], m)) or got[1] < 0 or (not _near(got[1] ** 2, var)) or (sl is not None and not _near(got[2], sl))
                if bad:
                    fails.append((site + ":tree-input-not-mean-std-slope",
                                  "tree %d instance %d interval [%d,%d): got %r, mean/std^2/slope = %s/%s/%s" % (t, i, a, b, got.tolist(), m, var, sl)))
                    return


def _check_intervals(ivs_all, L, site, fails, nonempty=True):
    for ivs in ivs_all:
        for (a, b) in ivs:
            if not (0 <= a <= b <= L) or (nonempty and a == b):
                fails.append((site + ":interval-outside-series", "interval [%d,%d) for series length %d" % (a, b, L)))
                return


def _expected_avg(o):
    """average of the members' outputs, their columns aligned by the members' own classes_"""
    classes = list(o["classes"])
    mats = o["members"]
    out = np.zeros((o["n_test"], len(classes)))
    for mat, mc in zip(mats, o["member_classes"]):
        for col, lab in enumerate(mc):
            out[:, classes.index(lab)] += np.array(mat)[:, col]
    return out / len(mats)


def _check_other_object(c, o, site, fails):
    """another object of the same class, fitted in between on other labels, must not change A's answers"""
    if not c.get("other") or "preB_err" not in o or o.get("fit_err"):
        return
    reg = c.get("algo") == "reg"
    mine, mine_err = (o.get("pred"), o.get("pred_err")) if reg else (o.get("proba"), o.get("proba_err"))
    key = site + ":other-object-interferes"
    if bool(mine_err) != bool(o["preB_err"]):
        fails.append((key, "before the other object was fitted: %s; afterwards: %s" % (o["preB_err"] or "ok", mine_err or "ok")))
        return
    if mine_err:
        return
    A, B = np.array(mine, dtype=float), np.array(o["preB_out"], dtype=float)
    if A.shape != B.shape or not np.allclose(A, B, rtol=0, atol=1e-12, equal_nan=True):
        fails.append((key, "A's output before another object was fitted on %r: %r (shape %r); afterwards: %r (shape %r)" % (
            sorted(set(c["other"]["labels"]), key=str), B.reshape(-1)[:6].tolist(), B.shape, A.reshape(-1)[:6].tolist(), A.shape)))


VALUE_FIXED = ("tsf", "reg", "colens", "tsffeat")      # the statement fixes the VALUE: average of trees / members on exact features


def _dtype_differs(c, o):
    """informational: does the result on this panel differ from the same numbers stored as float64?"""
    if "f64_fit_err" not in o or o.get("fit_err") or o["f64_fit_err"]:
        return None
    reg = c.get("algo") == "reg"
    mine, mine_err = (o.get("pred"), o.get("pred_err")) if reg else (o.get("proba"), o.get("proba_err"))
    if mine_err or o.get("f64_out_err") or mine is None or o.get("f64_out") is None:
        return None
    A, B = np.array(mine, dtype=float), np.array(o["f64_out"], dtype=float)
    tol = 1e-9 if c["dtype"] in INT_RANGES else None
    if tol is None:
        return None
    return A.shape != B.shape or not np.allclose(A, B, rtol=tol, atol=tol, equal_nan=True)


def _check_vs_float64(c, o, site, fails):
    """what C17 says about the panel's number type: a finite numeric panel of ANY dtype is accepted (fit / predict_proba /
    predict do not raise where the same numbers stored as float64 are accepted); the well-formedness clauses apply as usual.
    Only where the statement fixes the VALUE (TSF / forest regressor / column ensemble) must the result equal that of the
    float64 copy; for the black-box classifiers a difference is counted in the evidence, not reported."""
    if "f64_fit_err" not in o:
        return
    dt = c["dtype"]
    for mine, ref, what in ((o.get("fit_err"), o["f64_fit_err"], "fit"),
                            (None if o.get("fit_err") else (o.get("pred_err") if c.get("algo") == "reg" else o.get("proba_err")),
                             o.get("f64_out_err"), "predict" if c.get("algo") == "reg" else "predict_proba"),
                            (None if (o.get("fit_err") or c.get("algo") == "reg" or o.get("proba_err")) else o.get("pred_err"),
                             o.get("f64_pred_err"), "predict")):
        if mine and not ref and not (what != "fit" and o["f64_fit_err"]):
            fails.append((site + ":valid-panel-rejected:" + dt, "%s raised %s on a finite %s panel; the same numbers stored as float64 are accepted" % (what, mine, dt)))
            return
    if site in VALUE_FIXED and dt in INT_RANGES and _dtype_differs(c, o):
        reg = c.get("algo") == "reg"
        A = np.array(o["pred"] if reg else o["proba"], dtype=float); B = np.array(o["f64_out"], dtype=float)
        fails.append((site + ":differs-from-float64-panel" + (":narrow-int" if dt != "int64" else ""),
                      "%s panel %r, the same numbers as float64 %r" % (dt, A.reshape(-1)[:6].tolist(), B.reshape(-1)[:6].tolist())))


def _rk(site):
    a, _, b = site.partition(":")
    return a + ":refit-differs-from-fresh-fit" + (":" + b if b else "")


def _check_refit_vs_fresh(c, o, site, fails):
    """a refitted object must behave like a new object fitted once on the last training data (same seeds)"""
    if not c.get("hist") or "fresh_fit_err" not in o:
        return
    if c.get("algo") == "muse" and any(h.get("L", c["L"]) != c["L"] for h in c["hist"]):
        # MUSE.fit appends to self.window_sizes and shrinks self.max_window without resetting them (known finding):
        # only a refit on ANOTHER series length can differ through that mechanism
        site = site + ":series-length-changed"
    reg = c.get("algo") == "reg"
    if bool(o.get("fit_err")) != bool(o["fresh_fit_err"]):
        fails.append((_rk(site), "refit: fit %s; fresh object: fit %s" % (o.get("fit_err") or "ok", o["fresh_fit_err"] or "ok")))
        return
    if o.get("fit_err"):
        return
    if not reg and _lab_list(o["classes"]) != _lab_list(o["fresh_classes"]):
        fails.append((_rk(site), "classes_ after refit %r, fresh object %r" % (o["classes"], o["fresh_classes"])))
        return
    mine, mine_err = (o.get("pred"), o.get("pred_err")) if reg else (o.get("proba"), o.get("proba_err"))
    if o.get("member_raised"):
        return
    if bool(mine_err) != bool(o["fresh_out_err"]):
        fails.append((_rk(site), "refit: %s; fresh object: %s" % (mine_err or "ok", o["fresh_out_err"] or "ok")))
        return
    if mine_err:
        return
    A, B = np.array(mine, dtype=float), np.array(o["fresh_out"], dtype=float)
    if A.shape != B.shape or not np.allclose(A, B, rtol=0, atol=1e-9, equal_nan=True):
        fails.append((_rk(site), "after refit %r (shape %r), fresh object %r (shape %r)" % (
            A.reshape(-1)[:6].tolist(), A.shape, B.reshape(-1)[:6].tolist(), B.shape)))


def oracle(c, out):
    o = _observe(c)
    fails = []
    kind = c["kind"]
    if kind in ("clf", "indiv", "colens", "tsffeat") and c.get("hist"):
        _check_refit_vs_fresh(c, o, c.get("algo", kind), fails)
    if kind in ("clf", "indiv", "colens", "tsffeat"):
        _check_vs_float64(c, o, c.get("algo", kind), fails)
        _check_other_object(c, o, c.get("algo", kind), fails)
    if kind == "static":
        for (cls, name, how, path, line) in o["flagged"]:
            fails.append(("static:shared-mutable-class-attribute:%s.%s" % (cls, name),
                          "%s:%d: class attribute %s.%s is a mutable literal and is %s without being re-bound on the instance first: "
                          "one object shared by every instance" % (path, line, cls, name, how)))
        return fails
    if kind == "feat":
        if o["err"]:
            return fails
        X, ivs = c["X"], c["ivs"]
        F = np.array(o["feat"], dtype=float)
        for i, row in enumerate(X):
            for j, (a, b) in enumerate(ivs):
                m, var, sl = _textbook_features(row, a, b)
                if m is None:
                    continue
                got = F[i][3 * j: 3 * j + 3]
                if (not _near(got[0], m)) or got[1] < 0 or (not _near(got[1] ** 2, var)) or (sl is not None and not _near(got[2], sl)):
                    fails.append(("_transform:not-mean-std-slope", "instance %d interval [%d,%d): got %r, expected %s/%s(var)/%s" % (i, a, b, got.tolist(), m, var, sl)))
                    return fails
        return fails
    if kind == "tsfit":
        if o["complete"]:
            _check_intervals(o["ivs"], c["L"], "tsf.fit", fails, nonempty=(c.get("m") is None or c["m"] >= 1))
        return fails
    site = c.get("algo", kind)
    if o.get("fit_err"):
        return fails            # the panel / configuration is not runnable for this classifier: nothing to say
    if kind == "bossfit":
        if o["n_estimators"] == 0:
            fails.append((site + ":fit-retains-no-member", "fit succeeded on series of length %d with an empty ensemble" % c["L"]))
        return fails
    if kind == "tsffeat":
        _check_tree_inputs(o, "tsf", fails)
        return fails
    if kind == "clf" and c["algo"] == "reg":
        if o["pred_err"]:
            fails.append(("reg:predict-raised", o["pred_err"]))
            return fails
        exp = np.mean(np.array(o["members"]), axis=0)
        if np.abs(exp - o["pred"]).max() > 1e-9:
            fails.append(("reg:predict-not-mean-of-trees", "predict %r, mean of trees %r" % (o["pred"].tolist(), exp.tolist())))
        _check_tree_inputs(o, "reg", fails)
        _check_intervals(o["intervals"], c["L"], "reg.fit", fails)
        return fails
    _check_classes(o, site, fails)
    if kind == "base":
        _check_predict(c, o, site, fails)
        return fails
    if o.get("proba_err") and o.get("member_raised"):
        return fails            # a member (black box) failed by itself: not sktime's aggregation
    if kind == "clf" and c["algo"] == "stsf" and any(len(mc) < len(o["classes"]) for mc in o["member_classes"]):
        P = o.get("proba")
        good = (P is not None and not o.get("proba_err") and P.ndim == 2 and P.shape == (o["n_test"], len(o["classes"]))
                and not np.isnan(P).any() and (np.abs(P.sum(axis=1) - 1) <= 1e-9).all() and (P >= -TOL).all())
        if not good:
            fails.append(("stsf:predict_proba-fails:member-bag-misses-a-class",
                          "predict_proba %s; member class counts %r for %d classes" % (
                              ("raised " + o["proba_err"]) if o.get("proba_err") else ("row 0 = %r" % (P[0].tolist(),)),
                              [len(mc) for mc in o["member_classes"]], len(o["classes"]))))
            return fails
    if kind == "clf" and c["algo"] in ("boss", "cboss", "tde") and o.get("n_estimators") == 0:
        fails.append((site + ":fit-retains-no-member", "fit succeeded on series of length %d with an empty ensemble" % c["L"]))
    if o.get("proba_err"):
        if kind == "clf" and c["algo"] == "stsf" and any(len(mc) < len(o["classes"]) for mc in o["member_classes"]):
            fails.append(("stsf:predict_proba-fails:member-bag-misses-a-class",
                          "predict_proba raised %s; member class counts %r for %d classes" % (
                              o["proba_err"], [len(mc) for mc in o["member_classes"]], len(o["classes"]))))
        else:
            fails.append((site + ":predict_proba-raised", "predict_proba raised %s" % o["proba_err"]))
        return fails
    ok = _check_distribution(c, o, site, fails)
    if kind == "indiv":
        return fails
    _check_predict(c, o, site, fails, proba_ok=ok)
    if not ok:
        return fails
    if kind == "clf" and c["algo"] == "muse" and _lab_list(o["member_classes"][0]) != _lab_list(sorted(set(o["ytr"]))):
        fails.append(("muse:columns-not-ordered-like-classes", "pipeline classes_ %r" % (o["member_classes"][0],)))
    if kind == "clf" and c["algo"] in ("tsf", "rise", "stsf"):
        exp = _expected_avg(o)
        if np.abs(exp - o["proba"]).max() > 1e-9:
            fails.append((site + ":proba-not-mean-of-trees", "row 0: %r, mean of trees (columns by their classes_) %r" % (o["proba"][0].tolist(), exp[0].tolist())))
        if c["algo"] == "tsf":
            _check_tree_inputs(o, site, fails)
            _check_intervals(o["intervals"], c["L"], "tsf.fit", fails)
    if kind == "colens":
        # own columns: what the user specified for that entry ('drop' entries and empty selections get no member)
        want = []
        for (drop, key, _) in c["entries"]:
            if key[0] in ("mask", "slice"):
                ks = _key_positions(key, o["names"])
            else:
                k = _entry_key(key)
                ks = k if isinstance(k, list) else [k]
            if drop or len(ks) == 0:
                continue
            want.append([o["names"][x] if isinstance(x, int) else x for x in ks])
        if want != o["fit_cols"] or want != o["pred_cols"]:
            fails.append(("colens:member-not-on-own-columns", "specified %r, fitted on %r, asked on %r" % (want, o["fit_cols"], o["pred_cols"])))
            return fails
        # members are fitted on encoded labels 0..K-1 = positions in classes_
        K = len(o["classes"])
        if any(list(mc) != list(range(K)) for mc in o["member_classes"]):
            return fails
        mats = [np.array(m) for m in o["members"] if m is not None]
        if len(mats) != len(o["members"]) or len({m.shape for m in mats}) != 1:
            fails.append(("colens:member-outputs-missing-or-ragged", "member outputs %r" % [None if m is None else np.array(m).shape for m in o["members"]]))
            return fails
        exp = np.mean(np.array(mats), axis=0)
        if np.abs(exp - o["proba"]).max() > 1e-9:
            fails.append(("colens:proba-not-mean-of-members", "row 0: %r, mean of members on their own columns %r" % (o["proba"][0].tolist(), exp[0].tolist())))
    if kind == "clf" and c["algo"] in ("boss", "cboss", "tde"):
        # normalised votes: entry = weight of the members voting for that class / total weight
        ws = o["weights"] if o["weights"] is not None else [1.0] * len(o["members"])
        tot = float(sum(ws))
        classes = list(o["classes"])
        exp = np.zeros_like(o["proba"])
        for w, preds in zip(ws, o["members"]):
            for i, p in enumerate(preds):
                if p in classes:
                    exp[i][classes.index(p)] += w
        if tot > 0 and np.abs(exp / tot - o["proba"]).max() > 1e-9:
            fails.append((site + ":proba-not-normalised-votes", "row 0: %r, votes/total %r" % (o["proba"][0].tolist(), (exp[0] / tot).tolist())))
    return fails


def nontrivial(c, out):
    return "E:" not in out.split(" ")[0] and "=E:" not in out and "nan" not in out


def features(c, out):
    o = _observe(c)
    f = ["kind=" + c["kind"] + (":" + c["algo"] if "algo" in c else "")]
    if "labels" in c:
        ls = c["labels"]
        f.append("classes=%d" % len(set(ls)))
        f.append("labeltype=" + _type_kind(ls[0]))
        cnt = sorted(ls.count(v) for v in set(ls))
        f.append("balanced" if cnt[0] == cnt[-1] else "unbalanced")
        if _type_kind(ls[0]) == "int":
            s = sorted(set(ls))
            f.append("contiguous" if s == list(range(s[0], s[0] + len(s))) and s[0] == 0 else "non-contiguous")
    if c.get("other"):
        f.append("second-object=fitted-in-between")
    if c.get("dtype"):
        f.append("panel-dtype=" + c["dtype"])
        d = _dtype_differs(c, o)
        if d is not None:
            f.append("vs-float64-copy=" + ("differs" if d else "same") + ":" + c.get("algo", c["kind"]))
    if c.get("xform"):
        f.append("panel-form=" + c["xform"])
    if c.get("pred_order"):
        f.append("predict-frame=reordered" + ("+extra" if len(c["pred_order"]) > c.get("ncol", 1) else ""))
    if c.get("hist"):
        last = set(_lab_list(c["labels"]))
        for h in c["hist"]:
            prev = set(_lab_list(h["labels"]))
            rel = ("same" if prev == last else "earlier-superset" if prev > last else "earlier-subset" if prev < last
                   else "disjoint" if not (prev & last) else "overlap")
            if {x[0] for x in prev} != {x[0] for x in last}:
                rel = "other-dtype"
            f.append("refit=" + rel)
        f.append("refits=%d" % len(c["hist"]))
    if c.get("histL"):
        f.append("refits=%d" % len(c["histL"]))
    if o.get("fit_err"):
        f.append("fit=" + o["fit_err"])
    if o.get("proba_err"):
        f.append("proba=" + o["proba_err"] + (":member-raised" if o.get("member_raised") else ""))
    if "rs" in c:
        f.append("random_state=" + ("None" if c["rs"] is None else "int"))
    if o.get("proba") is not None and not o.get("proba_err") and getattr(o["proba"], "ndim", 0) == 2 and not np.isnan(o["proba"]).any():
        P = o["proba"]
        if any(np.sum(r == np.max(r)) > 1 for r in P):
            f.append("tie-at-max")
    return f


# ----------------------------------------------------------------------------- generators
def _labelset(rng, k, style):
    if style == "int0":
        return list(range(k))
    if style == "intgap":
        return sorted(rng.sample(range(-20, 60), k))
    if style == "intbig":
        return sorted(rng.sample([-1000000, -7, 3, 10, 11, 100, 999999, 1 << 40], k))
    if style == "str":
        return rng.sample(["a", "b", "c", "d", "e", "zz", "B", "A0"], k)
    if style == "strnum":
        return rng.sample(["10", "9", "2", "100", "1", "01"], k)      # lexicographic order differs from numeric
    return rng.sample(["cat", "Dog", "bird", "_x", "Zed", "ant2"], k)


STYLES = ["int0", "intgap", "intbig", "str", "strnum", "strword"]


def _labels(rng, n, k, style, balanced):
    ls = _labelset(rng, k, style)
    rng.shuffle(ls)                                   # first appearance order differs from sorted order
    if balanced:
        y = [ls[i % k] for i in range(n)]
    else:
        y = list(ls) + [ls[0] if rng.random() < 0.7 else rng.choice(ls) for _ in range(n - k)]
        head = y[:k]; tail = y[k:]; rng.shuffle(tail); y = head + tail
    return y, ls


INT_POOL = list(range(-20, 60)) + [-1000000, 999999, 1 << 40]
STR_POOL = ["a", "b", "c", "d", "e", "zz", "B", "A0", "10", "9", "2", "100", "1", "01", "cat", "Dog", "bird", "_x", "Zed", "ant2"]
L_CHOICES = {"tsf": [4, 5, 6, 8, 9, 12, 16, 17, 25], "reg": [4, 5, 8, 12, 16], "rise": [8, 9, 12, 16], "stsf": [16, 17, 20, 24],
             "boss": [9, 10, 11, 12, 14], "cboss": [9, 10, 11, 12, 14], "tde": [9, 10, 12], "muse": [10, 12], "indiv": [10, 11, 12, 14],
             "colens": [8, 9, 12]}


def _add_history(rng, c, algo, relation=None):
    """refit history: the SAME object is first fitted on one or two other panels whose label set is a superset /
    subset of, disjoint from, of another dtype than, or equal to the final one (sometimes another series length)"""
    if algo == "reg":
        c["hist"] = [{"labels": [rng.randrange(-40, 41) / 4.0 for _ in range(rng.randrange(3, 7))], "xseed": rng.randrange(1 << 30)}
                     for _ in range(rng.choice([1, 1, 2]))]
        if rng.random() < 0.3:
            c["hist"][0]["L"] = rng.choice(L_CHOICES["reg"])
        return c
    last = list(dict.fromkeys(c["labels"]))
    is_int = not isinstance(last[0], str)
    pool = [v for v in (INT_POOL if is_int else STR_POOL) if v not in last]
    hist = []
    for _ in range(rng.choice([1, 1, 1, 2])):
        rel = relation or rng.choice(["superset", "superset", "subset", "disjoint", "dtype", "same", "overlap"])
        if rel == "superset":
            ls = last + rng.sample(pool, rng.randrange(1, 3))
        elif rel == "subset" and len(last) >= 3:
            ls = rng.sample(last, rng.randrange(2, len(last)))
        elif rel == "disjoint":
            ls = rng.sample(pool, rng.randrange(2, 4))
        elif rel == "dtype":
            ls = rng.sample(STR_POOL if is_int else INT_POOL, rng.randrange(2, 4))
        elif rel == "overlap":
            ls = rng.sample(last, max(1, len(last) - 1)) + rng.sample(pool, 1)
        elif rel == "same":
            ls = list(last)
        else:
            ls = last + rng.sample(pool, 1)
        rng.shuffle(ls)
        n = rng.randrange(max(len(ls), 5 if algo in ("tde", "muse") else 3), max(len(ls), 5) + 5)
        h = {"labels": [ls[i % len(ls)] for i in range(n)], "xseed": rng.randrange(1 << 30), "yas": rng.choice(["np", "series"])}
        if rng.random() < 0.25:
            Ls = [L for L in L_CHOICES.get(algo, [c["L"]]) if L > c.get("params", {}).get("min_interval", 0) + 1]
            if Ls:
                h["L"] = rng.choice(Ls)
        hist.append(h)
    c["hist"] = hist
    return c


def _clf_case(rng, algo, tier):
    k = rng.choice([2, 2, 3, 3, 4, 5])
    style = rng.choice(STYLES)
    if style == "intbig":
        k = min(k, 5)
    n = rng.randrange(max(k, 3), 13) if algo not in ("tde", "muse") else rng.randrange(max(k + 2, 5), 11)
    balanced = rng.random() < 0.35
    y, ls = _labels(rng, n, k, style, balanced)
    nt = rng.randrange(1, 7)
    ytest = [rng.choice(ls) for _ in range(nt)]
    rs = rng.choice([None, 0, 0, 1, 2, 3, 7, 42, rng.randrange(1000)])
    c = {"kind": "clf", "algo": algo, "labels": y, "ytest": ytest, "xseed": rng.randrange(1 << 30), "rs": rs,
         "gseed": rng.randrange(1000), "yas": rng.choice(["np", "np", "series"]), "noise": rng.choice([2, 6, 12, 30])}
    if rng.random() < 0.25 and n >= 4:
        i, j = rng.sample(range(n), 2)
        c["dup"] = [[i, j]]                            # identical series (possibly different labels): impure leaves
    if algo == "tsf":
        c["L"] = rng.choice([4, 5, 6, 8, 9, 12, 16, 17, 25])
        c["params"] = {"n_estimators": rng.choice([1, 2, 2, 3, 4, 5, 8])}
        if rng.random() < 0.3:
            c["params"]["min_interval"] = rng.choice([1, 2, 3, 5])
            if c["params"]["min_interval"] >= c["L"]:
                c["L"] = c["params"]["min_interval"] + 2
    elif algo == "reg":
        c["L"] = rng.choice([4, 5, 8, 12, 16])
        c["labels"] = [rng.randrange(-16, 17) / 4.0 for _ in range(n)]
        c["ytest"] = [0.0] * nt
        c["params"] = {"n_estimators": rng.choice([1, 2, 3, 5])}
    elif algo == "rise":
        c["L"] = rng.choice([8, 9, 12, 16])
        c["params"] = {"n_estimators": rng.choice([1, 2, 3, 4, 6]), "min_interval": 4, "acf_lag": 3, "acf_min_values": 2}
    elif algo == "stsf":
        c["L"] = rng.choice([16, 17, 20, 24])
        c["params"] = {"n_estimators": rng.choice([1, 2, 3, 5])}
    elif algo == "boss":
        c["L"] = rng.choice([8, 9, 10, 10, 11, 12, 14])
        c["params"] = {"max_ensemble_size": rng.choice([1, 2, 500])} if rng.random() < 0.5 else {}
    elif algo == "cboss":
        c["L"] = rng.choice([8, 9, 10, 10, 11, 12, 14])
        c["params"] = {"n_parameter_samples": rng.choice([2, 4, 6]), "max_ensemble_size": rng.choice([1, 2, 3])}
    elif algo == "tde":
        c["L"] = rng.choice([9, 10, 10, 12])
        c["ncol"] = rng.choice([1, 1, 2])
        c["params"] = {"n_parameter_samples": rng.choice([2, 4]), "max_ensemble_size": rng.choice([1, 2, 3]),
                       "randomly_selected_params": 3}
    elif algo == "muse":
        c["L"] = rng.choice([10, 12])
        c["ncol"] = rng.choice([1, 2])
        c["params"] = {}
    return c


def _indiv_case(rng):
    c = _clf_case(rng, "boss", "quick")
    c["kind"] = "indiv"; del c["algo"]
    c["params"] = {"window_size": rng.choice([8, 10]), "word_length": rng.choice([4, 6, 8]), "norm": rng.random() < 0.5}
    return c


def _colens_case(rng):
    k = rng.choice([2, 3, 3, 4])
    style = rng.choice(STYLES)
    n = rng.randrange(max(k, 4), 11)
    y, ls = _labels(rng, n, k, style, rng.random() < 0.4)
    nt = rng.randrange(1, 6)
    ncol = rng.randrange(1, 5)
    names = rng.choice([None, None, ["a", "b", "c", "d"][:ncol], ["x1", "temp", "hr", "z"][:ncol]])
    nm = names or ["dim_%d" % j for j in range(ncol)]
    entries = []
    for _ in range(rng.randrange(1, 5)):
        r = rng.random()
        malformed = rng.random() < 0.06
        if r < 0.35:
            v = rng.randrange(ncol) if not malformed else rng.choice([ncol, ncol + 2, -ncol - 1])
            if rng.random() < 0.15 and not malformed:
                v = v - ncol                                      # negative position
            key, multi = ["int", v], False
        elif r < 0.55:
            vs = rng.sample(range(ncol), rng.randrange(0, ncol + 1)) if not malformed else [0, ncol]
            key, multi = ["ints", vs], len(vs) != 1
        elif r < 0.8:
            key, multi = ["name", rng.choice(nm) if not malformed else "nope"], False
        else:
            vs = rng.sample(nm, rng.randrange(0, ncol + 1))
            key, multi = ["names", vs], len(vs) != 1
        drop = rng.random() < 0.15
        inner = "centroid" if multi or rng.random() < 0.3 else rng.choice(["tsf", "tsf", "rise"])
        entries.append([drop, key, inner])
    if not any((not d) and (k[0] in ("int", "name") or len(k[1]) > 0) for (d, k, _) in entries):
        entries.append([False, ["int", 0], "tsf"])                # at least one active member
    c = {"kind": "colens", "labels": y, "ytest": [rng.choice(ls) for _ in range(nt)], "xseed": rng.randrange(1 << 30),
         "rs": rng.randrange(100), "L": rng.choice([8, 9, 12]), "ncol": ncol, "entries": entries, "noise": rng.choice([2, 6, 20]),
         "yas": rng.choice(["np", "series"])}
    if names:
        c["colnames"] = names
    return c


QUARTERS = [0.0, 0.25, 0.5, 0.75, 1.0]


def _base_small():
    """all probability rows over the quarter grid for K = 2, 3 (fixed order)"""
    rows = {2: [[a, 1 - a] for a in QUARTERS],
            3: [[a, b, 1 - a - b] for a in QUARTERS for b in QUARTERS if a + b <= 1]}
    sets = [[0, 1], [5, -3], ["b", "a"], ["10", "9"], [2, 0, 1], [7, 300, -2], ["x", "Y", "z"], ["10", "9", "2"]]
    out = []
    for ls in sets:
        K = len(ls)
        for r in rows[K]:
            for true in ls:
                out.append({"kind": "base", "labels": list(ls) + [ls[0]], "ytest": [true], "P": [r]})
    return out


def _base_random(rng):
    k = rng.choice([2, 3, 4, 5])
    style = rng.choice(STYLES)
    n = rng.randrange(k, 10)
    y, ls = _labels(rng, n, k, style, rng.random() < 0.5)
    nt = rng.randrange(1, 7)
    P = []
    for _ in range(nt):
        parts = [rng.randrange(0, 9) for _ in range(k)]
        if rng.random() < 0.4:                                   # force a tie at the maximum
            i, j = rng.sample(range(k), 2)
            parts[i] = parts[j] = max(parts)
        if sum(parts) == 0:
            parts[rng.randrange(k)] = 1
        tot = sum(parts)
        # dyadic rows (not necessarily summing to one exactly: the stub's matrix is arbitrary data)
        P.append([p / 8.0 for p in parts])
    return {"kind": "base", "labels": y, "ytest": [rng.choice(ls) for _ in range(nt)], "P": P, "yas": rng.choice(["np", "series"])}


FEAT_X = [[1.0, 2.0, 4.0, 8.0, 8.0, -3.5, 0.25], [0.0, 0.0, 0.0, 0.0, 0.0, 0.0, 0.0], [-1.5, 7.0, 7.0, 2.25, -8.0, 3.0, 3.0]]


def _feat_small():
    L = len(FEAT_X[0])
    return [{"kind": "feat", "X": FEAT_X, "ivs": [[a, b]]} for a in range(L + 1) for b in range(a + 1, L + 3)]


def _feat_random(rng):
    n = rng.randrange(1, 5); L = rng.randrange(1, 14)
    X = [[rng.randrange(-64, 65) / 8.0 for _ in range(L)] for _ in range(n)]
    ivs = []
    for _ in range(rng.randrange(1, 5)):
        a = rng.randrange(0, L)
        b = rng.randrange(a + 1, L + 2)
        ivs.append([a, b])
    return {"kind": "feat", "X": X, "ivs": ivs}


def _tsfit_small():
    out = []
    for L in range(1, 21):
        for m in (None, 0, 1, 2, 3, 4, 5):
            out.append({"kind": "tsfit", "L": L, "m": m, "nest": 2, "n": 4, "rs": L * 7 + (m or 0), "xseed": L})
    return out


def _rot(cases, tier, rng, keep):
    if tier == "thorough":
        return cases
    off = rng.randrange(keep)
    return [c for i, c in enumerate(cases) if (i + off) % keep == 0]


def is_exhaustive(tier):
    return False


def gen_cases(tier, rng):
    q = tier == "quick"
    cases = []
    cases += _rot(_base_small(), tier, rng, 6)
    cases += _rot(_feat_small(), tier, rng, 3)
    cases += _rot(_tsfit_small(), tier, rng, 3)
    plan = [("tsf", 60, 2000), ("rise", 25, 700), ("stsf", 14, 400), ("boss", 16, 400), ("cboss", 22, 600), ("tde", 10, 220),
            ("muse", 6, 120), ("reg", 14, 400)]
    for algo, nq, nth in plan:
        for _ in range(nq if q else nth):
            c = _clf_case(rng, algo, tier)
            if rng.random() < 0.3:
                _add_history(rng, c, algo)
            elif rng.random() < 0.2:
                tmp = dict(c); _add_history(rng, tmp, algo); c["other"] = tmp["hist"][0]; c["other"].pop("L", None)
            cases.append(c)
    for _ in range(12 if q else 300):
        c = _indiv_case(rng)
        if rng.random() < 0.4:
            _add_history(rng, c, "indiv")
        cases.append(c)
    for _ in range(30 if q else 900):
        c = _colens_case(rng)
        if rng.random() < 0.3:
            _add_history(rng, c, "colens")
        cases.append(c)
    # panel number type: every classifier x dtype (narrow integer panels hold values near the type's range)
    DT = ["float32", "int64", "int32", "int16", "uint8", "int8"]
    for algo in ("tsf", "reg", "rise", "stsf", "boss", "cboss", "tde", "muse", "indiv", "colens"):
        for dt in DT:
            for rep in range(1 if q else 3):
                if q and algo in ("boss", "cboss", "tde", "muse", "indiv", "stsf", "rise", "colens") and rng.randrange(3):
                    continue
                c = (_indiv_case(rng) if algo == "indiv" else _colens_case(rng) if algo == "colens" else _clf_case(rng, algo, tier))
                if algo in ("boss", "cboss", "tde", "indiv") and c["L"] < 10:
                    c["L"] = 10
                c["dtype"] = dt
                c.pop("dup", None)
                if algo == "colens":                              # RISE members have their own integer-panel finding
                    c["entries"] = [[d, k, ("tsf" if inner == "rise" else inner)] for (d, k, inner) in c["entries"]]
                if algo in ("tsf", "reg", "rise", "stsf", "boss", "cboss", "indiv") and rng.random() < 0.5:
                    c["xform"] = "np3d"
                if algo in ("tsf", "reg") and c["L"] < 6:
                    c["L"] = rng.choice([8, 12, 16])              # intervals of 4+ points: value * position leaves a narrow type
                cases.append(c)
                if algo == "tsf":
                    c2 = dict(c, kind="tsffeat", tree=rng.randrange(c["params"]["n_estimators"]), xseed=rng.randrange(1 << 30))
                    cases.append(c2)
    for dt in DT:
        for _ in range(2 if q else 20):
            c = _feat_random(rng)
            hi = INT_RANGES.get(dt)
            if hi:
                lo = 0 if dt.startswith("u") else -hi
                c["X"] = [[rng.randrange(int(lo * 0.97), int(hi * 0.97)) if dt != "int64" else rng.randrange(-4000, 4000) for _ in r] for r in c["X"]]
            c["dtype"] = dt
            cases.append(c)
    # column ensemble: specifiers by name / list of names, predict-time frame with another column order (+ an extra column);
    # masks and slices with the training order
    for rep in range(8 if q else 60):
        ncol = rng.randrange(2, 5)
        names = rng.choice([["a", "b", "c", "d"], ["x1", "temp", "hr", "z"], ["dim_0", "dim_1", "dim_2", "dim_3"]])[:ncol]
        entries = []
        cols = list(names); rng.shuffle(cols)
        for i, nm in enumerate(cols[:rng.randrange(2, ncol + 1)]):
            key = ["name", nm] if rng.random() < 0.6 else ["names", [nm]]
            entries.append([rng.random() < 0.12, key, ["tsf", "centroid", "rise"][i % 3]])
        if rng.random() < 0.4 and ncol >= 3:
            entries.append([False, ["names", rng.sample(names, 2)], "centroid"])
        if all(d for d, _, _ in entries):
            entries[0][0] = False
        order = list(names)
        while order == list(names):
            rng.shuffle(order)
        if rng.random() < 0.4:
            order.insert(rng.randrange(len(order) + 1), "zextra")
        ls = rng.choice([[0, 1, 2], ["b", "a", "c"], [7, -3, 100], ["10", "9"]])
        cases.append({"kind": "colens", "labels": [ls[i % len(ls)] for i in range(7)], "ytest": [rng.choice(ls) for _ in range(3)],
                      "xseed": rng.randrange(1 << 30), "rs": rng.randrange(50), "L": 8, "ncol": ncol, "colnames": names,
                      "entries": entries, "noise": 3, "pred_order": order})
    for rep in range(4 if q else 40):
        ncol = rng.randrange(2, 5)
        names = ["a", "b", "c", "d"][:ncol]
        entries = []
        for i in range(rng.randrange(1, 4)):
            r = rng.random()
            if r < 0.35:
                m = [rng.random() < 0.5 for _ in range(ncol)]
                key = ["mask", m]; width = sum(m)
            elif r < 0.7:
                a = rng.randrange(0, ncol); b = rng.randrange(a + 1, ncol + 1)
                key = ["slice", [a, b]]; width = b - a
            else:
                i0 = rng.randrange(ncol); i1 = rng.randrange(i0, ncol)
                key = ["slice", [names[i0], names[i1]]]; width = i1 - i0 + 1
            entries.append([False, key, "centroid" if width != 1 else rng.choice(["tsf", "centroid"])])
        entries.append([False, ["name", names[0]], "tsf"])
        ls = rng.choice([[0, 1, 2], ["b", "a"]])
        cases.append({"kind": "colens", "labels": [ls[i % len(ls)] for i in range(6)], "ytest": [rng.choice(ls) for _ in range(2)],
                      "xseed": rng.randrange(1 << 30), "rs": rng.randrange(50), "L": 8, "ncol": ncol, "colnames": names,
                      "entries": entries, "noise": 3})
    # static side: class-level mutable state in the classifier classes
    cases.append({"kind": "static"})
    # a second object: between fit and the queries of the case's object A, an object B of the same class is fitted on a
    # label set that is a subset / superset / reordering / of another dtype (a shared label then has another column)
    for algo in ("tsf", "rise", "stsf", "boss", "cboss", "tde", "muse", "indiv", "colens", "reg"):
        for rel in ("subset", "superset", "disjoint", "dtype", "overlap"):
            for rep in range(1 if q else 4):
                if algo == "reg" and rel != "superset":
                    continue
                c = (_indiv_case(rng) if algo == "indiv" else _colens_case(rng) if algo == "colens" else _clf_case(rng, algo, tier))
                if algo in ("boss", "cboss", "tde", "indiv") and c["L"] < 10:
                    c["L"] = 10
                if algo != "reg" and len(set(map(str, c["labels"]))) < 3:
                    ls = list(dict.fromkeys(c["labels"]))
                    extra = [v for v in (STR_POOL if isinstance(ls[0], str) else INT_POOL) if v not in ls][0]
                    c["labels"] = c["labels"] + [extra]
                tmp = dict(c)
                _add_history(rng, tmp, algo, relation=rel)
                h = tmp["hist"][0]
                if rel == "subset" and algo != "reg":
                    # drop the SMALLEST label: every remaining shared label moves one column to the left in B
                    last = sorted(set(c["labels"]), key=lambda v: (str(type(v)), v))
                    keep = last[1:]
                    h["labels"] = [keep[i % len(keep)] for i in range(max(len(keep), 5))]
                h.pop("L", None)
                c["other"] = h
                if algo != "reg":                                 # query A on every one of its classes
                    c["labels"] = c["labels"][:8] if len(set(map(str, c["labels"][:8]))) == len(set(map(str, c["labels"]))) else c["labels"]
                    c["test_on_train"] = True
                    c["ytest"] = list(c["labels"])
                    c["noise"] = 3
                    c.pop("pred_order", None)
                cases.append(c)
    for _ in range(10 if q else 150):
        c = _base_random(rng)
        ls = list(dict.fromkeys(c["labels"]))
        c["other"] = {"labels": (ls[1:] + ls[1:] if len(ls) > 2 else ls + [ls[0]]), "xseed": rng.randrange(1 << 30)}
        cases.append(c)
    # refit history, systematically: every classifier x every relation between the earlier and the last label set
    for algo in ("tsf", "rise", "stsf", "boss", "cboss", "tde", "muse", "indiv", "colens", "reg"):
        for rel in ("superset", "subset", "disjoint", "dtype", "same"):
            for rep in range(1 if q else 4):
                if algo == "reg" and rel != "superset":
                    continue
                c = (_indiv_case(rng) if algo == "indiv" else _colens_case(rng) if algo == "colens" else _clf_case(rng, algo, tier))
                if algo in ("boss", "cboss", "tde", "indiv") and c["L"] < 10:
                    c["L"] = 10
                if rel == "subset" and algo != "reg" and len(set(map(str, c["labels"]))) < 3:
                    ls = list(dict.fromkeys(c["labels"]))
                    extra = [v for v in (STR_POOL if isinstance(ls[0], str) else INT_POOL) if v not in ls][0]
                    c["labels"] = c["labels"] + [extra]
                _add_history(rng, c, algo, relation=rel)
                cases.append(c)
    for _ in range(60 if q else 3000):
        cases.append(_base_random(rng))
    for _ in range(40 if q else 2000):
        cases.append(_feat_random(rng))
    for _ in range(20 if q else 500):
        c = _clf_case(rng, "tsf", tier)
        c["kind"] = "tsffeat"
        c["tree"] = rng.randrange(c["params"]["n_estimators"])
        cases.append(c)
    for _ in range(20 if q else 800):
        L = rng.randrange(1, 40)
        cases.append({"kind": "tsfit", "L": L, "m": rng.choice([None, None, 0, 1, 2, 3, 4, 7, L, L + 1]), "nest": rng.randrange(1, 5),
                      "n": rng.randrange(2, 6), "rs": rng.randrange(1 << 20), "xseed": rng.randrange(1 << 20), "reg": rng.random() < 0.25})
        if rng.random() < 0.5:                           # the same forest object was fitted on other lengths before
            cases[-1]["histL"] = [rng.randrange(1, 30) for _ in range(rng.choice([1, 1, 2]))]
    # column ensemble: a 'drop' entry / an empty selection in first, middle, last position; the members sit on
    # DISTINCT columns whose class signal differs (column j is shifted by 2j patterns), inner classifiers differ
    pos_sets = [[0], [1], [2], [0, 1], [1, 2], [0, 2]] if not q else [[0], [1], [2], [0, 2]]
    for ci, gaps in enumerate(pos_sets):
        for gap_kind in ("drop", "empty"):
            for names in (None, ["a", "b", "c", "d"]):
                if q and (ci + (gap_kind == "empty") + (names is None) + rng.randrange(2)) % 2:
                    continue
                ncol = 4
                order = list(range(ncol)); rng.shuffle(order)
                entries, col_it = [], iter(order)
                for slot in range(3):
                    col = next(col_it)
                    key = ["int", col] if names is None or rng.random() < 0.5 else ["name", names[col]]
                    if slot in gaps:
                        entries.append([True, key, "tsf"] if gap_kind == "drop" else [False, ["ints", []], "centroid"])
                    else:
                        entries.append([False, key, ["tsf", "centroid", "rise"][slot]])
                ls = rng.choice([[0, 1, 2], ["b", "a", "c"], [7, -3, 100]])
                cc = {"kind": "colens", "labels": [ls[i % 3] for i in range(7)], "ytest": [ls[0], ls[1], ls[2]], "xseed": rng.randrange(1 << 30),
                      "rs": rng.randrange(50), "L": 8, "ncol": ncol, "entries": entries, "noise": 3}
                if names:
                    cc["colnames"] = names
                cases.append(cc)
    # forests larger than one block of any blockwise implementation: mean over ALL fitted trees
    sizes = [3, 10, 51, 60, 130]
    for algo in ("tsf", "reg", "rise", "stsf"):
        for ne in sizes:
            if algo == "stsf" and ne == 130 and q:
                continue
            for rep in range(1 if q else 3):
                c = _clf_case(rng, algo, tier)
                k = len(set(c["labels"])) if algo != "reg" else 0
                if algo == "reg":
                    c["labels"] = [rng.randrange(-40, 41) / 4.0 for _ in range(5)]
                else:
                    ls = sorted(set(c["labels"]), key=str)[:3]
                    c["labels"] = [ls[i % len(ls)] for i in range(6)]
                    c["ytest"] = [rng.choice(ls) for _ in range(2)]
                if algo == "reg":
                    c["ytest"] = [0.0, 0.0]
                c["L"] = {"tsf": 6, "reg": 6, "rise": 8, "stsf": 16}[algo]
                c["noise"] = 30                                   # noisy: the trees disagree, block means differ
                c.pop("dup", None)
                c["params"] = dict(c.get("params", {}), n_estimators=ne)
                c["params"].pop("min_interval", None) if algo in ("tsf", "reg") else None
                cases.append(c)
    # BOSS-family fit on series around the smallest window (fit must reject, or retain a member)
    for algo in ("boss", "cboss", "tde"):
        for L in ((8, 9, 10, 11) if q else range(5, 14)):
            for mw in ((10,) if q else (6, 10, 12)):
                p = {"boss": {}, "cboss": {"n_parameter_samples": 1, "max_ensemble_size": 1},
                     "tde": {"n_parameter_samples": 1, "max_ensemble_size": 1, "randomly_selected_params": 1}}[algo]
                cases.append({"kind": "bossfit", "algo": algo, "labels": [0, 1, 0, 1, 1], "ytest": [0], "xseed": L, "rs": 0, "L": L,
                              "params": dict(p, min_window=mw)})
    # STSF on tiny balanced panels: some bootstrap bag misses a class (fixed finding: the tree's columns are aligned);
    # the other formerly degenerate configurations live in corpus/C17
    for s_ in range(3 if q else 12):
        cases.append({"kind": "clf", "algo": "stsf", "labels": [0, 1, 0, 1], "ytest": [0, 1], "xseed": 7 + s_, "rs": s_, "L": 16,
                      "params": {"n_estimators": 10}})
    return cases


def shrink(c):
    if c["kind"] in ("clf", "colens", "tsffeat", "indiv"):
        ls = c["labels"]
        for i in range(len(ls)):
            rest = ls[:i] + ls[i + 1:]
            if len(set(rest)) >= 2:
                yield dict(c, labels=rest)
        if len(c["ytest"]) > 1:
            for i in range(len(c["ytest"])):
                yield dict(c, ytest=c["ytest"][:i] + c["ytest"][i + 1:])
        if c.get("dup"):
            yield {k: v for k, v in c.items() if k != "dup"}
        if c["kind"] == "colens" and len(c["entries"]) > 1:
            for i in range(len(c["entries"])):
                yield dict(c, entries=c["entries"][:i] + c["entries"][i + 1:])
        p = c.get("params", {})
        if p.get("n_estimators", 1) > 1:
            yield dict(c, params=dict(p, n_estimators=p["n_estimators"] - 1), **({"tree": 0} if "tree" in c else {}))
    elif c["kind"] == "base":
        if len(c["P"]) > 1:
            for i in range(len(c["P"])):
                yield dict(c, P=c["P"][:i] + c["P"][i + 1:], ytest=c["ytest"][:i] + c["ytest"][i + 1:])
    elif c["kind"] == "feat":
        if len(c["X"]) > 1:
            for i in range(len(c["X"])):
                yield dict(c, X=c["X"][:i] + c["X"][i + 1:])
        if len(c["ivs"]) > 1:
            for i in range(len(c["ivs"])):
                yield dict(c, ivs=c["ivs"][:i] + c["ivs"][i + 1:])
    elif c["kind"] == "tsfit":
        if c["nest"] > 1:
            yield dict(c, nest=c["nest"] - 1)
