"""C16 correspondence + oracle: fitted panel estimators treat instances independently and ignore the container.

Three kinds of case (field "op"):

  meta    one REAL estimator is fitted once on (xf, y); its method is applied to the batch xa (output B) and to
          metamorphic variants of xa: selections of instances by position (permutation, reversal, sub-selection,
          single instance, repeated instance, empty), the same data in the other container at apply time ("cont"),
          and a re-fit on the training data in the other container ("contfit").  The Lean model predicts every
          variant's output FROM B (e.g. `select idx B`) after running its `check_X` model on the variant input;
          that prediction is diffed with what the real code returned.
  static  an `ast` walk over the REAL source of one estimator method (and the helpers it reaches) classifies it
          as row-wise or not and emits a shape term; the Lean model evaluates `Shape.rowWise` on the term
          (theorem classified_rowwise_sound: such a shape denotes a row-wise map).
  ens     member outputs of a real ensemble are captured and the model's member-major aggregation
          (`ensembleBatch`, column mean) is compared with the real aggregated output.

Panels are JSON lists instances x columns x values (quarter-integer floats).  "base": "N" nested DataFrame
(pd.Series cells) or "A" 3-D numpy array.  The oracle is written from the property statement only.
"""
import ast, json, os, math, functools
from fractions import Fraction as Fr
import numpy as np, pandas as pd
from common import canon_err, show_rat, fuzzy_equal

PROP = "C16"
LEAN_MODULE = "SkVerif.Props.C16"
OBLIGATIONS = [
    "SkVerif.C16.loopAppend_eq_map",
    "SkVerif.C16.loopIndex_eq_map",
    "SkVerif.C16.perm_equivariant",
    "SkVerif.C16.select_perm_is_reordering",
    "SkVerif.C16.subselect_rows",
    "SkVerif.C16.single_eq_row_of_batch",
    "SkVerif.C16.single_select_eq_row",
    "SkVerif.C16.row_count_and_order",
    "SkVerif.C16.raising_rows_select",
    "SkVerif.C16.raising_rows_culprit",
    "SkVerif.C16.guardMax_select",
    "SkVerif.C16.guardMin_select",
    "SkVerif.C16.rowwise_iff_single_eq_row",
    "SkVerif.C16.rowwise_select_equivariant",
    "SkVerif.C16.ensemble_eq_rowwise_aggregate",
    "SkVerif.C16.aggregate_rowwise_of_members_rowwise",
    "SkVerif.C16.accumulate_eq_rowwise_fold",
    "SkVerif.C16.accumulate_rowwise_of_members_rowwise",
    "SkVerif.C16.compose_rowwise",
    "SkVerif.C16.pipeline_rowwise",
    "SkVerif.C16.checkX_keeps_instances",
    "SkVerif.C16.checkX_container_irrelevant",
    "SkVerif.C16.container_invariant",
    "SkVerif.C16.container_invariant_fit",
    "SkVerif.C16.applyFitted_select",
    "SkVerif.C16.checkX_accepts_subbatch",
    "SkVerif.C16.checkX_rejects_empty",
    "SkVerif.C16.classified_rowwise_sound",
    "SkVerif.C16.stat_not_rowwise_witness",
    "SkVerif.C16.sortInst_not_rowwise_witness",
    "SkVerif.C16.dictByValue_not_rowwise_witness",
    "SkVerif.C16.flagged_shapes_not_rowwise",
    "SkVerif.C16.predict_tie_rowwise_partial",
    "SkVerif.C16.predict_tie_select_partial",
    "SkVerif.C16.predict_first_max_rowwise",
    "SkVerif.C16.predict_tie_not_equivariant_witness",
    "SkVerif.C16.union_container_invariant",
    "SkVerif.C16.union_accepts_always",
    "SkVerif.C16.union_rowwise",
    "SkVerif.C16.union_select_equivariant",
    "SkVerif.C16.getDer_index_invariant",
    "SkVerif.C16.slopeMean_dtype_invariant",
    # about the ORIGINAL FeatureUnion._hstack (before /repo bec276b): the record of the repaired findings
    "SkVerif.C16.original_union_container_witness",
    "SkVerif.C16.original_union_default_labels_rowwise",
    "SkVerif.C16.original_union_label_misalignment_witness",
    "SkVerif.C16.original_union_single_instance_two_rows_witness",
]
TRUSTED = [
    "hand-written model SkVerif/Model/C16RowWise.lean of the generic shapes (row loops, member-major ensembles, "
    "accumulation loops, pipelines, check_X); NOT a model of any particular fitted member",
    "that a fitted sklearn tree / PCA / logistic regression / BOSS 1-NN histogram maps rows independently is "
    "OBSERVED by the metamorphic correspondence, not proved",
    "the static classifier (ast walk in corr/C16.py) that maps source to a shape term: a syntactic taint "
    "analysis, not a sound one",
    "module-scoped emulations in corr/C16.py: DecisionTreeClassifier(max_depth=float) inside _sfa.py, "
    "ColumnTransformer._iter/_hstack private signatures, FeatureUnion _transform_one signature, np.NINF",
]
ASSUMPTIONS = [
    "estimators are compared through canonical output rows (values, order, count); column names, index labels "
    "and dtypes are not compared",
    "floats are compared with relative tolerance 1e-9 (BLAS may round a batch and a single row differently)",
    "not runnable here and covered by the static classifier only: distance-based classifiers (compiled "
    "elastic_cython missing), shapelet_based/hybrid classifiers (compiled mrseql missing), CIF/DrCIF/Catch22/"
    "TSFresh (soft dependencies missing), ComposableTimeSeriesForest* (sklearn removed min_impurity_split)",
]
RULE = ("one case = one estimator configuration x one training panel x one apply batch x a list of variants "
        "(permutation, reversal, sub-selection, singles, repeats, empty, container at apply, container at fit) x the "
        "memory layout of every 3-D array handed over (C, Fortran, transposed view, non-contiguous slice; >= 2 "
        "variables whenever the estimator takes them) x the cells of the nested container (per instance / column dtype "
        "int64, int32, float32, float64 with a whole-number instance stored as integers anywhere in the batch and "
        "moved first / last; time index of the cell Series default, 1..T, negative, gapped, offset); "
        "distinct by driver line; non-trivial = batch accepted, at least two distinct output rows and at least "
        "one variant; static cases enumerate every transform/predict/predict_proba of the anchored files")
LEVEL_TEXT = ("Lean theorems (universally quantified over the per-instance function, members, aggregate, index "
              "list and panel) for the generic row-wise shapes + metamorphic correspondence on every runnable "
              "panel estimator + static shape classification of every apply method in the anchored files")
LEVEL_NOTE = ("partial: row-wise-ness of fitted library members (trees, PCA, BOSS histograms) is observed, not "
              "proved; the static classifier is syntactic")
TECHNIQUE = "Lean 4 proof over an executable model + differential metamorphic correspondence + ast classification"


def _repo():
    import skcompat
    return skcompat.REPO


# ----------------------------------------------------------------------------- emulations (module scoped)
_EMU = False


def _install_emulations():
    """Smallest emulations of removed *library* API needed by panel estimators (reported to the lead)."""
    global _EMU
    if _EMU:
        return
    _EMU = True
    if not hasattr(np, "NINF"):
        np.NINF = -np.inf                                   # numpy < 2 alias used by rocket/_rocket.py
    try:                                                    # sklearn 0.24 accepted max_depth=2.0
        import sktime.transformations.panel.dictionary_based._sfa as sfa_mod
        from sklearn.tree import DecisionTreeClassifier as _DTC

        class DecisionTreeClassifier(_DTC):
            def fit(self, X, y, *a, **k):
                md = self.max_depth
                if isinstance(md, (float, np.floating)) and float(md).is_integer():
                    self.max_depth = int(md)
                return super().fit(X, y, *a, **k)
        sfa_mod.DecisionTreeClassifier = DecisionTreeClassifier
    except Exception:
        pass
    try:                                                    # private sklearn ColumnTransformer signatures
        import sktime.transformations.panel.compose as cmp
        _orig_iter = cmp._ColumnTransformer._iter
        _orig_hstack = cmp.ColumnTransformer._hstack

        def _iter(self, fitted=False, replace_strings=False, column_as_labels=False, skip_drop=None,
                  skip_empty_columns=None):
            sd = replace_strings if skip_drop is None else skip_drop
            se = replace_strings if skip_empty_columns is None else skip_empty_columns
            return _orig_iter(self, fitted, column_as_labels, sd, se)
        cmp.ColumnTransformer._iter = _iter
        cmp.ColumnTransformer._hstack = lambda self, Xs, **kw: _orig_hstack(self, Xs)
    except Exception:
        pass
    try:                                                    # sklearn.pipeline._transform_one grew `params`
        import sktime.series_as_features.compose._pipeline as pl
        from sklearn.utils import Bunch
        _o = pl._transform_one
        pl._transform_one = lambda t, X, y, w, **kw: _o(t, X, y, w, params=Bunch(transform={}))
    except Exception:
        pass


# ----------------------------------------------------------------------------- estimator registry
def _slope_feature(x, axis=-1):
    x = np.asarray(x, dtype=float)
    t = np.arange(x.shape[axis], dtype=float)
    t = t - t.mean()
    den = (t * t).sum() or 1.0
    return np.tensordot(x, t, axes=([axis], [0])) / den


def _registry():
    _install_emulations()
    from sktime.transformations.panel.padder import PaddingTransformer
    from sktime.transformations.panel.truncation import TruncationTransformer
    from sktime.transformations.panel.interpolate import TSInterpolator
    from sktime.transformations.panel.reduce import Tabularizer
    from sktime.transformations.panel.pca import PCATransformer
    from sktime.transformations.panel.segment import IntervalSegmenter, RandomIntervalSegmenter, SlidingWindowSegmenter
    from sktime.transformations.panel.slope import SlopeTransformer
    from sktime.transformations.panel.dwt import DWTTransformer
    from sktime.transformations.panel.hog1d import HOG1DTransformer
    from sktime.transformations.panel.dictionary_based import PAA, SAX, SFA
    from sktime.transformations.panel.matrix_profile import MatrixProfile
    from sktime.transformations.panel.summarize import (PlateauFinder, DerivativeSlopeTransformer,
                                                         RandomIntervalFeatureExtractor, FittedParamExtractor)
    from sktime.transformations.panel.compose import (ColumnConcatenator, ColumnTransformer,
                                                       SeriesToPrimitivesRowTransformer, SeriesToSeriesRowTransformer)
    from sktime.transformations.panel.shapelets import ShapeletTransform
    from sktime.transformations.panel.rocket import Rocket, MiniRocket, MiniRocketMultivariate
    from sktime.transformations.series.summarize import MeanTransformer
    from sktime.transformations.series.cos import CosineTransformer
    from sktime.series_as_features.compose import FeatureUnion
    from sktime.forecasting.exp_smoothing import ExponentialSmoothing
    from sktime.classification.interval_based import (TimeSeriesForestClassifier, RandomIntervalSpectralForest,
                                                      SupervisedTimeSeriesForest)
    from sktime.classification.dictionary_based import (BOSSEnsemble, ContractableBOSS, TemporalDictionaryEnsemble,
                                                        MUSE, WEASEL)
    from sktime.classification.dictionary_based._boss import IndividualBOSS
    from sktime.classification.dictionary_based._tde import IndividualTDE
    from sktime.classification.compose import ColumnEnsembleClassifier
    from sktime.regression.interval_based import TimeSeriesForestRegressor
    from sklearn.pipeline import Pipeline
    from sklearn.tree import DecisionTreeClassifier

    T, C, R = "trf", "clf", "reg"
    P = "sktime/transformations/panel/"
    K = "sktime/classification/"
    reg = {}

    def add(key, kind, mk, params, src, uni=True, mv=False, ragged=False, refit=True, slow=False, minL=12, hs="-",
            bases=("N", "N", "A")):
        reg[key] = dict(kind=kind, mk=mk, params=params, src=src, uni=uni, mv=mv, ragged=ragged, refit=refit,
                        slow=slow, minL=minL, hs=hs, bases=bases, bag=key in ("sax", "sfa"),
                        # a forecaster is fitted on each cell: there the time index IS data (gaps are rejected)
                        tix=tuple(t for t in TIX if not (key == "fpe" and t == "even")))

    add("pad", T, lambda p: PaddingTransformer(**p), [{}, {"pad_length": 30}, {"pad_length": 26, "fill_value": -1}],
        (P + "padder.py", "PaddingTransformer"), uni=False, ragged=True)
    add("trunc", T, lambda p: TruncationTransformer(**p), [{}, {"lower": 5}, {"lower": 2, "upper": 6}],
        (P + "truncation.py", "TruncationTransformer"), uni=False, ragged=True)
    add("interp", T, lambda p: TSInterpolator(**p), [{"length": 7}, {"length": 30}],
        (P + "interpolate.py", "TSInterpolator"), uni=False, ragged=True)
    add("tab", T, lambda p: Tabularizer(), [{}], (P + "reduce.py", "Tabularizer"), uni=False)
    add("concat", T, lambda p: ColumnConcatenator(), [{}], (P + "compose.py", "ColumnConcatenator"), uni=False)
    add("pca", T, lambda p: PCATransformer(**p), [{"n_components": 2}, {"n_components": 3}], (P + "pca.py", "PCATransformer"))
    add("iseg", T, lambda p: IntervalSegmenter(**p), [{"intervals": 2}, {"intervals": 3}], (P + "segment.py", "IntervalSegmenter"))
    add("riseg", T, lambda p: RandomIntervalSegmenter(**p), [{"n_intervals": 3, "random_state": 1}, {"n_intervals": "sqrt", "random_state": 2}],
        (P + "segment.py", "RandomIntervalSegmenter"))
    add("slide", T, lambda p: SlidingWindowSegmenter(**p), [{"window_length": 3}, {"window_length": 4}],
        (P + "segment.py", "SlidingWindowSegmenter"))
    add("slope", T, lambda p: SlopeTransformer(**p), [{"num_intervals": 3}, {"num_intervals": 4}], (P + "slope.py", "SlopeTransformer"), uni=False)
    add("dwt", T, lambda p: DWTTransformer(**p), [{"num_levels": 2}, {"num_levels": 0}], (P + "dwt.py", "DWTTransformer"), uni=False)
    add("hog", T, lambda p: HOG1DTransformer(**p), [{}, {"num_intervals": 3, "num_bins": 4}], (P + "hog1d.py", "HOG1DTransformer"), uni=False)
    add("paa", T, lambda p: PAA(**p), [{"num_intervals": 4}, {"num_intervals": 5}], (P + "dictionary_based/_paa.py", "PAA"), uni=False)
    add("sax", T, lambda p: SAX(**p), [{"word_length": 4, "alphabet_size": 4, "window_size": 8},
                                       {"word_length": 3, "alphabet_size": 3, "window_size": 6, "remove_repeat_words": True}],
        (P + "dictionary_based/_sax.py", "SAX"))
    add("sfa", T, lambda p: SFA(**p), [
        {"word_length": 4, "alphabet_size": 4, "window_size": 8},
        {"word_length": 4, "alphabet_size": 4, "window_size": 8, "return_pandas_data_series": True, "norm": True},
        {"word_length": 4, "alphabet_size": 4, "window_size": 8, "binning_method": "information-gain"},
        {"word_length": 4, "alphabet_size": 3, "window_size": 6, "binning_method": "equi-width", "bigrams": True,
         "remove_repeat_words": True},
        {"word_length": 4, "alphabet_size": 4, "window_size": 8, "levels": 2, "anova": True, "binning_method": "kmeans"},
    ], (P + "dictionary_based/_sfa.py", "SFA"))
    add("mprof", T, lambda p: MatrixProfile(**p), [{"m": 5}, {"m": 4}], (P + "matrix_profile.py", "MatrixProfile"))
    add("plateau", T, lambda p: PlateauFinder(**p), [{"value": 0.0, "min_length": 1}, {"value": 0.25, "min_length": 1}],
        (P + "summarize/_extract.py", "PlateauFinder"))
    add("dslope", T, lambda p: DerivativeSlopeTransformer(), [{}], (P + "summarize/_extract.py", "DerivativeSlopeTransformer"),
        uni=False, ragged=True)
    add("rife", T, lambda p: RandomIntervalFeatureExtractor(n_intervals=p["n"], random_state=p["rs"],
                                                            features=[np.mean, np.std, _slope_feature][:p["nf"]]),
        [{"n": 3, "rs": 1, "nf": 3}, {"n": "sqrt", "rs": 2, "nf": 1}], (P + "summarize/_extract.py", "RandomIntervalFeatureExtractor"))
    add("fpe", T, lambda p: FittedParamExtractor(ExponentialSmoothing(), ["initial_level"]), [{}],
        (P + "summarize/_extract.py", "FittedParamExtractor"), slow=True)
    add("rowprim", T, lambda p: SeriesToPrimitivesRowTransformer(MeanTransformer()), [{}],
        (P + "compose.py", "SeriesToPrimitivesRowTransformer"), uni=False)
    add("rowser", T, lambda p: SeriesToSeriesRowTransformer(CosineTransformer()), [{}],
        (P + "compose.py", "SeriesToSeriesRowTransformer"), uni=False)
    add("shapelet", T, lambda p: ShapeletTransform(min_shapelet_length=3, max_shapelet_length=4, random_state=p["rs"]),
        [{"rs": 1}], (P + "shapelets.py", "ShapeletTransform"), slow=True)
    add("rocket", T, lambda p: Rocket(**p), [{"num_kernels": 6, "random_state": 1}], (P + "rocket/_rocket.py", "Rocket"), uni=False)
    add("minirocket", T, lambda p: MiniRocket(**p), [{"num_features": 84, "random_state": 1}],
        (P + "rocket/_minirocket.py", "MiniRocket"))
    add("minirocketmv", T, lambda p: MiniRocketMultivariate(**p), [{"num_features": 84, "random_state": 1}],
        (P + "rocket/_minirocket_multivariate.py", "MiniRocketMultivariate"), uni=False, mv=True,
        refit=False)   # fit draws channel combinations before seeding: a re-fit differs whatever the container (C12's subject)
    add("coltrans", T, lambda p: ColumnTransformer([("a", PAA(4), [0]), ("b", DWTTransformer(1), [1])]), [{}],
        (P + "compose.py", "ColumnTransformer"), uni=False, mv=True)
    add("featunion", T, lambda p: FeatureUnion([("m", SeriesToPrimitivesRowTransformer(MeanTransformer())),
                                                ("t", Tabularizer())]), [{}],
        ("sktime/series_as_features/compose/_pipeline.py", "FeatureUnion"), uni=False, hs="F,C")
    add("pipe", C, lambda p: Pipeline([("rife", RandomIntervalFeatureExtractor(n_intervals=3, random_state=p["rs"],
                                                                                features=[np.mean, np.std, _slope_feature])),
                                       ("clf", DecisionTreeClassifier(random_state=p["rs"]))]), [{"rs": 1}, {"rs": 2}], None)
    add("pipe3", C, lambda p: Pipeline([("seg", IntervalSegmenter(2)),
                                        ("mean", SeriesToPrimitivesRowTransformer(MeanTransformer(), check_transformer=False)),
                                        ("clf", DecisionTreeClassifier(random_state=1))]), [{}], None)
    add("featunion2", T, lambda p: FeatureUnion([("m", SeriesToPrimitivesRowTransformer(MeanTransformer())),
                                                 ("r", RandomIntervalFeatureExtractor(n_intervals=2, random_state=1))]), [{}],
        ("sktime/series_as_features/compose/_pipeline.py", "FeatureUnion"), hs="F,F")
    add("pipe2", C, lambda p: Pipeline([("paa", PAA(4)), ("tab", Tabularizer()),
                                        ("clf", DecisionTreeClassifier(max_depth=3, random_state=1))]), [{}], None, uni=False)
    ne = {"n_estimators": 4, "random_state": 1}
    add("tsf", C, lambda p: TimeSeriesForestClassifier(**p), [ne, {"n_estimators": 3, "random_state": 5, "min_interval": 4}],
        (K + "interval_based/_tsf.py", "TimeSeriesForestClassifier"))
    add("rise", C, lambda p: RandomIntervalSpectralForest(**p), [ne], (K + "interval_based/_rise.py", "RandomIntervalSpectralForest"), minL=20)
    add("stsf", C, lambda p: SupervisedTimeSeriesForest(**p), [{"n_estimators": 3, "random_state": 1}],
        (K + "interval_based/_stsf.py", "SupervisedTimeSeriesForest"), slow=True, minL=16)
    add("boss", C, lambda p: BOSSEnsemble(**p), [{"max_ensemble_size": 4, "random_state": 1}, {"max_ensemble_size": 3, "random_state": 2}],
        (K + "dictionary_based/_boss.py", "BOSSEnsemble"), minL=16)
    add("iboss", C, lambda p: IndividualBOSS(**p), [{"window_size": 8, "word_length": 4, "random_state": 1},
                                                    {"window_size": 6, "word_length": 4, "norm": True, "random_state": 2}],
        (K + "dictionary_based/_boss.py", "IndividualBOSS"))
    add("cboss", C, lambda p: ContractableBOSS(**p), [{"n_parameter_samples": 8, "max_ensemble_size": 4, "random_state": 1}],
        (K + "dictionary_based/_cboss.py", "ContractableBOSS"), minL=16)
    add("tde", C, lambda p: TemporalDictionaryEnsemble(**p),
        [{"n_parameter_samples": 8, "max_ensemble_size": 3, "randomly_selected_params": 4, "random_state": 1}],
        (K + "dictionary_based/_tde.py", "TemporalDictionaryEnsemble"), uni=False, slow=True, minL=16)
    add("itde", C, lambda p: IndividualTDE(**p), [{"window_size": 8, "word_length": 4, "random_state": 1}],
        (K + "dictionary_based/_tde.py", "IndividualTDE"), uni=False)
    # levels > 1 only on univariate data: the multivariate branch of IndividualTDE.fit shifts the (word, level) tuple
    add("itde2", C, lambda p: IndividualTDE(**p), [{"window_size": 8, "word_length": 4, "levels": 2, "random_state": 1}],
        (K + "dictionary_based/_tde.py", "IndividualTDE"))
    # p_threshold=1: no chi-squared feature removal at fit (on these tiny panels it can remove every feature)
    add("muse", C, lambda p: MUSE(**p), [{"random_state": 1, "p_threshold": 1.0}], (K + "dictionary_based/_muse.py", "MUSE"), uni=False, slow=True, minL=16)
    add("weasel", C, lambda p: WEASEL(**p), [{"random_state": 1, "p_threshold": 0.999}],   # keep nearly every feature (p_threshold=1 makes WEASEL.fit return None from its worker: TypeError)
         (K + "dictionary_based/_weasel.py", "WEASEL"), slow=True, minL=16)
    add("colens", C, lambda p: ColumnEnsembleClassifier([
        ("a", TimeSeriesForestClassifier(n_estimators=3, random_state=1), [0]),
        ("b", TimeSeriesForestClassifier(n_estimators=3, random_state=2), [1])]), [{}],
        (K + "compose/_column_ensemble.py", "ColumnEnsembleClassifier"), uni=False, mv=True)
    add("tsfr", R, lambda p: TimeSeriesForestRegressor(**p), [ne], ("sktime/regression/interval_based/_tsf.py", "TimeSeriesForestRegressor"))
    return reg


_REG = None


def registry():
    global _REG
    if _REG is None:
        _REG = _registry()
    return _REG


METHS = {"trf": ["transform"], "clf": ["predict_proba", "predict"], "reg": ["predict"]}


# ----------------------------------------------------------------------------- containers
LAYOUTS = ("C", "F", "T", "S")


def with_layout(arr, layout):
    """the same numbers in another memory layout: "C" row-major, "F" np.asfortranarray, "T" the transposed view
    of a (time, variable, instance) array, "S" a non-contiguous slice (every other time point of a wider array)"""
    if layout == "F":
        out = np.asfortranarray(arr)
    elif layout == "T":
        out = np.ascontiguousarray(arr.transpose(2, 1, 0)).T
    elif layout == "S":
        wide = np.full(arr.shape[:2] + (2 * arr.shape[2],), 7.5)
        wide[:, :, ::2] = arr
        out = wide[:, :, ::2]
    else:
        out = np.ascontiguousarray(arr)
    assert out.shape == arr.shape and np.array_equal(out, arr)
    return out


DT = {"f8": "float64", "f4": "float32", "i8": "int64", "i4": "int32"}
TIX = ("default", "one", "neg", "even", "off")


def time_index(kind, n):
    """index of a cell Series: default 0..n-1, 1..n, -n..-1, gapped even numbers, a window cut at label 100"""
    if kind == "one":
        return list(range(1, n + 1))
    if kind == "neg":
        return list(range(-n, 0))
    if kind == "even":
        return list(range(0, 2 * n, 2))
    if kind == "off":
        return list(range(100, 100 + n))
    return list(range(n))


def _cell_array(vals, code):
    vals = [float(v) for v in vals]
    if code in ("i8", "i4") and not all(v == int(v) for v in vals):
        code = "f8"                                         # only whole numbers can be stored as integers
    return np.array(vals, dtype=DT.get(code, "float64"))


def build(panel, base, idx=None, keepidx=False, layout="C", dts=None, tix="default"):
    """panel -> nested DataFrame ("N", pd.Series cells) or 3-D float array ("A", in the given memory layout) of
    the same numbers; idx selects rows by position.  dts: per instance, per column dtype code of the nested cells
    (the numbers do not change); tix: the time index carried by the nested cells"""
    if base == "A":
        arr = np.array([[list(map(float, s)) for s in inst] for inst in panel], dtype=float)
        if arr.ndim != 3:
            arr = arr.reshape(len(panel), len(panel[0]) if panel else 0, -1)
        if idx is not None:
            arr = arr[list(idx)]
        return with_layout(arr, layout) if arr.size else arr
    ncol = len(panel[0]) if panel else 1
    def cell(i, j):
        code = dts[i][j] if dts is not None else "f8"
        return pd.Series(_cell_array(panel[i][j], code), index=time_index(tix, len(panel[i][j])))
    df = pd.DataFrame({"var_%d" % j: [cell(i, j) for i in range(len(panel))] for j in range(ncol)},
                      index=range(len(panel)))
    if idx is not None:
        df = df.iloc[list(idx)]
        if not keepidx:
            df = df.reset_index(drop=True)
    return df


def is_rect(panel):
    if not panel:
        return True
    c = len(panel[0])
    l = len(panel[0][0]) if c else 0
    return all(len(inst) == c and all(len(s) == l for s in inst) for inst in panel)


def dims(panel):
    if not panel:
        return "_"
    return "|".join(",".join(str(len(s)) for s in inst) if inst else "e" for inst in panel)


# ----------------------------------------------------------------------------- canonical output rows
def _scalar(v):
    if isinstance(v, (bool, np.bool_)):
        return "T" if v else "F"
    if isinstance(v, (int, np.integer)):
        return str(int(v))
    if isinstance(v, (float, np.floating)):
        return show_rat(float(v))
    if isinstance(v, (str, bytes)):
        s = v.decode() if isinstance(v, bytes) else v
        return "s" + "".join(ch if ch.isalnum() else "_" for ch in s)
    if v is None:
        return "none"
    return "o" + "".join(ch if ch.isalnum() else "_" for ch in repr(v))[:40]


def _key(k):
    if isinstance(k, tuple):
        return "~".join(_scalar(x) for x in k)
    return _scalar(k)


_SERIES_IS_BAG = [False]     # SAX / SFA return pd.Series(bag): the index holds the words; elsewhere it is a time index


def _cell(v):
    if isinstance(v, pd.Series):
        if _SERIES_IS_BAG[0] and len(v) and not (list(v.index) == list(range(len(v)))) and v.dtype != object:
            items = sorted(((_key(k), _cell(x)) for k, x in v.items()))
            return ",".join("%s:%s" % kv for kv in items) or "e"
        return ",".join(_cell(x) for x in v.tolist()) or "e"
    if isinstance(v, dict):
        items = sorted((_key(k), _cell(x)) for k, x in v.items())
        return ",".join("%s:%s" % kv for kv in items) or "e"
    if isinstance(v, np.ndarray):
        return ",".join(_cell(x) for x in v.ravel().tolist()) or "e"
    if isinstance(v, (list, tuple)):
        return ",".join(_cell(x) for x in v) or "e"
    return _scalar(v)


def rows_of(out):
    """canonical row strings of an estimator output: one string per output row, in order"""
    if isinstance(out, list) and len(out) == 1 and isinstance(out[0], (list, tuple)):
        out = list(out[0])                                  # SFA: [list of bags]
        return [_cell(b) for b in out]
    if isinstance(out, pd.DataFrame):
        rows = []
        for i in range(out.shape[0]):
            cells = [out.iat[i, j] for j in range(out.shape[1])]
            nested = any(isinstance(v, (pd.Series, np.ndarray, dict, list, tuple)) for v in cells)
            rows.append((";" if nested else ",").join(_cell(v) for v in cells) or "e")
        return rows
    if isinstance(out, pd.Series):
        return [_cell(v) for v in out.tolist()]
    if isinstance(out, np.ndarray):
        if out.ndim == 1:
            return [_scalar(v) if not isinstance(v, np.ndarray) else _cell(v) for v in out.tolist()]
        return [_cell(out[i]) for i in range(out.shape[0])]
    if isinstance(out, (list, tuple)):
        return [_cell(v) for v in out]
    raise TypeError("cannot canonicalise output of type %s" % type(out).__name__)


def show_rows(rows):
    return "|".join(rows) if rows else "_"


def parse_rows(s):
    return [] if s == "_" else s.split("|")


def same_row(a, b, tol=1e-9):
    return fuzzy_equal(a, b, tol)


def case_tol(case):
    """float32 cells are computed with in single precision by some estimators; the 3-D twin is float64"""
    d = case.get("dts") or {}
    return 2e-5 if any(c == "f4" for part in d.values() for inst in part for c in inst) else 1e-9


# ----------------------------------------------------------------------------- real code: metamorphic observations
_CACHE = {}


def _ckey(case):
    return json.dumps(case, sort_keys=True, default=str)


def _labels(case):
    y = case["y"]
    if case.get("ykind") == "str":
        return np.array(["c%s" % v for v in y])
    if registry()[case["est"]]["kind"] == "reg":
        return np.array([float(v) for v in y])
    return np.array([int(v) for v in y])


def _try_rows(f):
    try:
        return show_rows(rows_of(f()))
    except Exception as e:
        return canon_err(e)


def meta_real(case):
    import joblib
    ent = registry()[case["est"]]
    base, keep, meth = case["base"], bool(case.get("keepidx")), case["meth"]
    lay = case.get("layout", "C")                           # memory layout of every 3-D array handed over in this case
    dts, tix = case.get("dts") or {}, case.get("tix", "default")   # dtypes / time index of the nested cells
    kwa = dict(layout=lay, dts=dts.get("xa"), tix=tix)
    kwf = dict(layout=lay, dts=dts.get("xf"), tix=tix)
    _SERIES_IS_BAG[0] = bool(ent.get("bag"))
    other = "A" if base == "N" else "N"
    xa, xf = case["xa"], case["xf"]
    y = _labels(case)
    with joblib.parallel_backend("threading"):
        try:
            est = ent["mk"](case["p"])
            est.fit(build(xf, case.get("fitbase", base), **kwf), y)
        except Exception as e:
            return "fit=" + canon_err(e)
        apply = getattr(est, meth)
        parts = ["fit=ok", "tol=%g" % case_tol(case), "A=" + _fitted_attrs(est)]
        b = _try_rows(lambda: apply(build(xa, base, **kwa)))
        parts.append("b=" + ("ok" if not b.startswith("E:") else b))
        parts.append("B=" + (b if not b.startswith("E:") else "_"))
        ties = []
        if meth == "predict" and _tie_by_rng(ent) and not b.startswith("E:"):
            try:
                P = np.asarray(est.predict_proba(build(xa, base, **kwa)))
                ties = [i for i in range(P.shape[0]) if int((P[i] == P[i].max()).sum()) > 1]
            except Exception:
                ties = []
        parts.append("t=" + (",".join(map(str, ties)) or "-"))
        if ent["hs"] != "-":                                # feature union: number of output columns per member
            try:
                ws = [int(np.asarray(tr.transform(build(xa, "N"))).shape[1]) for _, tr in est.transformer_list]
                parts.append("w=" + ",".join(k + str(w) for k, w in zip(ent["hs"].split(","), ws)))
            except Exception as e:
                parts.append("w=-")
        for k, v in enumerate(case["vars"]):
            if v[0] == "sel":
                r = _try_rows(lambda: apply(build(xa, base, idx=v[1], keepidx=keep, **kwa)))
            elif v[0] == "cont":
                r = _try_rows(lambda: apply(build(xa, other, **kwa)))
            elif v[0] == "contfit":
                def refit():
                    e2 = ent["mk"](case["p"])
                    e2.fit(build(xf, other, **kwf), y)
                    fa2.append(_fitted_attrs(e2))
                    return getattr(e2, meth)(build(xa, base, **kwa))
                fa2 = []
                r = _try_rows(refit)
                if fa2:
                    parts.append("A%d=%s" % (k, fa2[0]))
            else:
                raise ValueError(v)
            parts.append("r%d=%s" % (k, r))
    return " ".join(parts)


def _tie_by_rng(ent):
    """does the REAL source of this classifier's predict draw tie-breaks from one random stream (static walk)?"""
    if ent["src"] is None:
        return False
    try:
        st = static_analyse(ent["src"][0], ent["src"][1], "predict")
        return any(k == "rng" for k, _, _ in st.get("flags", []))
    except Exception:
        return False


FITTED_ATTRS = ("intervals_", "lower_", "pad_length_", "series_length", "input_shape_")


def _fitted_attrs(est):
    """fitted attributes that a caller can read, where exposed (compared between fits in the two containers)"""
    out = []
    for a in FITTED_ATTRS:
        if hasattr(est, a):
            try:
                v = getattr(est, a)
                if a == "input_shape_":
                    v = list(v)[1:2]                        # (instances, columns[, time]) depends on the container
                if a == "intervals_" and isinstance(v, list) and v and isinstance(v[0], np.ndarray) and v[0].ndim == 1 \
                        and len(v[0]) != 2:
                    v = [[int(x[0]), int(x[-1])] for x in v]     # IntervalSegmenter keeps whole index chunks
                out.append("%s~%s" % (a.strip("_"), _cell(np.asarray(v, dtype=float)).replace(",", "~")))
            except Exception:
                out.append("%s~?" % a.strip("_"))
    return "+".join(out) or "-"


def _fields(out):
    d = {}
    for tok in out.split(" "):
        k, _, v = tok.partition("=")
        d[k] = v
    return d


def meta_cfg(case):
    """(univariate, coercion) of the estimator's check_X call, read off the REAL source by the static walk;
    composites (no single source method) fall back to the registry"""
    ent = registry()[case["est"]]
    u, k = ent["uni"] and not ent["mv"], "none"
    if ent["src"] is not None:
        try:
            st = static_analyse(ent["src"][0], ent["src"][1], case["meth"])
            if st["cfg"] is not None:
                cu, ck = st["cfg"]
                if cu is not None:
                    u = cu
                k = ck
        except Exception:
            pass
    return u, k


def meta_line(case):
    out = _CACHE.get(_ckey(case))
    if out is None:
        out = meta_real(case)
    f = _fields(out)
    if f.get("fit") != "ok" or (f.get("b") != "ok" and case.get("valid")):
        return None            # estimator-specific rejection of a valid panel: not modelled (the oracle reports it)
    u, k = meta_cfg(case)
    ops = []
    lab = bool(case.get("keepidx")) and case["base"] == "N"
    for v in case["vars"]:
        if v[0] == "sel":
            ops.append(("lsel:" if lab else "sel:") + (",".join(str(i) for i in v[1]) or "-"))
        elif v[0] == "cont":
            ops.append("cont")
        else:
            ops.append("contfit:%s:%s:%s" % ("T" if u else "F", k, dims(case["xf"])))
    return "C16 meta %s %s %s:%s %s %s %s %s" % ("T" if u else "F", k, case["base"], dims(case["xa"]), f.get("t", "-"),
                                                 f.get("w", "-"), f.get("B", "_"), " ".join(ops))


def meta_oracle(case, out):
    """the property text on the real observations"""
    f = _fields(out)
    tag = "%s.%s" % (case["est"], case["meth"])
    # nested cells carry a non-default time index and the estimator does not convert them to a 3-D array first
    cix = "@cell-index" if case.get("tix", "default") != "default" and meta_cfg(case)[1] != "numpy" else ""
    if f.get("fit") != "ok":
        return [("%s:valid-fit-rejected:%s%s" % (tag, f.get("fit"), cix), out)] if case.get("valid") else []
    if f["b"] != "ok":
        return [("%s:valid-rejected:%s%s" % (tag, f["b"], cix), "batch rejected: " + f["b"])] if case.get("valid") else []
    dxa = (case.get("dts") or {}).get("xa")
    def int_column(idx):                                    # a column in which every selected instance is stored as integers
        return bool(dxa) and any(all(dxa[i][j] in ("i8", "i4") for i in idx) for j in range(len(dxa[0])))
    tie_rng = case["meth"] == "predict" and _tie_by_rng(registry()[case["est"]])
    B = parse_rows(f["B"])
    tol = case_tol(case)
    res = []
    if len(B) != len(case["xa"]):
        res.append((tag + ":row-count", "batch of %d instances gave %d rows" % (len(case["xa"]), len(B))))
    for k, v in enumerate(case["vars"]):
        r = f["r%d" % k]
        if v[0] == "sel":
            idx = v[1]
            if not idx:
                continue                                    # empty input: the property says nothing
            kind = ("single" if len(idx) == 1 else "perm" if sorted(idx) == list(range(len(case["xa"]))) else
                    "repeat" if len(set(idx)) < len(idx) else "subselect")
            if case.get("keepidx") and case["base"] == "N":
                kind = "labelled-" + kind                   # the selected rows keep their index labels (X.iloc[idx])
            if r.startswith("E:"):
                res.append(("%s:%s-rejected%s" % (tag, kind, cix), "batch accepted but instances %s rejected: %s" % (idx, r)))
                continue
            if idx and case["base"] == "N" and all(i < len(case["xa"]) for i in idx) and int_column(idx):
                kind += "@int-cells"                        # every selected instance is stored as integers
            V = parse_rows(r)
            if len(V) != len(idx):
                res.append(("%s:%s-row-count" % (tag, kind), "%d instances gave %d rows" % (len(idx), len(V))))
                continue
            if any(i >= len(B) for i in idx):
                continue
            bad = [j for j, i in enumerate(idx) if not same_row(V[j], B[i], tol)]
            tied = set(int(x) for x in f.get("t", "-").split(",") if x not in ("-", ""))
            if bad and tie_rng and all(idx[j] in tied for j in bad):
                j = bad[0]
                res.append(("%s:tied-label-depends-on-position" % tag,
                            "instances %s: instance %d has tied class probabilities; alone / reordered it is labelled %s, in the batch %s"
                            % (idx, idx[j], V[j], B[idx[j]])))
            elif bad:
                j = ([x for x in bad if idx[x] not in tied] or bad)[0]
                res.append(("%s:%s-rows-differ" % (tag, kind),
                            "instances %s: output row %d = %s but batch row %d = %s" % (idx, j, V[j][:120], idx[j], B[idx[j]][:120])))
        else:
            kind = "container-apply" if v[0] == "cont" else "container-fit"
            if r.startswith("E:"):
                res.append(("%s:%s-rejected%s" % (tag, kind, cix), r))
                continue
            V = parse_rows(r)
            if len(V) != len(B) or any(not same_row(a, b, tol) for a, b in zip(V, B)):
                res.append(("%s:%s-differs" % (tag, kind), "other container gave %s, batch gave %s" % (r[:150], f["B"][:150])))
            if v[0] == "contfit" and ("A%d" % k) in f and f["A%d" % k] != f.get("A"):
                res.append(("%s:container-fit-attributes-differ" % tag,
                            "fitted on the other container: %s, fitted on this one: %s" % (f["A%d" % k][:150], f.get("A", "")[:150])))
    return res


# ----------------------------------------------------------------------------- real code: ensembles
def ens_real(case):
    import joblib
    ent = registry()[case["est"]]
    try:
        with joblib.parallel_backend("threading"):
            est = ent["mk"](case["p"])
            est.fit(build(case["xf"], "N"), _labels(case))
            X = build(case["xa"], "N")
            agg = np.asarray(getattr(est, case["meth"])(X), dtype=float)
            Xs = np.asarray(build(case["xa"], "A")).squeeze(1) if ent["uni"] and not ent["mv"] else None
            if case["est"] == "tsf":
                from sktime.classification.interval_based._tsf import _predict_proba
                mem = [_predict_proba(Xs, est.estimators_[i], est.intervals_[i]) for i in range(est.n_estimators)]
            elif case["est"] == "tsfr":
                from sktime.regression.interval_based._tsf import _predict
                mem = [_predict(Xs, est.estimators_[i], est.intervals_[i]) for i in range(est.n_estimators)]
            elif case["est"] == "rise":
                from sktime.classification.interval_based._rise import _predict_proba_for_estimator
                mem = [_predict_proba_for_estimator(Xs, est.estimators_[i], est.intervals[i], est.lags[i])
                       for i in range(est.n_estimators)]
            elif case["est"] == "colens":
                mem = list(est._collect_probas(X))
            else:
                raise ValueError(case["est"])
        mem = [np.asarray(m, dtype=float).reshape(len(case["xa"]), -1) for m in mem]
        agg = agg.reshape(len(case["xa"]), -1)
        return "m=%s a=%s" % (";".join(show_rows([_cell(r) for r in m]) for m in mem), show_rows([_cell(r) for r in agg]))
    except Exception as e:
        return canon_err(e)


def ens_line(case):
    out = _CACHE.get(_ckey(case)) or ens_real(case)
    if out.startswith("E:"):
        return None
    return "C16 ens mean " + _fields(out)["m"]


def ens_oracle(case, out):
    if out.startswith("E:"):
        return [("%s:ens-rejected" % case["est"], out)]
    f = _fields(out)
    mem = [[[Fr(v) for v in r.split(",")] for r in parse_rows(t)] for t in f["m"].split(";")]
    agg = [[Fr(v) for v in r.split(",")] for r in parse_rows(f["a"])]
    for i, row in enumerate(agg):
        for j, v in enumerate(row):
            want = sum(m[i][j] for m in mem) / len(mem)
            if abs(float(v) - float(want)) > 1e-9 * max(1.0, abs(float(want))):
                return [("%s:ens-row-not-mean-of-member-rows" % case["est"], "row %d col %d: %s vs %s" % (i, j, float(v), float(want)))]
    return []


# ----------------------------------------------------------------------------- static classifier (ast walk)
# Taints: None | "N" (number of instances) | "i" (instance position / position vector) | "I" (data of ONE instance)
#         | "B" (data of the whole batch, instance axis first) | "M" (member-major stack of batch outputs)
#         | ("S", id) (a statistic computed across the instances of the batch)
RED = {"mean", "sum", "std", "var", "median", "max", "min", "amax", "amin", "nanmean", "nansum", "nanstd", "nanvar",
       "nanmedian", "nanmax", "nanmin", "average", "prod", "cumsum", "cumprod", "argmax", "argmin", "any", "all",
       "percentile", "quantile", "ptp", "mode", "count_nonzero", "zscore", "rankdata", "norm", "unique", "bincount"}
SORTS = {"sort", "argsort", "lexsort", "sorted", "sort_values", "sort_index", "shuffle", "permutation", "partition",
         "argpartition", "drop_duplicates", "reversed", "set", "frozenset", "flip", "flipud", "nunique"}
BUILD = {"concat", "concatenate", "stack", "vstack", "hstack", "append", "column_stack", "take", "repeat", "split",
         "array_split", "expand_dims", "squeeze", "swapaxes", "moveaxis", "delete", "insert", "DataFrame", "Series"}
LIBROOTS = {"np", "pd", "scipy", "math", "stats", "signal", "interpolate", "sparse", "statistics", "numpy", "pandas"}
ORDER = {None: 0, "N": 1, "i": 2, "iv": 2, "L": 2, "I": 3, "M": 4, "B": 5}   # "L": index labels of the batch
META = {"issparse", "isinstance", "hasattr", "type", "callable", "iscomplexobj", "isscalar", "print", "str", "repr",
        "format", "is_nested_dataframe", "check_is_fitted", "isfunction"}
TRUSTED_FILES = ("sktime/utils/data_processing.py", "sktime/utils/validation/")   # container conversions: C15


def _is_stat(t):
    return isinstance(t, tuple) and t[0] == "S"


def _join(a, b):
    if _is_stat(a) and not _is_stat(b):
        return a if ORDER[b] <= 1 else b
    if _is_stat(b) and not _is_stat(a):
        return b if ORDER[a] <= 1 else a
    if _is_stat(a):
        return a
    return a if ORDER[a] >= ORDER[b] else b


_INDEX = {}


def _source_index():
    """every function / class of /repo's sktime (tests excluded), parsed once per process"""
    root = _repo()
    if root in _INDEX:
        return _INDEX[root]
    idx = {"func": {}, "cls": {}, "imports": {}}
    base = os.path.join(root, "sktime")
    for d, ds, fs in os.walk(base):
        ds[:] = sorted(x for x in ds if x != "tests")
        for fn in sorted(fs):
            if not fn.endswith(".py"):
                continue
            p = os.path.join(d, fn)
            rel = os.path.relpath(p, root)
            try:
                tree = ast.parse(open(p, encoding="utf-8").read())
            except Exception:
                continue
            imp = {}
            for n in ast.walk(tree):
                if isinstance(n, ast.ImportFrom) and n.module and n.module.startswith("sktime"):
                    for a in n.names:
                        imp[a.asname or a.name] = (n.module, a.name)
            idx["imports"][rel] = imp
            for n in tree.body:
                if isinstance(n, ast.FunctionDef):
                    idx["func"][(rel, n.name)] = n
                elif isinstance(n, ast.ClassDef):
                    idx["cls"].setdefault(n.name, []).append((rel, n))
    _INDEX[root] = idx
    return idx


def _mod_to_rel(mod):
    p = mod.replace(".", "/")
    for cand in (p + ".py", p + "/__init__.py"):
        if os.path.exists(os.path.join(_repo(), cand)):
            return cand
    return None


class _Walk:
    def __init__(self, rel, clsname):
        self.idx = _source_index()
        self.rel, self.clsname = rel, clsname
        self.flags = []          # (kind, where, what)
        self.stats = {}          # id -> {"where", "what", "uses": set()}
        self.how = set()
        self.members = set()
        self.cfg = None
        self.delegates = set()
        self.stack = []
        self.memo = {}

    # -- resolution
    def find_class(self, name, rel=None):
        c = self.idx["cls"].get(name, [])
        for r, n in c:
            if r == rel:
                return r, n
        return c[0] if c else None

    def find_method(self, clsname, meth, rel=None, seen=None):
        seen = seen or set()
        if clsname in seen:
            return None
        seen.add(clsname)
        c = self.find_class(clsname, rel)
        if c is None:
            return None
        r, node = c
        for m in node.body:
            if isinstance(m, ast.FunctionDef) and m.name == meth:
                return r, clsname, m
        for b in node.bases:
            bn = b.id if isinstance(b, ast.Name) else b.attr if isinstance(b, ast.Attribute) else None
            if bn:
                got = self.find_method(bn, meth, r, seen)
                if got:
                    return got
        return None

    def find_function(self, name, rel):
        f = self.idx["func"].get((rel, name))
        if f is not None:
            return rel, f
        imp = self.idx["imports"].get(rel, {}).get(name)
        if imp:
            r2 = _mod_to_rel(imp[0])
            if r2:
                f = self.idx["func"].get((r2, imp[1]))
                if f is not None:
                    return r2, f
                # re-exported through a package __init__
                imp2 = self.idx["imports"].get(r2, {}).get(imp[1])
                if imp2:
                    r3 = _mod_to_rel(imp2[0])
                    if r3 and (r3, imp2[1]) in self.idx["func"]:
                        return r3, self.idx["func"][(r3, imp2[1])]
        return None

    # -- flags
    def flag(self, kind, fr, node):
        what = ast.unparse(node)[:80]
        key = (kind, fr["name"], what)
        if key not in [(k, w, x) for k, w, x in self.flags]:
            self.flags.append(key)

    def new_stat(self, fr, node):
        sid = len(self.stats)
        self.stats[sid] = {"where": fr["name"], "what": ast.unparse(node)[:80], "uses": set()}
        return ("S", sid)

    def use(self, t, fr):
        if _is_stat(t):
            self.stats[t[1]]["uses"].add("guard" if fr.get("guard") else "other")

    # -- function frames
    def call_function(self, rel, clsname, fn, argt, kwt, name, call=None):
        params = [a.arg for a in fn.args.args]
        defaults = dict(zip(params[len(params) - len(fn.args.defaults):], fn.args.defaults))
        if params and params[0] in ("self", "cls") and clsname is not None:
            params = params[1:]
        consts = {}
        for p_, d_ in defaults.items():
            v_ = self.const_int(d_)
            if v_ != "?":
                consts[p_] = v_
        if call is not None:
            for p_, a_ in list(zip(params, call.args)) + [(k.arg, k.value) for k in call.keywords if k.arg]:
                v_ = self.const_int(a_, None)
                if v_ != "?":
                    consts[p_] = v_
                else:
                    consts.pop(p_, None)
        bound = {}
        for p, t in zip(params, argt):
            bound[p] = t
        for k, t in kwt.items():
            if k in params:
                bound[k] = t
        key = (rel, name, tuple(sorted((k, str(v)) for k, v in bound.items())), tuple(sorted((k, str(v)) for k, v in consts.items())))
        if key in self.memo:
            return self.memo[key]
        if key in self.stack or len(self.stack) > 6:
            return _join_all(list(bound.values()))
        self.stack.append(key)
        fr = {"rel": rel, "cls": clsname, "name": name, "env": dict(bound), "depth": {}, "loop": 0, "local": {},
              "ret": None, "guard": False, "consts": consts}
        self.block(fn.body, fr)
        self.stack.pop()
        ret = fr["ret"]
        if ORDER.get(ret, 9) < ORDER["I"] and any(v == "I" for v in bound.values()) and \
                any(isinstance(n, ast.Return) and n.value is not None for n in ast.walk(fn)):
            ret = "I"               # implicit flows (branches on the instance's data): the result belongs to the instance
        self.memo[key] = ret
        return ret

    # -- statements
    def block(self, body, fr):
        for st in body:
            self.stmt(st, fr)

    def assign(self, target, t, fr, node=None):
        if isinstance(target, ast.Name):
            fr["env"][target.id] = t
            fr["depth"].setdefault(target.id, fr["loop"])
        elif isinstance(target, (ast.Tuple, ast.List)):
            for e in target.elts:
                self.assign(e, t, fr, node)
        elif isinstance(target, ast.Starred):
            self.assign(target.value, t, fr, node)
        elif isinstance(target, ast.Attribute):
            fr["env"][ast.unparse(target)] = t
        elif isinstance(target, ast.Subscript):
            self.store(target, t, fr)

    def store(self, target, t, fr):
        base = target.value
        bt = self.ev(base, fr)
        sl = target.slice
        first = sl.elts[0] if isinstance(sl, ast.Tuple) and sl.elts else sl
        kt = self.ev(first, fr)
        if kt == "I" and not isinstance(first, ast.Slice) and bt != "I" and not (isinstance(base, ast.Name) and fr["depth"].get(base.id, 0) > 0):
            self.flag("dict", fr, target)                   # container keyed by something derived from instance values
        self.use(t, fr)
        nt = t
        if bt == "I":
            return
        root = base
        while isinstance(root, (ast.Subscript, ast.Attribute)) and not (isinstance(root, ast.Attribute) and isinstance(root.value, ast.Name) and root.value.id == "self"):
            root = root.value
        name = root.id if isinstance(root, ast.Name) else ast.unparse(root)
        local = isinstance(root, ast.Name) and fr["depth"].get(root.id, 0) > 0 and fr["loop"] > 0
        if local:
            nt = "I" if ORDER.get(t, 0) >= ORDER["i"] else t      # a buffer created for this instance
        elif kt == "i":
            nt = "B"
            self.how.add("loop")
        elif fr["loop"] > 0:
            nt = "B" if ORDER.get(t, 0) >= ORDER["I"] else t
            self.how.add("loop")
        fr["env"][name] = _join(fr["env"].get(name), nt if not _is_stat(nt) else "B")

    def stmt(self, st, fr):
        if isinstance(st, ast.Assign):
            t = self.ev(st.value, fr)
            if (isinstance(st.value, ast.Attribute) and st.value.attr == "shape" and self.ev(st.value.value, fr) in ("B",)
                    and isinstance(st.targets[0], (ast.Tuple, ast.List))):
                for k, e in enumerate(st.targets[0].elts):
                    self.assign(e, "N" if k == 0 else None, fr)
                return
            for tg in st.targets:
                self.assign(tg, t, fr, st)
        elif isinstance(st, ast.AnnAssign):
            if st.value is not None:
                self.assign(st.target, self.ev(st.value, fr), fr)
        elif isinstance(st, ast.AugAssign):
            t = self.ev(st.value, fr)
            if isinstance(st.target, ast.Subscript):
                self.store(st.target, t, fr)
            else:
                cur = self.ev(st.target, fr)
                self.use(t, fr)
                self.assign(st.target, _join(cur, t), fr)
        elif isinstance(st, ast.Expr):
            self.ev(st.value, fr)
        elif isinstance(st, ast.Return):
            if st.value is not None:
                t = self.ev(st.value, fr)
                fr["ret"] = _join(fr["ret"], t) if fr["ret"] is not None else t
        elif isinstance(st, ast.For):
            it = self.ev(st.iter, fr)
            inst = self.bind_loop(st.target, st.iter, it, fr)
            if inst:
                fr["loop"] += 1
                self.how.add("loop")
            for _ in range(2):
                self.block(st.body, fr)
            if inst:
                fr["loop"] -= 1
            self.block(st.orelse, fr)
        elif isinstance(st, ast.While):
            self.ev(st.test, fr)
            for _ in range(2):
                self.block(st.body, fr)
        elif isinstance(st, ast.If):
            only_raise = bool(st.body) and all(isinstance(s, ast.Raise) for s in st.body) and not st.orelse
            old = fr["guard"]
            fr["guard"] = old or only_raise
            tt = self.ev(st.test, fr)
            self.use(tt, fr)
            fr["guard"] = old
            self.block(st.body, fr)
            self.block(st.orelse, fr)
        elif isinstance(st, ast.With):
            for it in st.items:
                self.ev(it.context_expr, fr)
            self.block(st.body, fr)
        elif isinstance(st, ast.Try):
            self.block(st.body, fr)
            for h in st.handlers:
                self.block(h.body, fr)
            self.block(st.orelse, fr)
            self.block(st.finalbody, fr)
        elif isinstance(st, ast.FunctionDef):
            fr["local"][st.name] = st
        elif isinstance(st, (ast.Raise, ast.Assert)):
            for ch in ast.iter_child_nodes(st):
                if isinstance(ch, ast.expr):
                    old = fr["guard"]
                    fr["guard"] = True
                    self.ev(ch, fr)
                    fr["guard"] = old

    def bind_loop(self, target, iter_node, it, fr):
        """taint the loop variable(s); True when the loop runs over the instances of the batch"""
        f = iter_node.func if isinstance(iter_node, ast.Call) else None
        fname = f.id if isinstance(f, ast.Name) else f.attr if isinstance(f, ast.Attribute) else None
        if fname == "enumerate" and isinstance(target, ast.Tuple) and len(target.elts) == 2:
            inner = self.ev(iter_node.args[0], fr) if iter_node.args else None
            if inner in ("B",):
                self.assign(target.elts[0], "i", fr)
                self.assign(target.elts[1], "I", fr)
                fr["depth"][getattr(target.elts[1], "id", "_")] = fr["loop"] + 1
                return True
            self.assign(target.elts[0], None, fr)
            self.assign(target.elts[1], "B" if inner == "M" else inner, fr)
            return False
        if fname == "zip":
            ts = [self.ev(a, fr) for a in iter_node.args]
            if any(t == "B" for t in ts):
                for e, t in zip(target.elts if isinstance(target, ast.Tuple) else [target], ts):
                    self.assign(e, "I" if t == "B" else t, fr)
                return True
        if it == "iv":                                      # range(n_instances), X.index
            self.assign(target, "i", fr)
            return True
        if it == "B":
            self.assign(target, "I", fr)
            return True
        if it == "L":                                       # one label per instance: instance-derived
            self.assign(target, "I", fr)
            return True
        if it == "M":
            self.assign(target, "B", fr)
            return False
        self.assign(target, it, fr)
        return False

    # -- expressions
    def ev(self, e, fr):
        m = getattr(self, "ev_" + type(e).__name__, None)
        if m is not None:
            return m(e, fr)
        t = None
        for ch in ast.iter_child_nodes(e):
            if isinstance(ch, ast.expr):
                t = _join(t, self.ev(ch, fr))
        return t

    def ev_Constant(self, e, fr):
        return None

    def ev_Name(self, e, fr):
        return fr["env"].get(e.id)

    def ev_Attribute(self, e, fr):
        full = ast.unparse(e)
        if full in fr["env"]:
            return fr["env"][full]
        bt = self.ev(e.value, fr)
        if e.attr in ("shape", "columns", "dtype", "dtypes", "ndim", "size", "name"):
            return None
        if e.attr == "index":
            return "L" if bt == "B" else None               # index LABELS: not positions, not values
        return bt

    def ev_Subscript(self, e, fr):
        bt = self.ev(e.value, fr)
        sl = e.slice
        if isinstance(e.value, ast.Attribute) and e.value.attr == "shape":
            base = self.ev(e.value.value, fr)
            if base == "B" and isinstance(sl, ast.Constant) and sl.value == 0:
                return "N"
            return None
        first = sl.elts[0] if isinstance(sl, ast.Tuple) and sl.elts else sl
        ft = self.ev(first, fr)
        if isinstance(sl, ast.Tuple):
            for x in sl.elts[1:]:
                self.use(self.ev(x, fr), fr)
        if bt == "B":
            if ft == "i" and not isinstance(first, ast.Slice):
                return "I"                                  # one position -> one instance (a position vector keeps a batch)
            if isinstance(first, ast.Slice) and first.step is not None and isinstance(first.step, ast.UnaryOp):
                self.flag("sort", fr, e)                    # X[::-1]
            return "B"
        if bt == "M":
            return "B"
        if bt is None and ft in ("I", "B"):
            return ft                                       # lookup table indexed by data
        return bt

    def ev_Slice(self, e, fr):
        t = None
        for p in (e.lower, e.upper, e.step):
            if p is not None:
                t = _join(t, self.ev(p, fr))
        return t if t in ("I", "B") or _is_stat(t) else None

    def ev_Lambda(self, e, fr):
        return None

    def ev_IfExp(self, e, fr):
        self.use(self.ev(e.test, fr), fr)
        return _join(self.ev(e.body, fr), self.ev(e.orelse, fr))

    def ev_BinOp(self, e, fr):
        a, b = self.ev(e.left, fr), self.ev(e.right, fr)
        if _is_stat(a) and ORDER.get(b, 0) >= ORDER["I"]:
            self.use(a, fr)
        if _is_stat(b) and ORDER.get(a, 0) >= ORDER["I"]:
            self.use(b, fr)
        return _join(a, b)

    def ev_Compare(self, e, fr):
        t = self.ev(e.left, fr)
        for c in e.comparators:
            t = _join(t, self.ev(c, fr))
        return t

    def comp(self, e, elts, fr, is_dict=False):
        saved = dict(fr["env"])
        inst = False
        result_member = False
        for g in e.generators:
            it = self.ev(g.iter, fr)
            if self.bind_loop(g.target, g.iter, it, fr):
                inst = True
            elif it is None or it == "N":
                result_member = True
            for c in g.ifs:
                self.use(self.ev(c, fr), fr)
        old = fr.get("compr")
        if inst:
            fr["loop"] += 1
            fr["compr"] = True
            self.how.add("comprehension")
        ts = [self.ev(x, fr) for x in elts]
        if inst:
            fr["loop"] -= 1
            fr["compr"] = old
        fr["env"] = saved
        if is_dict and inst and ts[0] == "I":
            self.flag("dict", fr, e)
        t = _join_all(ts)
        if inst:
            self.use(t, fr)
            return "B"
        if result_member and t == "B":
            self.how.add("members")
            return "M"
        return t

    def ev_ListComp(self, e, fr):
        return self.comp(e, [e.elt], fr)

    ev_GeneratorExp = ev_ListComp
    ev_SetComp = ev_ListComp

    def ev_DictComp(self, e, fr):
        return self.comp(e, [e.key, e.value], fr, is_dict=True)

    def axis_of(self, call, method):
        for kw in call.keywords:
            if kw.arg == "axis":
                return kw.value
        pos = 0 if method else 1
        if len(call.args) > pos and isinstance(call.args[pos], (ast.Constant, ast.UnaryOp, ast.Name)):
            return call.args[pos]
        return None

    @staticmethod
    def const_int(node, fr=None):
        if isinstance(node, ast.Name) and fr is not None and node.id in fr.get("consts", {}):
            return fr["consts"][node.id]
        try:
            v = ast.literal_eval(node)
            return v if isinstance(v, int) or v is None else "?"
        except Exception:
            return "?"

    def ev_Call(self, e, fr):
        f = e.func
        # delayed(g)(args) == g(args);  Parallel(...)(gen) == gen
        if isinstance(f, ast.Call):
            inner = f.func
            iname = inner.id if isinstance(inner, ast.Name) else inner.attr if isinstance(inner, ast.Attribute) else None
            if iname == "delayed" and f.args:
                return self.ev_Call(ast.Call(func=f.args[0], args=e.args, keywords=e.keywords), fr)
            if iname == "Parallel" and e.args:
                self.how.add("parallel")
                return self.ev(e.args[0], fr)
        argt = [self.ev(a.value if isinstance(a, ast.Starred) else a, fr) for a in e.args]
        for k_, a_ in enumerate(e.args):                    # a container created for the current instance
            if argt[k_] is None and isinstance(a_, ast.Name) and fr["depth"].get(a_.id, 0) > 0 and fr["loop"] > 0:
                argt[k_] = "I"
        kwt = {k.arg: self.ev(k.value, fr) for k in e.keywords if k.arg}
        name = f.id if isinstance(f, ast.Name) else f.attr if isinstance(f, ast.Attribute) else None
        recv = self.ev(f.value, fr) if isinstance(f, ast.Attribute) else None
        root = f
        while isinstance(root, (ast.Attribute, ast.Call, ast.Subscript)):
            root = root.func if isinstance(root, ast.Call) else root.value
        rootname = root.id if isinstance(root, ast.Name) else None
        is_method = isinstance(f, ast.Attribute) and rootname not in LIBROOTS
        subject = recv if is_method else (argt[0] if argt else kwt.get("a", kwt.get("arr")))

        if name in ("check_X", "check_X_y") and argt and argt[0] == "B":
            if self.cfg is None:
                kws = {k.arg: k.value for k in e.keywords}
                u = kws.get("enforce_univariate")
                u = self.const_int(u) if u is not None else False
                u = bool(u) if u in (True, False, 0, 1) else None
                k = "numpy" if self.const_int(kws.get("coerce_to_numpy", ast.Constant(False))) is True else \
                    "pandas" if self.const_int(kws.get("coerce_to_pandas", ast.Constant(False))) is True else "none"
                self.cfg = (u, k)
            return "B"
        if name == "len" and argt:
            return "N" if argt[0] == "B" else ("I" if argt[0] == "I" else None)
        if name in ("range", "arange", "prange") and argt:
            for t_ in argt:
                self.use(t_, fr)
            t = _join_all(argt)
            if _is_stat(t):
                return t
            return "iv" if t == "N" else (t if t in ("I",) else None)
        if name in META:
            return None
        # resolvable sktime code: analyse it with the taints of the arguments
        got = None
        if isinstance(f, ast.Attribute) and isinstance(f.value, ast.Name) and f.value.id == "self":
            got = self.find_method(self.clsname, name, self.rel)
            if got:
                if name in ("predict", "predict_proba", "transform", "_predict_proba", "_transform_words") and "B" in argt:
                    self.delegates.add(name)
                return self.call_function(got[0], got[1], got[2], argt, kwt, got[1] + "." + name, call=e)
        elif isinstance(f, ast.Name):
            if name in fr["local"]:
                return self.call_function(fr["rel"], None, fr["local"][name], argt, kwt, fr["name"] + "." + name, call=e)
            g = self.find_function(name, fr["rel"])
            if g and g[0].startswith(TRUSTED_FILES):
                return _join_all(argt + list(kwt.values()))
            if g:
                return self.call_function(g[0], None, g[1], argt, kwt, name, call=e)
        elif isinstance(f, ast.Attribute) and isinstance(f.value, ast.Name) and f.value.id in self.idx["cls"]:
            got = self.find_method(f.value.id, name)
            if got:
                return self.call_function(got[0], got[1], got[2], argt, kwt, got[1] + "." + name)

        allt = _join_all(argt + list(kwt.values()) + [recv])
        # map / apply: the function argument runs per element
        if name in ("map", "apply", "applymap", "apply_along_axis", "starmap") and e.args:
            fn = e.args[0]
            data = argt[1:] if name in ("map", "starmap") else [recv] + [kwt.get("arr")]
            dt = _join_all(data)
            elt = "I" if (name in ("map", "starmap", "apply_along_axis") and dt == "B") else dt
            self.how.add("apply")
            rt = self.apply_fn(fn, elt, fr)
            return "B" if dt == "B" else _join(rt, dt)
        if name in ("append", "extend", "add", "update", "setdefault", "insert") and isinstance(f, ast.Attribute) \
                and rootname not in LIBROOTS:
            v = _join_all(argt)
            self.use(v, fr)
            tgt = f.value
            if recv == "I" or (isinstance(tgt, ast.Name) and fr["depth"].get(tgt.id, 0) > 0 and fr["loop"] > 0):
                return None
            if name in ("add", "update", "setdefault") and argt and argt[0] == "I" and fr["loop"] > 0:
                self.flag("dict", fr, e)
            nt = "B" if (fr["loop"] > 0 and ORDER.get(v, 0) >= ORDER["i"]) else v
            if fr["loop"] > 0:
                self.how.add("loop")
            elif v == "B" and name in ("append",):
                nt = "M"                                    # one batch output per member / column / interval
                self.how.add("members")
            key = tgt.id if isinstance(tgt, ast.Name) else ast.unparse(tgt)
            if isinstance(tgt, (ast.Name, ast.Attribute)):
                fr["env"][key] = _join(fr["env"].get(key), nt if not _is_stat(nt) else "B")
            return None
        if name in ("choice", "rand", "randn", "randint", "random_sample", "uniform", "normal") and fr["loop"] > 0 \
                and isinstance(f, ast.Attribute) and not (isinstance(f.value, ast.Name) and fr["depth"].get(f.value.id, 0) > 0):
            self.flag("rng", fr, e)                         # one random stream consumed instance after instance
        if (name in SORTS or name in RED) and subject == "L":
            return None                                     # statistics of the index labels are metadata
        if name in SORTS and subject in ("B", "M"):
            ax = self.axis_of(e, is_method)
            a = self.const_int(ax, fr) if ax is not None else None
            if not (isinstance(a, int) and a in (1, 2, -1) and subject == "B"):
                self.flag("sort", fr, e)
            return subject
        if name in RED or (name not in BUILD and any(k.arg == "axis" for k in e.keywords)):
            ax = self.axis_of(e, is_method)
            a = self.const_int(ax, fr) if ax is not None else None
            if subject == "B":
                if isinstance(a, int) and a in (1, 2, -1):
                    self.how.add("vectorised")
                    return "B"
                if name in RED or a == 0:
                    return self.new_stat(fr, e)
                return allt
            if subject == "M":
                if a == 0:
                    self.how.add("members")
                    return "B"
                if name in RED:
                    return self.new_stat(fr, e)
                return allt
        if name == "squeeze" and recv == "B":
            a = self.const_int(e.args[0]) if e.args else None
            if a not in (None, 1):
                self.flag("axis", fr, e)
            return "B"
        for t in argt + list(kwt.values()):
            if _is_stat(t):
                self.use(t, fr)
        if allt in ("B", "M") and isinstance(f, ast.Attribute) and rootname not in LIBROOTS and name not in BUILD \
                and name in ("predict", "predict_proba", "transform", "fit_transform", "kneighbors", "decision_function",
                             "inverse_transform", "predict_log_proba"):
            self.members.add(ast.unparse(f)[:60])
            self.how.add("member-call")
        if _is_stat(allt):
            return allt
        return allt

    def apply_fn(self, fn, elt, fr):
        if isinstance(fn, ast.Lambda):
            saved = dict(fr["env"])
            for a in fn.args.args:
                fr["env"][a.arg] = elt
            t = self.ev(fn.body, fr)
            fr["env"] = saved
            return t
        call = ast.Call(func=fn, args=[ast.Name(id="__elt__", ctx=ast.Load())], keywords=[])
        saved = fr["env"].get("__elt__")
        fr["env"]["__elt__"] = elt
        t = self.ev_Call(call, fr)
        fr["env"]["__elt__"] = saved
        return t


def _join_all(ts):
    t = None
    for x in ts:
        t = _join(t, x)
    return t


_STATIC = {}


def static_analyse(rel, clsname, meth):
    """classify one apply method of the REAL source; cached per (repo, file, class, method)"""
    key = (_repo(), rel, clsname, meth)
    if key in _STATIC:
        return _STATIC[key]
    w = _Walk(rel, clsname)
    got = w.find_method(clsname, meth, rel)
    if got is None:
        res = {"found": False}
        _STATIC[key] = res
        return res
    r, c, fn = got
    params = [a.arg for a in fn.args.args][1:]
    argt = ["B"] + [None] * (len(params) - 1)
    ret = w.call_function(r, clsname, fn, argt, {}, clsname + "." + meth)
    guards = [s for s in w.stats.values() if s["uses"] and s["uses"] <= {"guard"}]
    stats = [s for s in w.stats.values() if "other" in s["uses"]]
    if _is_stat(ret):
        stats.append(w.stats[ret[1]])
    flags = list(w.flags) + [("stat", s["where"], s["what"]) for s in stats]
    kinds = [k for k, _, _ in flags]
    if "stat" in kinds:
        leaf = "S"
    elif "sort" in kinds:
        leaf = "O"
    elif "dict" in kinds:
        leaf = "D"
    elif kinds:
        leaf = "X"
    else:
        leaf = "R"
    shape = leaf
    if leaf == "R" and "members" in w.how:
        shape = "ARR"
    if guards:
        shape = "G" + shape
    if w.delegates - {meth}:
        shape = "C" + shape + "R"
    res = {"found": True, "shape": shape, "rowwise": not kinds, "flags": flags, "guards": [(g["where"], g["what"]) for g in guards],
           "how": sorted(w.how), "members": sorted(w.members), "cfg": w.cfg, "ret": ret, "defined_in": r}
    _STATIC[key] = res
    return res


def static_real(case):
    try:
        st = static_analyse(case["file"], case["cls"], case["meth"])
    except Exception as e:
        return "static-error:" + canon_err(e) + ":" + str(e)[:80].replace(" ", "_")
    if not st["found"]:
        return "missing"
    fl = ",".join(sorted({"%s@%s" % (k, w) for k, w, _ in st["flags"]})) or "-"
    gd = ",".join(sorted({w for w, _ in st["guards"]})) or "-"
    return "shape=%s rowwise=%s how=%s flags=%s guards=%s" % (st["shape"], "T" if st["rowwise"] else "F",
                                                            "+".join(st["how"]) or "-", fl, gd)


def static_line(case):
    out = _CACHE.get(_ckey(case)) or static_real(case)
    if not out.startswith("shape="):
        return None
    return "C16 shape " + _fields(out)["shape"]


def static_oracle(case, out):
    tag = "static:%s.%s" % (case["cls"], case["meth"])
    if out == "missing":
        return [(tag + ":method-missing", "the method listed for this class is gone")]
    if out.startswith("static-error"):
        return [(tag + ":analysis-error", out)]
    f = _fields(out)
    if f["rowwise"] == "T":
        return []
    st = static_analyse(case["file"], case["cls"], case["meth"])
    res = []
    for kind in sorted({k for k, _, _ in st["flags"]}):
        ex = [(w, x) for k, w, x in st["flags"] if k == kind][0]
        res.append(("%s:%s" % (tag, kind), "apply-time code mixes instances (%s) in %s: %s" % (kind, ex[0], ex[1])))
    return res


# ----------------------------------------------------------------------------- static case enumeration
STATIC_DIRS = ["sktime/transformations/panel", "sktime/classification", "sktime/regression",
               "sktime/series_as_features/compose"]
STATIC_SKIP_CLASSES = {"BaseClassifier", "BaseRegressor"}      # abstract predict_proba / documented template


def static_cases():
    """every class of the anchored directories that defines transform / predict / predict_proba itself"""
    idx = _source_index()
    cases = []
    for name in sorted(idx["cls"]):
        for rel, node in idx["cls"][name]:
            if not rel.startswith(tuple(STATIC_DIRS)) or name in STATIC_SKIP_CLASSES:
                continue
            for m in node.body:
                if isinstance(m, ast.FunctionDef) and m.name in ("transform", "predict", "predict_proba"):
                    params = [a.arg for a in m.args.args]
                    if len(params) >= 2 and params[1] in ("X", "x"):
                        cases.append({"op": "static", "file": rel, "cls": name, "meth": m.name})
    return cases


# ----------------------------------------------------------------------------- generators
def q(v):
    return round(v * 4) / 4.0


def gen_instance(rng, c, L, cls, ragged=False):
    inst = []
    for j in range(c):
        l = L - rng.randrange(0, 4) if ragged else L
        ph = rng.random() * 6.28
        amp = 2.0 if cls else 0.0
        inst.append([q(rng.gauss(0, 1.0) + amp * math.sin(0.7 * t + ph) + (1.5 if cls and t > l // 2 else 0.0)) for t in range(l)])
    return inst


# float32 cells only where the output is a closed-form function of the series: elsewhere (words, bins, tree
# thresholds) single precision can flip a discretisation, which is rounding, not instance dependence
F4_OK = {"pad", "trunc", "interp", "tab", "concat", "paa", "dwt", "dslope", "rowprim", "rowser", "coltrans",
         "featunion", "featunion2", "iseg", "riseg", "slide"}


def gen_dtypes(rng, panel, n_int, f4=True):
    """per instance, per column dtype codes; `n_int` instances are rewritten to whole numbers (in place) and
    stored as int64 / int32 in at least their first column; the others are float64 (mostly) or float32"""
    n = len(panel)
    ints = set(rng.sample(range(n), min(n_int, n)))
    dts = []
    for i, inst in enumerate(panel):
        if i in ints:
            for j in range(len(inst)):
                inst[j] = [float(round(v)) for v in inst[j]]
            code = rng.choice(["i8", "i8", "i4"])
            dts.append([code if j == 0 or rng.random() < 0.5 else "f8" for j in range(len(inst))])
        else:
            code = rng.choice(["f8", "f8", "f8", "f4"]) if f4 else "f8"
            dts.append([code if rng.random() < 0.8 else "f8" for _ in inst])
    return dts, sorted(ints)


def gen_meta(rng, key, tier, malformed=None, p=None, ragged=None, layout=None, tix=None, mixed=None):
    ent = registry()[key]
    p = rng.choice(ent["params"]) if p is None else p
    meth = rng.choice(METHS[ent["kind"]])
    if layout is None:
        layout = rng.choice(["C", "C", "F", "T", "S"])
    c = 2 if ent["mv"] else (1 if ent["uni"] else rng.choice([1, 1, 2]))
    if layout != "C" and not ent["uni"]:
        c = rng.choice([2, 2, 3])           # memory layouts differ from "C" only with >= 2 variables or instances
    L = rng.choice([ent["minL"], ent["minL"] + 4, 20, 24]) if ent["minL"] <= 20 else ent["minL"]
    L = max(L, ent["minL"])
    ragged = (ent["ragged"] and rng.random() < 0.35) if ragged is None else (ragged and ent["ragged"])
    if ragged:
        layout = "C"                                        # ragged panels cannot be 3-D arrays
    nf = rng.choice([8, 10]) if not ent["slow"] else 8
    ycls = [k % 2 for k in range(nf)]
    rng.shuffle(ycls)
    xf = [gen_instance(rng, c, L, ycls[k], ragged) for k in range(nf)]
    if ragged:                                              # the fitted bounds (shortest / longest series) cover every apply batch
        xf[0] = [s[:L - 3] for s in gen_instance(rng, c, L, ycls[0])]
        xf[1] = gen_instance(rng, c, L, ycls[1])
    if ent["kind"] == "reg":
        y = [q(sum(inst[0]) / len(inst[0]) + rng.gauss(0, 0.5)) for inst in xf]
    else:
        y = ycls
    na = rng.choice([3, 4, 5]) if tier == "quick" else rng.choice([3, 4, 5, 6])
    xa = []
    for k in range(na):
        r = rng.random()
        if r < 0.3:
            xa.append([list(s) for s in rng.choice(xf)])
        elif r < 0.45 and xa:
            xa.append([list(s) for s in rng.choice(xa)])      # a repeated instance inside the batch
        else:
            xa.append(gen_instance(rng, c, L, rng.randrange(2), ragged))
    base = "N" if ragged else rng.choice(list(ent["bases"]))
    idxs = list(range(na))
    vs = []
    perm = idxs[:]
    for _ in range(5):
        rng.shuffle(perm)
        if perm != idxs:
            break
    vs.append(["sel", perm[:]])
    vs.append(["sel", idxs[::-1]])
    singles = idxs if tier == "thorough" else rng.sample(idxs, min(2, na))
    for i in singles:
        vs.append(["sel", [i]])
    k = rng.randrange(1, na) if na > 1 else 1
    vs.append(["sel", rng.sample(idxs, k)])
    i, j = rng.randrange(na), rng.randrange(na)
    vs.append(["sel", [i, i, j]])
    if not ragged:
        vs.append(["cont"])
        if ent["refit"]:
            vs.append(["contfit"])
    # cells of the nested container: mixed dtypes (a whole-number instance stored as int, anywhere in the batch,
    # and moved to the front / to the back by two extra selections) and the time index the cell Series carry
    if mixed is None:
        mixed = rng.random() < 0.5
    if tix is None:
        tix = rng.choice(["default", "default"] + list(TIX[1:]))
    if tix not in ent["tix"]:
        tix = "off"
    dts = None
    if mixed:
        da, ints = gen_dtypes(rng, xa, rng.choice([1, 1, 2]), key in F4_OK)
        df_, _ = gen_dtypes(rng, xf, rng.choice([0, 1, 2]), key in F4_OK)
        if rng.random() < 0.4 and xf:                       # ... or the first training instance
            xf[0] = [[float(round(v)) for v in s] for s in xf[0]]
            df_[0] = ["i8"] + df_[0][1:]
        if ent["kind"] == "reg":
            y = [q(sum(inst[0]) / len(inst[0]) + 0.25 * (k % 3)) for k, inst in enumerate(xf)]
        dts = {"xa": da, "xf": df_}
        k0 = ints[0]
        rest = [i for i in idxs if i != k0]
        ins = len(vs) - (2 if not ragged and ent["refit"] else 1 if not ragged else 0)
        vs[ins:ins] = [["sel", [k0] + rest], ["sel", rest + [k0]]]
    case = {"op": "meta", "est": key, "p": p, "meth": meth, "xf": xf, "y": y, "xa": xa, "base": base,
            "dts": dts, "tix": tix,
            "keepidx": base == "N" and rng.random() < 0.5, "vars": vs, "valid": True, "layout": layout}
    if ent["kind"] == "clf" and rng.random() < 0.3:
        case["ykind"] = "str"
    if malformed == "empty":
        case["vars"] = [["sel", []], ["sel", [0]]]
    elif malformed == "multivariate" and ent["uni"] and not ent["mv"]:
        case["xa"] = [inst + [list(inst[0])] for inst in xa]
        case["dts"] = None
        case["valid"] = False
        case["vars"] = [["sel", [0]], ["cont"]]
    return case


ENS = ["tsf", "tsfr", "rise", "colens"]


def gen_cases(tier, rng):
    reg = registry()
    cases = list(static_cases())
    keys = sorted(reg)
    fast = [k for k in keys if not reg[k]["slow"]]
    slow = [k for k in keys if reg[k]["slow"]]
    reps = 4 if tier == "quick" else 50
    rot = rng.randrange(1000)
    for k in fast:
        ps = reg[k]["params"]
        for r in range(reps):
            # parameter sets are cycled (seed-rotated), ragged-capable estimators get a ragged panel every other case
            # and every estimator sees each memory layout of the 3-D container (seed-rotated)
            rag = (r % 2 == 0) and reg[k]["ragged"]
            # the nested cells get mixed dtypes every other case and a non-default time index three times out of four
            cases.append(gen_meta(rng, k, tier, p=ps[(rot + r) % len(ps)], ragged=rag,
                                  layout="C" if rag else LAYOUTS[1 + (rot + r) % 3] if r % 4 != 3 else "C",
                                  mixed=((rot + r) % 2 == 1), tix=TIX[(rot + r + (r // 4)) % len(TIX)] if r % 4 != 0 else None))
    for k in slow:
        for _ in range(2 if tier == "quick" else 16):
            cases.append(gen_meta(rng, k, tier))
    # malformed stream: empty selection, multivariate data to a univariate-only estimator
    mal = rng.sample(fast, 8 if tier == "quick" else 24)
    for k in mal:
        cases.append(gen_meta(rng, k, tier, malformed="empty"))
    uni = [k for k in fast if reg[k]["uni"] and not reg[k]["mv"] and reg[k]["src"] is not None
           and (static_analyse(reg[k]["src"][0], reg[k]["src"][1], METHS[reg[k]["kind"]][0]).get("cfg") or (None,))[0] is True]
    for k in rng.sample(uni, 6 if tier == "quick" else len(uni)):
        cases.append(gen_meta(rng, k, tier, malformed="multivariate"))
    for k in ENS:
        for _ in range(2 if tier == "quick" else 10):
            c = gen_meta(rng, k, tier)
            cases.append({"op": "ens", "est": k, "p": c["p"], "meth": "predict" if k == "tsfr" else "predict_proba",
                          "xf": c["xf"], "y": c["y"], "xa": c["xa"]})
    return cases


# ----------------------------------------------------------------------------- runner interface
def run_real(case):
    op = case["op"]
    try:
        out = {"meta": meta_real, "static": static_real, "ens": ens_real}[op](case)
    except Exception as e:                                  # never let the harness die on a case
        out = "harness-" + canon_err(e) + ":" + str(e)[:120].replace(" ", "_")
    if len(_CACHE) > 4000:
        _CACHE.clear()
    _CACHE[_ckey(case)] = out
    return out


def to_line(case):
    return {"meta": meta_line, "static": static_line, "ens": ens_line}[case["op"]](case)


def oracle(case, out):
    if out.startswith("harness-"):
        return [("harness:" + case["op"], out)]
    return {"meta": meta_oracle, "static": static_oracle, "ens": ens_oracle}[case["op"]](case, out)


def compare(real, model):
    f = _fields(real)
    if "shape" in f:
        return model == "rowwise=" + f["rowwise"]
    if "m" in f and "a" in f:
        return fuzzy_equal(f["a"], model)
    mf = _fields(model)
    tol = float(f.get("tol", 1e-9))
    skip = lambda k: k in ("B", "fit", "t", "w", "tol") or k.startswith("A")
    for k, v in f.items():
        if skip(k):
            continue
        if k not in mf:
            return False
        if v == mf[k]:
            continue
        rr, mr = parse_rows(v), parse_rows(mf[k])
        if v.startswith("E:") and mf[k].startswith("E:") and k != "b":
            continue                                        # both reject the variant; the kind is library detail
        if v.startswith("E:") or mf[k].startswith("E:") or len(rr) != len(mr):
            return False
        if not all(m == "tie" or fuzzy_equal(r, m, tol) for r, m in zip(rr, mr)):
            return False                                    # "tie": label drawn by the random tie-break (known finding)
    return len(mf) == len([k for k in f if not skip(k)])


def nontrivial(case, out):
    f = _fields(out)
    if case["op"] == "static":
        return "shape" in f
    if case["op"] == "ens":
        return "a" in f
    return f.get("b") == "ok" and len(set(parse_rows(f.get("B", "_")))) >= 2 and len(case["vars"]) > 0


def features(case, out):
    f = _fields(out)
    if case["op"] == "static":
        return ["static", "static:shape=" + f.get("shape", "?")] + ["static:how=" + h for h in f.get("how", "-").split("+")]
    if case["op"] == "ens":
        return ["ens:" + case["est"]]
    fs = ["est:" + case["est"], "meth:" + case["meth"], "base:" + case["base"], "n_apply:%d" % len(case["xa"]),
          "layout:" + case.get("layout", "C"), "n_columns:%d" % (len(case["xa"][0]) if case["xa"] else 0),
          "tix:" + case.get("tix", "default"), "dtypes:" + ("mixed" if case.get("dts") else "float64"),
          "batch:" + (f.get("b") or f.get("fit", "?"))]
    if not is_rect(case["xa"]):
        fs.append("ragged")
    for k, v in enumerate(case["vars"]):
        r = f.get("r%d" % k, "")
        fs.append("var:%s%s" % (v[0] if v[0] != "sel" else ("sel%d" % min(len(v[1]), 3)), ":err" if r.startswith("E:") else ""))
    return fs


def shrink(case):
    if case["op"] != "meta":
        return
    vs = case["vars"]
    if len(vs) > 1:
        for k in range(len(vs)):
            yield dict(case, vars=[vs[k]])
    xa = case["xa"]
    if len(xa) > 2:
        for d in range(len(xa)):
            keep = [i for i in range(len(xa)) if i != d]
            nv = []
            ok = True
            for v in vs:
                if v[0] == "sel":
                    if d in v[1]:
                        ok = False
                        break
                    nv.append(["sel", [keep.index(i) for i in v[1]]])
                else:
                    nv.append(v)
            if ok:
                d2 = case.get("dts")
                if d2:
                    d2 = dict(d2, xa=[d2["xa"][i] for i in keep])
                yield dict(case, xa=[xa[i] for i in keep], vars=nv, dts=d2)
    if case.get("tix", "default") != "default":
        yield dict(case, tix="default")
    if case.get("dts"):
        yield dict(case, dts=None)
    if case.get("layout", "C") != "C":
        yield dict(case, layout="C")
