"""C02 correspondence + oracle: ForecastingHorizon conversions (sktime/forecasting/base/_fh.py).

case = {"raw": [kind, ...], "form": str, "rel": bool, "rib": bool, "cut": int|None,
        "start": int, "enf": bool}
"""
import itertools
from fractions import Fraction
import numpy as np, pandas as pd
from common import canon_err, show_ints, show_bool, show_rats

PROP = "C02"
LEAN_MODULE = "SkVerif.Props.C02"
OBLIGATIONS = [
    "SkVerif.C02.mk_sorted_nodup",
    "SkVerif.C02.mk_perm_of_input",
    "SkVerif.C02.abs_eq_cutoff_add",
    "SkVerif.C02.rel_abs_roundtrip",
    "SkVerif.C02.abs_rel_roundtrip",
    "SkVerif.C02.derived_absolute_relative_to_other_cutoff",
    "SkVerif.C02.derived_absolute_indexer_from_other_cutoff",
    "SkVerif.C02.insample_outsample_partition",
    "SkVerif.C02.insample_eq_filter",
    "SkVerif.C02.outsample_eq_filter",
    "SkVerif.C02.all_in_iff",
    "SkVerif.C02.all_out_iff",
    "SkVerif.C02.indexer_eq_steps_sub_one",
    "SkVerif.C02.indexer_absolute_eq_steps_sub_one",
    "SkVerif.C02.order_preserved_abs",
    "SkVerif.C02.order_preserved_rel",
    "SkVerif.C02.mk_rejects_duplicates",
    "SkVerif.C02.mk_rejects_unsupported",
    "SkVerif.C02.mk_rejects_fractional",
    "SkVerif.C02.mk_rejects_any_fractional_float",
    "SkVerif.C02.mk_whole_floats",
    "SkVerif.C02.checkFh_rejects_empty",
    "SkVerif.C02.checkFh_accepts_nonempty",
    "SkVerif.C02.pyRange_mem",
    "SkVerif.C02.pyRange_nodup",
]
TRUSTED = ["hand-written model SkVerif/Model/FH.lean of _fh.py (integer steps / integer cutoffs only)",
           "fractional / wrong-dtype rejection is pandas' Int64Index(dtype=int) cast check, here the compat emulation: modelled, not verified"]
ASSUMPTIONS = ["Period/Datetime horizons are out of scope (property quantifies over integer steps and cutoffs)",
               "lru_cache on to_relative/to_absolute is modelled as absent (methods are pure)"]
RULE = ("exhaustive small scope: subsets of {-4..5} x cutoffs x input forms x relative/absolute (quick: seed-rotated slice); "
        "random larger sets; malformed stream. distinct by driver line; non-trivial = horizon constructed (no error) and non-empty")


def is_exhaustive(tier):
    return tier == "thorough"


def _build(raw, form):
    k = raw[0]
    if k == "int":
        v = raw[1]
        return {"py": v, "np": np.int64(v), "bool": bool(v)}.get(form, v)
    if k == "ints":
        vs = raw[1]
        if form == "list":
            return list(vs)
        if form == "array":
            return np.array(vs, dtype="int64")
        if form == "farray":
            return np.array(vs, dtype="float64")
        if form == "index":
            return pd.Index(np.array(vs, dtype="int64"))
        if form == "int32":
            return np.array(vs, dtype="int32")
        return list(vs)
    if k == "range":
        return pd.RangeIndex(raw[1], raw[2], raw[3])
    if k == "floats":
        qs = [Fraction(a, b) for a, b in raw[1]]
        if form == "array":
            return np.array([float(q) for q in qs], dtype="float64")
        if form == "mixed":
            return [int(q) if q.denominator == 1 else float(q) for q in qs]
        return [float(q) for q in qs]
    if k == "frac":
        return {"list": [1, 2.5], "array": np.array([0.5, 2.0])}.get(form, [1.5])
    if k == "unsup":
        return {"str": "a", "none": None, "float": 1.0, "findex": pd.Index([1.0, 2.0]),
                "dict": {1: 2}, "tuple": (1, 2), "set": {1, 2}, "series": pd.Series([1, 2]),
                "dtindex": pd.date_range("2000-01-01", periods=3, freq="D") if False else "b"}.get(form, "a")
    if k == "2d":
        return np.array([[1, 2], [3, 4]])
    raise ValueError(raw)


def to_line(c):
    raw = c["raw"]
    k = raw[0]
    if k == "int":
        r = "int:%d" % raw[1]
    elif k == "ints":
        r = "ints:" + show_ints(raw[1])
    elif k == "range":
        r = "range:%d:%d:%d" % tuple(raw[1:4])
    elif k == "floats":
        r = "floats:" + show_rats([Fraction(a, b) for a, b in raw[1]])
    else:
        r = k
    return "C02 all %s %s %s %s %d %s %s" % (r, show_bool(c["rel"]), show_bool(c["rib"]),
                                            "none" if c["cut"] is None else str(c["cut"]), c["start"], show_bool(c["enf"]),
                                            "none" if _cut2(c) is None else str(_cut2(c)))


def _cut2(c):
    """the OTHER cutoff at which the objects derived with c["cut"] are used"""
    if c["cut"] is None:
        return None
    if "cut2" in c:
        return c["cut2"]
    return c["cut"] + [5, -3, 1, -1, 12, -7][(abs(c["cut"]) + c["start"]) % 6]


def _fh_str(fh):
    return "%s:%s" % (show_ints([int(v) for v in fh.to_pandas()]), show_bool(fh.is_relative))


def _try(f, show):
    try:
        return show(f())
    except Exception as e:
        return canon_err(e)


def run_real(c):
    from sktime.forecasting.base import ForecastingHorizon
    from sktime.utils.validation.forecasting import check_fh
    values = _build(c["raw"], c["form"])
    rel = c["rel"] if c["rib"] else 1
    try:
        fh = ForecastingHorizon(values, is_relative=rel)
    except Exception as e:
        return "mk=" + canon_err(e)
    cut, start = c["cut"], c["start"]
    # the SAME horizon object is first used with other cutoffs (conversions are cached per object:
    # a result must depend on the cutoff passed now, not on one seen earlier)
    for w in c.get("warm", []):
        for f in (fh.to_absolute, fh.to_relative, fh.to_indexer, fh.to_in_sample, fh.to_out_of_sample):
            try:
                f(w)
            except Exception:
                pass
    # other horizon objects with the same numbers (other kind, other container) are used with the same cutoffs in
    # between: conversions are cached, and a cache must not hand one object's answer to another
    if c.get("other"):
        for rel2 in (not fh.is_relative, fh.is_relative):
            try:
                g = ForecastingHorizon(_build(c["raw"], c["form"]), is_relative=rel2)
                for cc in (cut, 0, 1):
                    for f in (g.to_absolute, g.to_relative, g.to_indexer, g.to_in_sample, g.is_all_in_sample):
                        try:
                            f(cc)
                        except Exception:
                            pass
            except Exception:
                pass
    parts = [
        "mk=" + _fh_str(fh),
        "rel=" + _try(lambda: fh.to_relative(cut), _fh_str),
        "abs=" + _try(lambda: fh.to_absolute(cut), _fh_str),
        "absint=" + _try(lambda: fh.to_absolute_int(start, cut), _fh_str),
        "ins=" + _try(lambda: fh.to_in_sample(cut), _fh_str),
        "oos=" + _try(lambda: fh.to_out_of_sample(cut), _fh_str),
        "allin=" + _try(lambda: fh.is_all_in_sample(cut), lambda b: show_bool(bool(b))),
        "allout=" + _try(lambda: fh.is_all_out_of_sample(cut), lambda b: show_bool(bool(b))),
        "idx=" + _try(lambda: fh.to_indexer(cut), lambda i: show_ints([int(v) for v in i])),
        "idx0=" + _try(lambda: fh.to_indexer(cut, from_cutoff=False), lambda i: show_ints([int(v) for v in i])),
        "chk=" + _try(lambda: check_fh(fh, enforce_relative=c["enf"]), _fh_str),
        "rt=" + _try(lambda: fh.to_absolute(cut).to_relative(cut), _fh_str),
        "rt2=" + _try(lambda: fh.to_relative(cut).to_absolute(cut), _fh_str),
    ]
    # horizons DERIVED with one cutoff are ordinary horizons: used with ANOTHER cutoff they answer for that one
    c2 = _cut2(c)
    da = lambda: fh.to_absolute(cut)
    parts += [
        "drel=" + _try(lambda: da().to_relative(c2), _fh_str),
        "dabs=" + _try(lambda: fh.to_relative(cut).to_absolute(c2), _fh_str),
        "didx=" + _try(lambda: da().to_indexer(c2), lambda i: show_ints([int(v) for v in i])),
        "dins=" + _try(lambda: da().to_in_sample(c2), _fh_str),
        "doos=" + _try(lambda: da().to_out_of_sample(c2), _fh_str),
        "dallin=" + _try(lambda: da().is_all_in_sample(c2), lambda b: show_bool(bool(b))),
        "dallout=" + _try(lambda: da().is_all_out_of_sample(c2), lambda b: show_bool(bool(b))),
    ]
    return " ".join(parts)


def _parse(out):
    d = {}
    for tok in out.split(" "):
        k, v = tok.split("=", 1)
        d[k] = v
    return d


def _pfh(s):
    if s.startswith("E:"):
        return None
    vals, rel = s.rsplit(":", 1)
    return ([] if vals == "-" else [int(x) for x in vals.split(",")]), rel == "T"


def oracle(c, out):
    """The property text, evaluated on the real code's observations."""
    fails = []
    d = _parse(out)
    raw = c["raw"]
    k = raw[0]
    site = "fh"
    if k == "floats":
        qs = [Fraction(a, b) for a, b in raw[1]]
        if all(q.denominator == 1 for q in qs):
            k, raw = "ints", ["ints", [int(q) for q in qs]]     # whole-number floats are the integers they are
        else:
            k = "frac"                                          # one fractional value, however small or large: rejected
    if k in ("frac", "unsup", "2d") or not c["rib"] or (k == "ints" and len(set(raw[1])) != len(raw[1])):
        if not d["mk"].startswith("E:"):
            fails.append((site + ":malformed-accepted:" + k, "malformed horizon %r accepted: %s" % (raw, d["mk"])))
        elif d["mk"] not in ("E:type", "E:value"):
            fails.append((site + ":malformed-wrong-error:" + k, "malformed horizon %r raised %s" % (raw, d["mk"])))
        return fails
    if k == "int":
        steps = [raw[1]]
    elif k == "ints":
        steps = sorted(raw[1])
    else:
        steps = sorted(range(raw[1], raw[2], raw[3]))
    mk = _pfh(d["mk"])
    if mk is None:
        fails.append((site + ":valid-rejected", "valid horizon %r rejected: %s" % (raw, d["mk"])))
        return fails
    if mk[0] != steps or mk[1] != c["rel"]:
        fails.append((site + ":not-sorted-steps", "stored %r for input %r" % (mk, raw)))
    cut = c["cut"]
    if cut is not None:
        relsteps = steps if c["rel"] else [s - cut for s in steps]
        abssteps = [cut + s for s in steps] if c["rel"] else steps
        if _pfh(d["abs"]) != (abssteps, False):
            fails.append((site + ":to_absolute", "abs=%s expected %r" % (d["abs"], abssteps)))
        if _pfh(d["rel"]) != (relsteps, True):
            fails.append((site + ":to_relative", "rel=%s expected %r" % (d["rel"], relsteps)))
        if _pfh(d["rt"]) != (relsteps, True):
            fails.append((site + ":roundtrip-abs-rel", "rt=%s expected %r" % (d["rt"], relsteps)))
        if _pfh(d["rt2"]) != (abssteps, False):
            fails.append((site + ":roundtrip-rel-abs", "rt2=%s expected %r" % (d["rt2"], abssteps)))
        if _pfh(d["absint"]) != ([a - c["start"] for a in abssteps], False):
            fails.append((site + ":to_absolute_int", "absint=%s" % d["absint"]))
        # derived objects at another cutoff: absolute time points stay, relative steps are seen from the new cutoff
        c2 = _cut2(c)
        rel2 = [a - c2 for a in abssteps]
        if _pfh(d["drel"]) != (rel2, True):
            fails.append((site + ":derived-absolute:to_relative-other-cutoff", "cutoff %d then %d: drel=%s expected %r" % (cut, c2, d["drel"], rel2)))
        if _pfh(d["dabs"]) != ([c2 + r for r in relsteps], False):
            fails.append((site + ":derived-relative:to_absolute-other-cutoff", "cutoff %d then %d: dabs=%s" % (cut, c2, d["dabs"])))
        if d["didx"] != show_ints([r - 1 for r in rel2]):
            fails.append((site + ":derived-absolute:to_indexer-other-cutoff", "cutoff %d then %d: didx=%s expected steps-1 of %r" % (cut, c2, d["didx"], rel2)))
        if _pfh(d["dins"]) != ([a for a, r in zip(abssteps, rel2) if r <= 0], False) or _pfh(d["doos"]) != ([a for a, r in zip(abssteps, rel2) if r > 0], False):
            fails.append((site + ":derived-absolute:partition-other-cutoff", "cutoff %d then %d: dins=%s doos=%s" % (cut, c2, d["dins"], d["doos"])))
        if d["dallin"] != show_bool(all(r <= 0 for r in rel2)) or d["dallout"] != show_bool(all(r > 0 for r in rel2)):
            fails.append((site + ":derived-absolute:predicates-other-cutoff", "cutoff %d then %d: dallin=%s dallout=%s" % (cut, c2, d["dallin"], d["dallout"])))
    elif c["rel"]:
        relsteps = steps
    else:
        relsteps = None
    if relsteps is not None:
        ins = [v for v, r in zip(steps, relsteps) if r <= 0]
        oos = [v for v, r in zip(steps, relsteps) if r > 0]
        if _pfh(d["ins"]) != (ins, c["rel"]):
            fails.append((site + ":in-sample-part", "ins=%s expected %r" % (d["ins"], ins)))
        if _pfh(d["oos"]) != (oos, c["rel"]):
            fails.append((site + ":out-of-sample-part", "oos=%s expected %r" % (d["oos"], oos)))
        if d["allin"] != show_bool(len(ins) == len(steps)):
            fails.append((site + ":is_all_in_sample", "allin=%s" % d["allin"]))
        if d["allout"] != show_bool(len(oos) == len(steps)):
            fails.append((site + ":is_all_out_of_sample", "allout=%s" % d["allout"]))
        if d["idx"] != show_ints([r - 1 for r in relsteps]):
            fails.append((site + ":to_indexer", "idx=%s expected steps-1 of %r" % (d["idx"], relsteps)))
    # check_fh: empty rejected; non-empty accepted unless enforce_relative on absolute
    if len(steps) == 0:
        if not d["chk"].startswith("E:"):
            fails.append((site + ":check_fh-empty-accepted", d["chk"]))
    elif c["enf"] and not c["rel"]:
        if not d["chk"].startswith("E:"):
            fails.append((site + ":check_fh-absolute-accepted", d["chk"]))
    elif _pfh(d["chk"]) != (steps, c["rel"]):
        fails.append((site + ":check_fh-valid-rejected", d["chk"]))
    return fails


def nontrivial(c, out):
    return not out.startswith("mk=E:") and not out.startswith("mk=-:")


def features(c, out):
    f = ["raw=" + c["raw"][0], "form=" + c["form"], "rel=" + str(c["rel"]), "cut=" + ("none" if c["cut"] is None else "int")]
    if out.startswith("mk=E:"):
        f.append("mk=" + out[3:])
    elif c["raw"][0] == "ints":
        f.append("size=%d" % min(len(c["raw"][1]), 10) + ("+" if len(c["raw"][1]) >= 10 else ""))
    return f


INT_FORMS = ["list", "array", "farray", "index", "int32"]


def _add_warm(cases, rng):
    """cutoffs the same object sees before the case's own cutoff: neighbours, small negatives (CPython
    hashes -1 and -2 alike), repeats"""
    for c in cases:
        if c["cut"] is None or rng.random() < 0.35:
            continue
        pool = [c["cut"] - 1, c["cut"] + 1, -1, -2, 0, 1, c["cut"] + 2 ** 61 - 1 if rng.random() < 0.1 else 2]
        c["warm"] = [int(v) for v in rng.sample(pool, rng.randrange(1, 4))]
    return cases


def gen_cases(tier, rng):
    return _add_warm(_gen_cases(tier, rng), rng)


def _gen_cases(tier, rng):
    cases = []
    universe = list(range(-4, 6))
    # exhaustive small scope, fixed order
    small = []
    for r in range(0, len(universe) + 1):
        for sub in itertools.combinations(universe, r):
            small.append(list(sub))
    cuts = list(range(-7, 8))
    n = 0
    for sub in small:
        for rel in (True, False):
            for fi, form in enumerate(INT_FORMS):
                n += 1
                if tier == "quick" and (n + rng.randrange(1 << 30)) % 16 != 0:
                    continue
                perm = list(sub)
                rng.shuffle(perm)
                cs = cuts if tier == "thorough" else rng.sample(cuts, 2)
                for cut in cs:
                    cases.append({"raw": ["ints", perm], "form": form, "rel": rel, "rib": True,
                                  "cut": cut, "start": rng.randrange(-5, 6), "enf": rng.random() < 0.3})
                cases.append({"raw": ["ints", perm], "form": form, "rel": rel, "rib": True,
                              "cut": None, "start": 0, "enf": False})
    # single ints
    for v in range(-6, 8):
        for form in ("py", "np", "bool"):
            if form == "bool" and v not in (0, 1):
                continue
            for rel in (True, False):
                cases.append({"raw": ["int", v], "form": form, "rel": rel, "rib": True,
                              "cut": rng.randrange(-9, 10), "start": rng.randrange(-3, 4), "enf": False})
    # range indexes
    nr = 60 if tier == "quick" else 600
    for _ in range(nr):
        a = rng.randrange(-8, 9); b = rng.randrange(-8, 12); s = rng.choice([1, 1, 2, 3, -1, -2, 5])
        cases.append({"raw": ["range", a, b, s], "form": "range", "rel": rng.random() < 0.6, "rib": True,
                      "cut": rng.choice([None] + list(range(-9, 10))), "start": rng.randrange(-3, 4), "enf": rng.random() < 0.3})
    # random larger
    nr = 400 if tier == "quick" else 6000
    for _ in range(nr):
        size = min(int(rng.lognormvariate(1.5, 1.0)), 40)
        mag = rng.choice([10, 100, 10 ** 6])
        vs = rng.sample(range(-mag, mag + 1), min(size, 2 * mag + 1))
        cases.append({"raw": ["ints", vs], "form": rng.choice(INT_FORMS), "rel": rng.random() < 0.6, "rib": True,
                      "cut": rng.choice([None, None] + [rng.randrange(-mag, mag) for _ in range(8)]),
                      "start": rng.randrange(-mag, mag), "enf": rng.random() < 0.3})
    # floats: whole numbers and fractional parts at every magnitude a float64 can carry exactly
    # (a tolerance-based "is it whole" test accepts a fraction that is small relative to the value)
    nf = 80 if tier == "quick" else 1500
    for _ in range(nf):
        bits = rng.choice([2, 3, 10, 17, 20, 31, 40, 48])
        size = rng.randrange(1, 5)
        vs = rng.sample(range(-(2 ** bits), 2 ** bits + 1), min(size, 2 ** bits))
        qs = [[v, 1] for v in vs]
        if rng.random() < 0.75:
            i = rng.randrange(len(qs))
            j = rng.randrange(1, max(2, 52 - bits))                 # value + k/2^j is exact in float64
            den = 2 ** j
            num = rng.choice([1, den - 1, rng.randrange(1, den)])
            f = Fraction(vs[i]) + Fraction(num, den) * rng.choice([1, -1])
            qs[i] = [f.numerator, f.denominator]
        mag = 2 ** bits
        cases.append({"raw": ["floats", qs], "form": rng.choice(["list", "array", "mixed"]), "rel": rng.random() < 0.6, "rib": True,
                      "cut": rng.choice([None, 0, rng.randrange(-mag, mag)]), "start": rng.randrange(-mag, mag), "enf": rng.random() < 0.3})
    # malformed stream
    for form in ("list", "array"):
        cases.append({"raw": ["frac"], "form": form, "rel": True, "rib": True, "cut": 0, "start": 0, "enf": False})
    for form in ("str", "none", "float", "findex", "dict", "tuple", "set", "series"):
        for rel in (True, False):
            cases.append({"raw": ["unsup"], "form": form, "rel": rel, "rib": True, "cut": 0, "start": 0, "enf": False})
    cases.append({"raw": ["2d"], "form": "array", "rel": True, "rib": True, "cut": 0, "start": 0, "enf": False})
    cases.append({"raw": ["ints", [1, 2]], "form": "list", "rel": True, "rib": False, "cut": 0, "start": 0, "enf": False})
    nd = 60 if tier == "quick" else 600
    for _ in range(nd):
        size = rng.randrange(2, 8)
        vs = [rng.randrange(-5, 6) for _ in range(size)]
        vs[rng.randrange(size)] = vs[(rng.randrange(size - 1) + 1) % size] if size > 1 else vs[0]
        if len(set(vs)) == len(vs):
            vs.append(vs[0])
        cases.append({"raw": ["ints", vs], "form": rng.choice(INT_FORMS), "rel": rng.random() < 0.6, "rib": True,
                      "cut": 3, "start": 0, "enf": False})
    for cc in cases:
        cc.setdefault("other", rng.random() < 0.4)      # other horizon objects with the same numbers are used in between
    return cases


def shrink(c):
    raw = c["raw"]
    if raw[0] == "ints":
        vs = raw[1]
        for i in range(len(vs)):
            yield dict(c, raw=["ints", vs[:i] + vs[i + 1:]])
        for i, v in enumerate(vs):
            if abs(v) > 1:
                yield dict(c, raw=["ints", vs[:i] + [v // 2] + vs[i + 1:]])
    if raw[0] == "floats":
        qs = raw[1]
        for i in range(len(qs)):
            if len(qs) > 1:
                yield dict(c, raw=["floats", qs[:i] + qs[i + 1:]])
    if c["cut"] not in (None, 0):
        yield dict(c, cut=c["cut"] // 2)
    if c["start"] != 0:
        yield dict(c, start=0)
